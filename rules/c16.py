"""C16 — log files are named as documented; path-derived specs, listing and symlink agree."""
from rulelib import *
from report import CheckError
from fdi import FDI, Const, Agg, Sym, Ref, Tokens, Unknown, CONSUMED
from callgraph import effect_class
import c06

EXPLANATION = ("R16.1 name derivation (FileSpec::as_pathbuf / fixed_name_part) reaches no clock; R16.2 name-assembly table of as_pathbuf with the file name "
               "modelled as a token list: non-empty parts basename, discriminant, start time, infix joined by `_`, then `.suffix`, pushed onto the "
               "directory, over all presence/emptiness combinations; R16.3 the symlink is (re)created with the opened path before every log-file open and "
               "unconditionally inside the helper; R16.4 selector table of existing_log_files; R16.5 FileSpec::try_from maps parent/stem/extension, no "
               "timestamp, no discriminant; R16.6 every created log file is as_pathbuf of the configured spec (open-flag table); R16.7 the directory is "
               "created and checked before the state is built. R16.8 the predicate of the listing agrees with the naming: whole-function tables of the directory listing and of filter_files (shared with R14.2). R16.9 after every rotation the path stored in the active state is the path of the file that is open (shared with R01.4). R16.10 builder invariant: every builder method storing a rotation configuration or a file spec applies the `no start time by default` rule to the file spec that ends up stored."
               " R16.11 (shared with R06.3): one timestamp format per logger - helpers naming files at start get the format stored in the naming state. R16.6 also: the stored path of the opened file is the configured path itself, not a resolved variant."
               " R16.12 naming wiring: file spec, symlink, use_utc and Naming configured on Logger / FileLogWriterBuilder reach the writer's configuration unchanged; use_utc reaches file names and record clock together (shared configuration-wiring tables, rules/cfgwiring.py)."
               " R16.13 the directory scan behind existing_log_files runs with the state lock held on every call chain from the public query (rotation renames and re-creates the current file under that lock), so a listing is consistent with one state of the writer.")
ASSUMPTIONS = ["Path/PathBuf semantics of std", "the start-time text is never empty"]
NOT_DECIDED = ["Path semantics of the OS", "that existing_log_files equals the directory content for every history", "symlink resolution"]
FLOORS = {'R16.2': 2, 'R16.3': 2, 'R16.4': 1, 'R16.5': 1}


def listing_under_lock(R, ctx, rule='R16.13'):
    """existing_log_files answers from a directory scan; rotation renames rCURRENT and re-creates it while holding the state lock.  The scan therefore runs
    with that lock held on every call chain from the public query - otherwise a listing taken during a rotation omits the current file or shows a set of
    files that never existed together (the listing no longer agrees with what the writer produced)."""
    f, cg, la = ctx.f, ctx.cg, ctx.locks
    entry = ctx.body(r'^writers::file_log_writer::FileLogWriter::existing_log_files$')
    pred = lambda n, t: n == 'std::fs::read_dir'
    STATE = 'file_log_writer::state::State'
    bad = []
    nsites = 0
    seen = set()

    def walk(path, held, chain):
        nonlocal nsites
        if (path, held) in seen or path not in f.bodies:
            return
        seen.add((path, held))
        b = f.bodies[path]
        for (bb, callee, kind) in cg.call_sites_reaching(b, pred):
            now = held or any(STATE in h for h in la.must_held_local(path, bb))
            if callee not in f.bodies:
                nsites += 1
                if not now:
                    bad.append((chain + [path], b.loc(bb)))
            else:
                walk(callee, now, chain + [path])
    walk(entry.path, False, [])
    if nsites < 1:
        raise CheckError(f"{rule}: no directory scan reachable from FileLogWriter::existing_log_files")
    R.check(rule, f"{entry.path}|scan-under-state-lock", not bad, f"{nsites} read_dir site(s) on the chains from the public query, all with Mutex<State> held",
            "existing_log_files scans the log directory without holding the state lock (chain " + (' -> '.join(x.split('::')[-1] for x in bad[0][0]) if bad else '') +
            "): a listing taken while another thread rotates omits rCURRENT / returns files that never existed together", where=bad[0][1] if bad else entry.loc())


def run(R, ctx):
    R.rule('R16.13', 'MUST-HOLD(state lock, directory scan of existing_log_files)')
    listing_under_lock(R, ctx)
    R.rule('R16.12', "naming wiring: file spec, symlink, use_utc and Naming configured on Logger / FileLogWriterBuilder reach the writer's configuration unchanged; use_utc reaches file names and record clock together")
    import cfgwiring
    cfgwiring.config_wiring(R, ctx, 'R16.12', 'C16')
    R.rule('R16.1', 'PURITY(as_pathbuf, fixed_name_part; CLOCK)')
    R.rule('R16.2', 'TABLE(name assembly, symbolic tokens)')
    R.rule('R16.3', 'symlink = opened path, before every open, unconditional')
    R.rule('R16.4', 'TABLE(selectors of existing_log_files)')
    R.rule('R16.5', 'TABLE(FileSpec::try_from)')
    R.rule('R16.6', 'created log files are as_pathbuf of the configured spec')
    R.rule('R16.7', 'ORDER(create_dir_all, is_dir check -> State::new)')
    purity(R, ctx)
    name_table(R, ctx)
    symlink(R, ctx)
    selectors(R, ctx)
    try_from(R, ctx)
    c06.open_flags(R, ctx, rule='R16.6')
    directory(R, ctx)
    # the path stored in the active state is the path of the file that is open: reopen_output and the symlink agree with the file the
    # records go to after every rotation (shared with R01.4)
    R.rule('R16.9', 'stored path = path of the opened file after every rotation (shared with R01.4)')
    import c01 as _c01
    _c01.swap_rules(Relabel(R, {'R01.4': 'R16.9'}), ctx)
    import c14 as _c14
    _c14.suffix_agreement(R, ctx, rule='R16.8')
    rotation_default(R, ctx)
    R.rule('R16.11', 'one timestamp format per logger: helpers that name / parse files at start get the format stored in the naming state (shared with R06.3)')
    c06.format_agreement(R, ctx, rule='R16.11')
    family_predicate_proxy(R, ctx, 'R16.8', 'existing_log_files lists exactly the family: the predicate of the listing agrees with the naming (shared with R14.2)')

def rotation_default(R, ctx):
    """R16.10 - documented default: with rotation the start time is NOT part of the file names unless the user asked for it.  The builder
    keeps `rotation configured => the default of the timestamp switch is false` as an invariant of its two fields; every builder method
    that stores a rotation configuration or a file spec must apply that default to THE FILE SPEC THAT ENDS UP STORED (in whatever
    order the user calls the methods).  Decided on the decision rows of every method of the builder type."""
    f = ctx.f
    R.rule('R16.10', 'builder invariant: rotation configured => timestamp default false applied to the stored file spec, in every setter')
    bt = next((a for a in f.adts if re.search(r'builder::FileLogWriterBuilder$', a)), None)
    if bt is None:
        raise CheckError("R16.10: FileLogWriterBuilder not found")
    fields = [x['name'] for x in f.adts[bt]['variants'][0]['fields']]
    ftys = [x['ty'] for x in f.adts[bt]['variants'][0]['fields']]
    i_fs = [i for i, t in enumerate(ftys) if re.search(r'(^|::)FileSpec$', t)]
    i_rot = [i for i, t in enumerate(ftys) if re.search(r'Option<.*RotationConfig>$', t)]
    if len(i_fs) != 1 or len(i_rot) != 1:
        raise CheckError(f"R16.10: fields of the builder not recognised ({ftys})")
    i_fs, i_rot = i_fs[0], i_rot[0]
    DEF = r'FileSpec::if_default_use_timestamp$'
    n = 0
    for b in f.fn_bodies():
        if b.kind == 'Closure' or not b.path.startswith(bt + '::') or not (b.sig or '').rstrip().endswith(('-> Self', bt.split('::')[-1], bt)):
            continue
        if b.arg_count == 0 or not re.search(r'FileLogWriterBuilder$', b.locals[1]['ty']):
            continue
        try:
            rows = FDI(f, effects=[DEF], no_inline=[DEF]).run(b.path)
        except Exception as e:
            raise CheckError(f"R16.10 {b.path}: {type(e).__name__} {e}")
        for r in rows:
            res = r.result
            if not isinstance(res, Agg) or res.adt != bt:
                continue
            fs, rot = repr(res.fields[i_fs]), res.fields[i_rot]
            fs_in, rot_in = f"$self.{fields[i_fs]}", f"$self.{fields[i_rot]}"
            rot_some = (isinstance(rot, Agg) and rot.variant == 'Some')
            rot_new = rot_some and not repr(rot).startswith(f"Option::Some({rot_in}.0")
            fs_new = not (fs == fs_in or fs.startswith(fs_in + "'"))
            if not rot_some or not (rot_new or fs_new):
                continue
            n += 1
            applied = [e for e in r.effects if re.search(DEF, e[0]) and e[1][-1] == 'False']
            # the spec the default was applied to = the stored one: its name, followed by the mark of a mutated version
            ok = any(fs.startswith('$' + e[1][0].lstrip('&') + "'") for e in applied)
            key = f"{b.path}|{'stores-rotation' if rot_new else 'stores-file-spec'}"
            R.check('R16.10', key, ok, f"default applied to the stored spec ({fs})",
                    f"{b.path}: with a rotation configured the builder ends up with the file spec {fs}, but the `no start time by default` rule was applied to "
                    f"{[e[1][0] for e in applied] or 'nothing'}: depending on the order of the builder calls the files are named `<basename>_<start time>_r...` instead of the "
                    "documented `<basename>_r...` (and a start time re-read from the clock at every name computation makes rotation and cleanup miss their own files)",
                    where=b.loc())
    if n < 2:
        raise CheckError(f"R16.10: only {n} builder rows store a rotation or a file spec with rotation configured (3 confirmed by hand: rotate, o_rotate, file_spec)")


def purity(R, ctx):
    f, cg = ctx.f, ctx.cg
    for fn in ('as_pathbuf', 'fixed_name_part'):
        b = ctx.body(rf'^parameters::file_spec::FileSpec::{fn}$')
        chain = cg.chain(b.path, lambda n_, t: effect_class(n_) == 'CLOCK')
        R.check('R16.1', f"{b.path}|clock-free", chain is None, "reaches no clock",
                f"{fn} reads the clock on every call ({' -> '.join(x.split('::')[-1] for x in (chain or []))}): with a start-time part in the name, two calls yield different names - "
                "existing_log_files() of a logger without rotation returns a path that does not exist one second later, and each rotated file gets a new `start time`", where=b.loc())


# ---- string models: a String under construction is a token list ---------------------------------------------
def _cell_val(I, st, a):
    a = I.resolve(st, a)
    if isinstance(a, Ref):
        return a, I.resolve(st, I.read_cell_path(st, a.cell, a.proj))
    return None, a


def _as_tokens(v):
    if isinstance(v, Tokens):
        return v
    if isinstance(v, Const) and isinstance(v.v, str):
        return Tokens([v.v] if v.v else [])
    if isinstance(v, Sym):
        return Tokens([v])
    return None


def m_string_clone(I, st, fr, t, args, name):
    ref, v = _cell_val(I, st, args[0])
    tk = _as_tokens(v)
    return Tokens(list(tk.toks)) if tk is not None else NotImplemented


def m_push_str(I, st, fr, t, args, name):
    ref, v = _cell_val(I, st, args[0])
    tk = _as_tokens(v)
    r2, a = _cell_val(I, st, args[1])
    if tk is None or ref is None:
        return NotImplemented
    add = _as_tokens(a)
    if add is None:
        add = Tokens([Sym(I.describe(st, a))])
    I.write_loc(st, ref.cell, ref.proj, Tokens(tk.toks + add.toks))
    return Const(None)


def m_push_char(I, st, fr, t, args, name):
    ref, v = _cell_val(I, st, args[0])
    tk = _as_tokens(v)
    if tk is None or ref is None or not isinstance(args[1], Const):
        return NotImplemented
    I.write_loc(st, ref.cell, ref.proj, Tokens(tk.toks + [str(args[1].v)]))
    return Const(None)


def m_reserve(I, st, fr, t, args, name):
    return Const(None)


def m_is_empty(I, st, fr, t, args, name):
    ref, v = _cell_val(I, st, args[0])
    tk = _as_tokens(v)
    if tk is None:
        return NotImplemented
    # first undecided atom decides by forking; constants are non-empty by construction
    for tok in tk.toks:
        if isinstance(tok, str):
            return Const(False)
        atom = f"empty({tok.n})"
        cur = st.cond_map.get(atom)
        if cur is None:
            return ('fork-bool', Sym(atom, 'bool', ('empty', tok.x)), _continue_is_empty(tk, tok))
        if cur is False:
            return Const(False)
    return Const(True)


def _continue_is_empty(tk, tok):
    # after deciding emptiness of `tok`: non-empty -> false; empty -> depends on the remaining tokens (re-evaluated by a second call in
    # the code only if it asks again); for the value of THIS call the remaining tokens are inspected conservatively
    rest = tk.toks[tk.toks.index(tok) + 1:]

    def fn(is_empty):
        if not is_empty:
            return Const(False)
        if any(isinstance(x, str) for x in rest):
            return Const(False)
        if not rest:
            return Const(True)
        return Unknown('emptiness of several atoms in one test')
    return fn


STRING_MODELS = {
    r'^<std::string::String as std::clone::Clone>::clone$': m_string_clone,
    r'^std::string::String::push_str$': m_push_str,
    r'^std::string::String::push$': m_push_char,
    r'^std::string::String::reserve$': m_reserve,
    r'^std::string::String::is_empty$|^core::str::<impl str>::is_empty$': m_is_empty,
}


def name_table(R, ctx):
    f = ctx.f
    b = ctx.body(r'^parameters::file_spec::FileSpec::as_pathbuf$')
    EFF = [r'^std::path::PathBuf::push$', r'TimestampCfg::get_timestamp$', r'PathBuf as std::clone::Clone>::clone$']
    I = FDI(f, effects=EFF, no_inline=[r'TimestampCfg::get_timestamp$'], models=STRING_MODELS)
    rows = I.run(b.path)
    problems = []
    f23 = 0
    n = 0
    for r in rows:
        if r.undecided:
            if 'emptiness of several atoms' in r.undecided:
                continue
            R.bad('R16.2', f"{b.path}|tokens", f"UNDECIDED {r.undecided}", where=b.loc())
            return
        if any(v is True and a.startswith('empty(') and 'get_timestamp#' in a for a, v in r.cond):
            continue        # infeasible by assumption: the start-time text is never empty
        push = [e for e in r.effects if e[0] == 'std::path::PathBuf::push']
        if len(push) != 1:
            problems.append(f"{len(push)} PathBuf::push calls")
            continue
        if 'directory' not in r.long(push[0][1][0]):
            problems.append("the file name is not pushed onto the configured directory")
        x = push[0][2]['x'][1]
        toks = list(x[1]) if isinstance(x, tuple) and x[0] == 'tokens' else None
        if toks is None and isinstance(x, tuple) and x[0] == 'field' and push[0][1][1] in ('self.basename', '*self.basename'):
            toks = [Sym('self.basename')]       # nothing was appended to the cloned basename
        if toks is None:
            problems.append(f"file name is not assembled as a string ({push[0][1][1][:60]})")
            continue
        env = r.cmap

        def emp(nm):
            for k_ in (f"empty({nm})", f"empty(*{nm})", f"empty(&{nm})"):
                if k_ in env:
                    return env[k_]
            return None
        disc = env.get('variant(self.o_discriminant)')
        ts = next((v for a, v in r.cond if a.startswith('variant(') and 'get_timestamp#' in a), None)
        inf = env.get('variant(o_infix)')
        sfx = env.get('variant(self.o_suffix)')
        parts = []
        if emp('self.basename') is not True:
            parts.append('$self.basename')
        if disc == 'Some':
            if emp('self.o_discriminant.0') is None:
                f23 += 1
            if emp('self.o_discriminant.0') is not True:
                parts.append('$self.o_discriminant.0')
        if ts == 'Some':
            tsname = next(a[len('variant('):-1] for a, v in r.cond if a.startswith('variant(') and 'get_timestamp#' in a) + '.0'
            parts.append('$' + tsname)
        if inf == 'Some' and emp('o_infix.0') is not True:
            parts.append('$o_infix.0')
        exp = []
        for i, p_ in enumerate(parts):
            if i:
                exp.append('_')
            exp.append(p_)
        if sfx == 'Some':
            exp += ['.', '$self.o_suffix.0']
        got = []
        for tk in toks:
            s_ = tk if isinstance(tk, str) else '$' + tk.n
            if not isinstance(tk, str) and emp(tk.n.lstrip('*&')) is True:
                continue
            got.append(s_)
        got = [g.replace('$*', '$').replace('$&', '$') for g in got]
        if got != exp:
            problems.append(f"parts present [disc={disc}, start time={ts}, infix={inf}, suffix={sfx}, basename empty={emp('self.basename')}]: name tokens {got}, documented {exp}")
            continue
        n += 1
    if problems:
        R.bad('R16.2', f"{b.path}|tokens", f"name assembly: {problems[0]}", where=b.loc(), witness=problems[:4])
    else:
        R.ok('R16.2', f"{b.path}|tokens", f"{n} rows: non-empty parts joined by `_`, `.suffix`, pushed onto the directory", sample={'rows': n})
    R.check('R16.2', f"{b.path}|empty-discriminant-keeps-separator", f23 == 0, "emptiness of the discriminant is examined",
            "an empty discriminant (`discriminant(\"\")`) still gets its `_` separator: `prog__<start time>.log` / `prog_.log`, although empty parts and their separators are to be "
            "omitted (an empty basename IS treated as absent)", where=b.loc(), witness=f"{f23} rows")


def symlink(R, ctx):
    f = ctx.f
    b = ctx.body(r'^writers::file_log_writer::state::open_log_file$')
    p = ctx.ip.prov(b.path)
    sl = [(bb, t) for bb, t in b.calls() if callee_name(t).endswith('create_symlink_if_possible')]
    op = [(bb, t) for bb, t in b.calls() if callee_name(t) == 'std::fs::OpenOptions::open']
    ok = len(sl) == 1 and len(op) == 1 and not C.path_exists(b, op[0][0], sl[0][0])
    same = False
    if ok:
        r1 = {x for x in p.op_roots(sl[0][1]['args'][1]) if x[0] == 'call'}
        r2 = {x for x in p.op_roots(op[0][1]['args'][1]) if x[0] == 'call'}
        same = bool(r1) and r1 == r2 and any(x[1].endswith('FileSpec::as_pathbuf') for x in r1)
        link = p.op_roots(sl[0][1]['args'][0])
        fps = p.field_paths(arg_local(sl[0][1], 0)) if arg_local(sl[0][1], 0) is not None else set()
        same = same and any('o_create_symlink' in fp for fp in fps)
        # skipped only when no link is configured: the call is control dependent on the Some edge only
    R.check('R16.3', f"{b.path}|symlink-before-open-same-path", ok and same, "create_symlink_if_possible(configured link, path) then open(path)",
            "open_log_file does not (re)create the configured symlink with the very path it opens, before opening", where=b.loc())
    for fn in ('create_symlink_if_possible', 'unix_create_symlink'):
        sb = ctx.body(rf'^writers::file_log_writer::state::platform::{fn}$')
        targets = [bb for bb, t in sb.calls() if callee_name(t) in ('std::os::unix::fs::symlink', 'writers::file_log_writer::state::platform::unix_create_symlink')]
        uncond = bool(targets) and must_pass(sb, targets)
        argok = True
        if fn == 'unix_create_symlink' and targets:
            t = sb.blocks[targets[0]]['term']
            ps = ctx.ip.prov(sb.path)
            argok = any(r_ == ('param', 2) for r_ in ps.op_roots(t['args'][0])) and any(r_ == ('param', 1) for r_ in ps.op_roots(t['args'][1]))
        R.check('R16.3', f"{sb.path}|unconditional", uncond and argok, "symlink(logfile, link) on every path",
                f"{fn} does not create the link on every path (an existing link that looks up to date is kept: it can point to a same-named file in another directory), "
                "or swaps its arguments", where=sb.loc())
    # every open of a log file except reopen goes through open_log_file
    opens = sorted({b2.path for b2 in f.fn_bodies() for bb, t in b2.calls() if callee_name(t) == 'std::fs::OpenOptions::open' and b2.file.startswith('src/writers/file_log_writer')})
    OPENERS = {'writers::file_log_writer::state::open_log_file', 'writers::file_log_writer::state::State::reopen_outputfile'}
    stray = [o for o in opens if not only_called_from(ctx.cg, root_fn(o), OPENERS)]
    R.check('R16.3', 'log-file-opens', not stray,
            "log files are opened only in open_log_file and reopen_outputfile (or private helpers called from nowhere else)", f"log file opened elsewhere: {stray}", where=None)


def selectors(R, ctx):
    f = ctx.f
    b = ctx.body(r'^writers::file_log_writer::state::list_and_cleanup::existing_log_files$')
    EFF = [r'FileSpec::filter_files$', r'FileSpec::as_pathbuf$', r'FileSpec::read_dir_related_files$']
    I = FDI(f, effects=EFF, no_inline=EFF + [r'FileSpec::get_suffix$'])
    rows = I.run(b.path)
    n = 0
    bad = None
    for r in rows:
        if r.undecided:
            R.bad('R16.4', f"{b.path}|selectors", f"UNDECIDED {r.undecided}", where=b.loc())
            return
        rot = r.get('use_rotation')
        ff = [e for e in r.effects if e[0].endswith('filter_files')]
        got = []
        for e in ff:
            flt, sfx = r.long(e[1][2]), r.long(e[1][3])
            kind = 'active' if c_norm(flt) == 'infix_filter' else 'current' if 'Equls' in flt and 'rCURRENT' in flt else 'custom' if 'Equls' in flt and 'with_configured_current' in flt else '?'
            s_ = 'gz' if "'gz'" in sfx else 'suffix' if 'get_suffix' in sfx or 'as_deref' in sfx else '?'
            got.append((kind, s_))
            if 'read_dir_related_files#' not in r.long(e[1][1]):
                bad = "filter_files is not applied to the directory listing"
        if rot is False:
            ap = [e for e in r.effects if e[0].endswith('as_pathbuf')]
            if ff or len(ap) != 1 or 'None' not in ap[0][1][1]:
                bad = f"without rotation: {len(ff)} listings / {len(ap)} as_pathbuf(None)"
            continue
        exp = []
        if r.get('selector.with_plain_files'):
            exp.append(('active', 'suffix'))
        if r.get('selector.with_compressed_files'):
            exp.append(('active', 'gz'))
        if r.get('selector.with_r_current'):
            exp.append(('current', 'suffix'))
        if r.get('variant(selector.with_configured_current)') == 'Some':
            exp.append(('custom', 'suffix'))
        if got != exp:
            bad = f"selector [plain={r.get('selector.with_plain_files')}, gz={r.get('selector.with_compressed_files')}, rCURRENT={r.get('selector.with_r_current')}, " \
                  f"custom={r.get('variant(selector.with_configured_current)')}]: listings {got}, documented {exp}"
        n += 1
    R.check('R16.4', f"{b.path}|selectors", not bad and n >= 16, f"{n} selector rows agree", f"existing_log_files: {bad}", where=b.loc(), sample={'rows': n})


def c_norm(s):
    return re.sub(r"'\d+", '', s).lstrip('&')


def try_from(R, ctx):
    f = ctx.f
    b = ctx.body(r'^parameters::file_spec::FileSpec::try_from$')
    EFF = [r'Path::(parent|file_stem|extension|is_dir)$']
    I = FDI(f, effects=EFF)
    rows = I.run(b.path)
    bad = None
    n = 0
    for r in rows:
        if r.undecided:
            bad = 'UNDECIDED ' + r.undecided
            break
        isdir = next((v for a, v in r.cond if 'is_dir' in a), None)
        if isdir is True:
            if not (isinstance(r.result, Agg) and r.result.variant == 'Err'):
                bad = "an existing directory is not refused"
            continue
        res = r.result
        if not (isinstance(res, Agg) and res.variant == 'Ok' and isinstance(res.fields[0], Agg)):
            bad = f"result {res!r}"
            continue
        spec = res.fields[0]
        names = [fd['name'] for fd in f.adts['parameters::file_spec::FileSpec']['variants'][0]['fields']]
        val = {nm: r.long(repr(v)) for nm, v in zip(names, spec.fields)}
        if 'Path::parent#' not in val['directory']:
            bad = f"directory = {val['directory'][:80]} (documented: parent of the path)"
        elif 'Path::file_stem#' not in val['basename']:
            bad = f"basename = {val['basename'][:80]} (documented: file stem)"
        elif not ('Path::extension#' in val['o_suffix'] or val['o_suffix'] in ('Option::None',)):
            bad = f"suffix = {val['o_suffix'][:80]} (documented: extension)"
        elif val['o_discriminant'] != 'Option::None':
            bad = f"discriminant = {val['o_discriminant']}"
        elif val['timestamp_cfg'] != 'TimestampCfg::No':
            bad = f"timestamp = {val['timestamp_cfg']} (documented: none, the spec denotes exactly that path)"
        n += 1
    R.check('R16.5', f"{b.path}|mapping", not bad and n >= 1, "directory=parent, basename=stem, suffix=extension, no discriminant, no timestamp", f"FileSpec::try_from: {bad}", where=b.loc())


def directory(R, ctx):
    """decided on the rows of the builder function that hands the configuration to State::new (discovered by that effect, private helpers inlined):
    on every row that reaches State::new, create_dir_all(<the spec's directory>) returned Ok and the is_dir test of that directory was true"""
    import cfgwiring
    f = ctx.f
    b = cfgwiring.state_builder(ctx, 'R16.7')
    NEW = r'file_log_writer::state::State::new$'
    bad = None
    n = 0
    for r in FDI(f, effects=[NEW], no_inline=[NEW]).run(b.path):
        if r.undecided:
            raise CheckError(f"R16.7 {b.path}: UNDECIDED {r.undecided}")
        if not any(re.search(NEW, e[0]) for e in r.effects):
            continue
        n += 1
        mk = [(a_, v) for a_, v in r.cond if 'std::fs::create_dir_all(' in a_ and a_.startswith('variant(')]
        chk = [(a_, v) for a_, v in r.cond if 'Metadata::is_dir(' in a_]
        if not mk or any(v != 'Ok' for _a, v in mk):
            bad = "the state is built on a path on which create_dir_all was not called / did not succeed"
        elif not any(re.search(r'file_spec\.directory|get_directory', r.long(a_)) for a_, _v in mk):
            bad = f"create_dir_all is called with {r.long(mk[0][0])[:80]}, not with the directory of the file spec"
        elif not chk or any(v is not True for _a, v in chk):
            bad = "the state is built without the is_dir check of the log directory having succeeded"
    if n < 1:
        raise CheckError(f"R16.7: State::new not reached on the rows of {b.path}")
    R.check('R16.7', f"{b.path}|dir-before-state", not bad, f"{n} rows: create_dir_all(spec directory) = Ok and is_dir = true before State::new",
            f"the log directory is not created and checked before the state is built: {bad}", where=b.loc())
