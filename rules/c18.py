"""C18 — reopen_output and reset_flw switch files without losing or reordering records."""
from rulelib import *
from report import CheckError
from fdi import FDI, Const, Agg, Sym, Ref
import c01, c04, c06, c08, c09

EXPLANATION = ("Narrow claim, necessary conditions only: R18.1 every OpenOptions chain of reopen_outputfile is create + append, never truncate / bare write, "
               "and opens the path stored in the active state (the temporary-file detour uses a derived name and removes it); the stored path is the "
               "path of the file currently written to (updated by every rotation); R18.2 the writer is replaced by assignment only after a successful "
               "open (the replaced writer is dropped, hence flushed into the old inode), under the state lock by construction; R18.3 reset validates "
               "the write mode and builds the new state before replacing the old one; R18.4 reopen_output / trigger_rotation fan out to the file "
               "writer and every additional writer, keeping the first error. R18.4 also: the additional writers are iterated for every kind of primary writer."
               " R18.1 also (shared with R06.1): the path stored for re-opening is exactly the path that was opened. R18.3 also (shared with R08.5): reset opens nothing and reads no file length before the old state is replaced (dropped, flushed)."
               " R18.4 also: MultiWriter::reopen_output / trigger_rotation address the file writer and the additional writer exactly once each whenever present; FileLogWriter::rotate returns Ok only after one forced rotation of the state.")
ASSUMPTIONS = ["inode semantics of external rename/remove (OS)", "BufWriter flushes on drop"]
NOT_DECIDED = ["inode semantics of external rename/remove", "content of old vs new family", "async mode (outside the property)"]
FLOORS = {'R18.1': 1, 'R18.3': 1, 'R18.4': 2}


def run(R, ctx):
    f = ctx.f
    R.rule('R18.1', 'TABLE(open flags of reopen); reopened path = stored path = current file')
    R.rule('R18.2', 'GUARDED-EFFECT(writer swap, successful open)')
    R.rule('R18.3', 'ORDER(assert_write_mode, try_build_state -> replace state)')
    R.rule('R18.4', 'fan-out of reopen_output / trigger_rotation')
    b = ctx.body(r'^writers::file_log_writer::state::State::reopen_outputfile$')
    EFF = [r'^std::fs::OpenOptions::\w+$', r'^std::fs::remove_file$', r'PathBuf::set_extension$']
    rows = FDI(f, effects=EFF).run(b.path)
    bad = None
    n = 0
    for r in rows:
        if r.undecided:
            R.bad('R18.1', f"{b.path}|flags", f"UNDECIDED {r.undecided}", where=b.loc())
            return
        if r.get('variant(self.inner)') != 'Active':
            if r.effects:
                bad = "reopen acts on a state that is not active"
            continue
        chain = {}
        chains = []
        for e in r.effects:
            nm = e[0].split('::')[-1]
            if e[0].startswith('std::fs::OpenOptions::'):
                if nm == 'new':
                    chain = {}
                elif nm == 'open':
                    chain['_path'] = r.long(e[1][1])
                    chains.append(chain)
                else:
                    chain[nm] = e[1][1]
        for ch in chains:
            if ch.get('create') != 'True' or ch.get('append') != 'True' or 'truncate' in ch or 'create_new' in ch:
                bad = f"a reopen chain has flags { {k: v for k, v in ch.items() if k != '_path'} }; documented create + append, never truncate (the renamed file's successor must not lose content, " \
                      "an untouched file must be appended to)"
        finals = [ch for ch in chains if 'ShortLivingTempFileForReOpen' not in ch['_path'] and "'1" not in ch['_path'].split('inner.2')[-1][:3]]
        if not chains or not any(re.search(r'self\.inner\.2$', ch['_path'].lstrip('&')) for ch in chains):
            bad = bad or f"reopen does not open the stored path of the active state ({[ch['_path'][-40:] for ch in chains]})"
        # the temp detour removes what it created
        tmp = [ch for ch in chains if not re.search(r'self\.inner\.2$', ch['_path'].lstrip('&'))]
        if tmp and isinstance(r.result, Agg) and r.result.variant == 'Ok' and not any(e[0] == 'std::fs::remove_file' for e in r.effects):
            bad = bad or "the temporary file of the reopen detour is not removed"
        n += 1
    R.check('R18.1', f"{b.path}|flags", not bad and n >= 2, f"{n} rows: create + append on the stored path", f"reopen_outputfile: {bad}", where=b.loc(), sample={'rows': n})
    # the path that is stored (and re-opened) is the configured path of the file, exactly as it was opened (shared with R06.1 / R16.6)
    c06.open_flags(_Map(R, {'R06.1': 'R18.1'}), ctx, rule='R18.1')
    # stored path is kept current: rotation table (shared with R01.4)
    c01.swap_rules(_Map(R, {'R01.4': 'R18.2'}), ctx)
    # writer assignment in reopen only after Ok of the open it stores
    # (the assignment may sit in the reopen function itself or in a private helper that only it calls)
    scope = [b] + [f.bodies[x] for x in ctx.cg.reachable([b.path], spawn=False) if x in f.bodies and x != b.path and f.bodies[x].kind != 'Closure'
                   and only_called_from(ctx.cg, root_fn(x), {b.path})]
    total, ok = 0, True
    for x in scope:
        assigns = [bb for bb in sorted(x.normal_blocks()) for s in x.blocks[bb]['stmts'] if s['k'] == 'assign' and s['place']['p'] and s['place']['p'][-1]['k'] == 'deref' and
                   'Box<dyn std::io::Write + std::marker::Send>' in x.local_ty(s['place']['l'])]
        opens = [y[0] for y in ctx.cg.call_sites_reaching(x, lambda n_, t_: n_ == 'std::fs::OpenOptions::open')]      # direct, or through a private helper
        total += len(assigns)
        ok = ok and all(any(C.dominates(x, e[0], a) for o in opens for e in ok_block_of_call(x, o)) for a in assigns)
    R.check('R18.2', f"{b.path}|assign-after-open", total > 0 and ok, f"{total} writer assignments, each dominated by the Ok edge of an open", "reopen replaces the writer without a successful open", where=b.loc())

    rb = ctx.body(r'^writers::file_log_writer::state_handle::StateHandle::reset$')
    aw = [bb for bb, t in rb.calls() if callee_name(t).endswith('assert_write_mode')]
    tb = [bb for bb, t in rb.calls() if callee_name(t).endswith('try_build_state')]
    repl = [bb for bb in sorted(rb.normal_blocks()) for s in rb.blocks[bb]['stmts'] if s['k'] == 'assign' and s['place']['p'] and s['place']['p'][-1]['k'] == 'deref' and
            rb.local_ty(s['place']['l']).startswith('&mut writers::file_log_writer::state::State')]
    repl += [bb for bb in sorted(rb.normal_blocks()) if rb.blocks[bb]['term']['k'] == 'drop' and rb.blocks[bb]['term']['place']['p'] and 'state::State' in rb.blocks[bb]['term']['ty'] and
             'Guard' not in rb.blocks[bb]['term']['ty']]
    ok = len(aw) == 1 and len(tb) == 1 and repl
    if ok:
        oka = [e[0] for e in ok_block_of_call(rb, aw[0])]
        okt = [e[0] for e in ok_block_of_call(rb, tb[0])]
        ok = all(any(C.dominates(rb, o, x) for o in oka) and any(C.dominates(rb, o, x) for o in okt) for x in repl)
    R.check('R18.3', f"{rb.path}|validate-build-then-replace", bool(ok), "assert_write_mode? and try_build_state()? dominate the replacement of the state",
            "reset replaces (or drops) the old state before the write mode was checked / the new state was built: on an error the logger is left without its old file", where=rb.loc())
    c08.reset_seeding(R, ctx, 'R18.3')
    for m, verb in (('reopen_output', r'::reopen_output$'), ('trigger_rotation', r'::(trigger_rotation|rotate)$')):
        hb = ctx.body(rf'^logger_handle::LoggerHandle::{m}$')
        rows, I = c04.rows_of(ctx, hb.path, [verb, r'Iterator>::next$'], ni=[verb], k=2)
        bad = None
        n = 0
        for r in rows:
            if r.undecided:
                bad = 'UNDECIDED ' + r.undecided
                break
            effs = r.effects
            multi = r.get('variant(*self.writers_handle.primary_writer)') or r.get('variant(self.writers_handle.primary_writer)') or \
                next((v for a, v in r.cond if a.startswith('variant(') and 'primary_writer' in a), None)
            prim = [e for e in effs if re.search(verb, e[0]) and 'primary_writer' in r.long(e[1][0])]
            if multi == 'Multi' and len(prim) != 1:
                bad = f"{m}: the file writer is addressed {len(prim)} times"
            somes = [v for a, v in r.cond if a.startswith('variant(') and 'Iterator>::next#' in a]
            others = [e for e in effs if re.search(verb, e[0]) and 'next#' in e[1][0]]
            if len(others) != sum(1 for s_ in somes if s_ == 'Some'):
                bad = f"{m}: {len(others)} calls for {sum(1 for s_ in somes if s_ == 'Some')} additional writers"
            if somes and somes[-1] != 'None':
                bad = f"{m}: the loop over the additional writers ends early"
            if not somes:
                bad = f"{m}: with primary writer = {multi} the additional writers are not iterated at all: file writers registered with add_writer are never addressed"
            n += 1
        R.check('R18.4', f"{hb.path}|fan-out", not bad and n >= 3, f"{n} rows", f"{bad}", where=hb.loc())
    multi_fanout(R, ctx, 'R18.4')


def multi_fanout(R, ctx, rule, methods=('reopen_output', 'trigger_rotation')):
    """second level of the fan-out: MultiWriter hands the request to its file writer AND to its additional writer whenever they exist (decision rows over
    the four presence combinations), and - for the rotation - FileLogWriter::rotate ends in the forced rotation of the state"""
    f = ctx.f
    VERB = {'reopen_output': r'::(reopen_outputfile|reopen_output)$', 'trigger_rotation': r'::rotate$'}
    for m in methods:
        b = ctx.body(rf'^primary_writer::multi_writer::MultiWriter::{m}$')
        bad = None
        combos = set()
        for r in FDI(f, effects=[VERB[m]], no_inline=[VERB[m]], max_rows=2000).run(b.path):
            if r.undecided:
                raise CheckError(f"{rule}: MultiWriter::{m} UNDECIDED {r.undecided}")
            fw, ow = r.get('variant(self.o_file_writer)'), r.get('variant(self.o_other_writer)')
            nf = sum(1 for e in r.effects if 'o_file_writer' in e[1][0])
            no = sum(1 for e in r.effects if 'o_other_writer' in e[1][0])
            combos.add((fw, ow))
            if fw is None or ow is None:
                bad = (f"returns on a path on which the {'file' if fw is None else 'additional'} writer was not even examined (e.g. after the other one reported an error): "
                       "all writers must be attempted, only the first error is reported")
            elif fw == 'Some' and nf != 1:
                bad = f"with a file writer present it is addressed {nf} times (additional writer: {ow})"
            elif ow == 'Some' and no != 1 and not (fw == 'Some' and False):
                bad = f"with an additional writer present it is addressed {no} times (file writer: {fw})"
            elif (fw == 'None' and nf) or (ow == 'None' and no):
                bad = "a writer that is absent is addressed"
        if not bad and len({c for c in combos if None not in c}) < 4:
            raise CheckError(f"{rule}: MultiWriter::{m}: presence combinations not recognised ({sorted(map(str, combos))})")
        R.check(rule, f"{b.path}|fan-out", not bad, "file writer and additional writer are each addressed exactly once whenever present", f"MultiWriter::{m}: {bad}", where=b.loc())
    if 'trigger_rotation' in methods:
        MOUNT = r'State::mount_next_linewriter_if_necessary$'
        fb = ctx.body(r'^writers::file_log_writer::FileLogWriter::rotate$')
        bad = None
        n = 0
        # what `forced` is, whatever its representation (bool, private enum): NOT the value the record sink passes - with the sink's value the rotation
        # is carried out iff rotation_necessary(), with any other value always (that meaning is decided by R01.2 / R08.1)
        _sb, sink_rows_ = c01.sink_rows(ctx)
        sink_vals = {e[1][-1] for r_ in sink_rows_ for e in r_.effects if re.search(MOUNT, e[0])}
        if len(sink_vals) != 1:
            raise CheckError(f"{rule}: the trigger value the record sink passes to the rotation is not unique ({sorted(sink_vals)})")
        for r in FDI(f, effects=[MOUNT], no_inline=[MOUNT], max_rows=2000).run(fb.path):
            if r.undecided:
                raise CheckError(f"{rule}: FileLogWriter::rotate UNDECIDED {r.undecided}")
            res = repr(r.result).replace('$', '')
            ok = res.startswith('Result::Ok') or 'mount_next_linewriter_if_necessary#' in res      # Ok(..) or the rotation's own result handed on
            mounts = [e for e in r.effects if re.search(MOUNT, e[0])]
            if ok:
                n += 1
                if len(mounts) != 1 or mounts[0][1][-1] in sink_vals:
                    bad = f"returns Ok after {len(mounts)} rotation request(s) with force = {[e[1][-1] for e in mounts]}"
        R.check(rule, f"{fb.path}|forced-rotation", not bad and n >= 1, "Ok only after exactly one forced rotation of the state", f"FileLogWriter::rotate {bad or 'has no successful row'}: "
                "an explicitly triggered rotation does not rotate", where=fb.loc())


class _Map:
    def __init__(self, R, m):
        self.R, self.m = R, m

    def check(self, rule, *a, **kw):
        return self.R.check(self.m.get(rule, rule), *a, **kw)

    def bad(self, rule, *a, **kw):
        return self.R.bad(self.m.get(rule, rule), *a, **kw)

    def ok(self, rule, *a, **kw):
        return self.R.ok(self.m.get(rule, rule), *a, **kw)
