"""Stream wiring (shared by C13 R13.7 and C20 R20.6): what the user configures for ONE output stream (duplication level, format function) travels
to THAT stream's slot at every hop of the construction chain
    Logger setter -> Logger field -> Logger::build -> PrimaryWriter::{multi,stdout,stderr,test} -> MultiWriter::new / StdWriter::new / TestWriter::new -> field
(the last hop, field -> emission, is the duplication table R13.3 / R20.5).  Streams are identified by the names the crate itself uses at each hop
(`stderr`/`err`, `stdout`/`out`, `file`, `writer`); a hop whose names carry no stream tag is not judged, an unrecognised form is a CHECK-ERROR."""
from rulelib import *
from report import CheckError
from fdi import FDI, Agg, Const
import table as T


def tag(name):
    n = (name or '').lower()
    if re.search(r'stderr|(^|_)err($|_)', n):
        return 'err'
    if re.search(r'stdout|(^|_)out($|_)', n):
        return 'out'
    if re.search(r'for_files?$|(^|_)file($|_)', n) and 'writer' not in n:
        return 'file'
    if re.search(r'for_writer$', n):
        return 'writer'
    return None


def _std_calls(x):
    return {t[1].replace('fn:', '').split('::')[-1] for t in T.subterms(x) if len(t) >= 2 and t[0] in ('call', 'eff') and isinstance(t[1], str) and
            re.search(r'^(fn:)?std::io::(stderr|stdout)$', t[1])}


def wiring(R, ctx, rule):
    f = ctx.f
    n_hops = 0
    # ---- hop A: the setters of the Logger builder
    lt = f.adts.get('logger::Logger')
    if not lt:
        raise CheckError(f"{rule}: logger::Logger not found")
    fnames = [x['name'] for x in lt['variants'][0]['fields']]
    for b in sorted(f.fn_bodies(), key=lambda b_: b_.path):
        m = re.match(r'^logger::Logger::(\w+)$', b.path)
        if not m or b.kind == 'Closure' or not b.is_pub or b.arg_count < 2 or b.locals[1]['ty'] != 'logger::Logger' or b.locals[0]['ty'] != 'logger::Logger':
            continue
        mt = tag(m.group(1))
        if mt not in ('err', 'out'):
            continue
        rows = FDI(f, max_rows=2000).run(b.path)
        bad = None
        changed_any = False
        for r in rows:
            if r.undecided:
                raise CheckError(f"{rule}: setter {b.path} undecided: {r.undecided}")
            if not isinstance(r.result, Agg) or len(r.result.fields) != len(fnames):
                raise CheckError(f"{rule}: setter {b.path}: returned value not recognised")
            probed = {m_ for a, _v in r.cond for m_ in re.findall(r'std::io::(stderr|stdout)\b', a)}
            if probed and probed != {'stderr' if mt == 'err' else 'stdout'}:
                bad = f"Logger::{m.group(1)} examines std::io::{sorted(probed)[0]}() to configure the other stream"
            for fn_, v in zip(fnames, r.result.fields):
                unchanged = re.sub(r'[&$*]', '', repr(v)) == f"self.{fn_}"
                if unchanged:
                    continue
                ft = tag(fn_)
                if ft in ('err', 'out'):
                    changed_any = True
                    if ft != mt:
                        bad = f"Logger::{m.group(1)} stores into the field `{fn_}` (the other stream's setting)"
                if ft == mt:
                    sc = set(re.findall(r'std::io::(stderr|stdout)\b', repr(v)))
                    if sc and sc != {'stderr' if mt == 'err' else 'stdout'}:
                        bad = f"Logger::{m.group(1)} examines std::io::{sorted(sc)[0]}() to configure the other stream"
        n_hops += 1
        R.check(rule, f"{b.path}|setter", not bad and changed_any, f"stores into the {mt}-stream field(s) only", f"{bad or 'Logger::' + m.group(1) + ' changes no field of its stream'}: "
                "the setting the user made for one stream configures the other", where=b.loc())
    # ---- hop B: Logger::build hands each field to the parameter of its stream
    bb_ = ctx.body(r'^logger::Logger::build$')
    PW = r'^primary_writer::PrimaryWriter::(multi|stdout|stderr|test)$'
    I = FDI(f, effects=[PW], no_inline=[r'^primary_writer::PrimaryWriter::', r'try_build$', r'start_flusher_thread$', r'set_palette$', r'LoggerHandle::', r'FlexiLogger::new$',
                                        r'DeferredNow::', r'set_error_channel', r'set_panic'], max_rows=5000)
    bad = None
    ncalls = 0
    for r in I.run(bb_.path):
        if r.undecided:
            raise CheckError(f"{rule}: Logger::build undecided: {r.undecided}")
        for e in r.effects:
            cb = f.bodies[e[0]]
            names = [cb.locals[i].get('name') for i in range(1, cb.arg_count + 1)]
            ftag = tag(e[0].split('::')[-1])
            if e[0].endswith('::test'):
                bi = [i for i in range(1, cb.arg_count + 1) if cb.locals[i]['ty'] == 'bool']
                if len(bi) == 1 and tag(names[bi[0] - 1]) in ('err', 'out') and e[1][bi[0] - 1] in ('True', 'False'):
                    sel = tag(names[bi[0] - 1])
                    ftag = sel if e[1][bi[0] - 1] == 'True' else ('err' if sel == 'out' else 'out')
            ncalls += 1
            for nm, x in zip(names, e[2]['x']):
                pt = tag(nm) or (ftag if nm and re.search(r'^format', nm) else None)
                if pt not in ('err', 'out'):
                    continue
                ftags = {tag(fl) for fl in T.fields_in(x)} & {'err', 'out', 'file', 'writer'}
                if not ftags:
                    continue        # a constant / default: nothing configured travels here
                if ftags != {pt}:
                    bad = f"Logger::build passes {sorted(T.fields_in(x))} as `{nm}` of {e[0].split('::')[-1]} (the {pt} stream)"
    if ncalls < 3:
        raise CheckError(f"{rule}: constructor calls in Logger::build not found ({ncalls})")
    n_hops += 1
    R.check(rule, f"{bb_.path}|fields-to-constructor", not bad, f"{ncalls} constructor calls on the rows: every stream parameter receives the field of its stream",
            f"{bad}: what was configured for one stream takes effect on another", where=bb_.path and bb_.loc())
    # ---- hop C: PrimaryWriter::* -> MultiWriter::new / StdWriter::new / TestWriter::new
    for b in sorted([x for x in f.fn_bodies() if re.search(PW, x.path)], key=lambda x: x.path):
        NEW = r'(MultiWriter|StdWriter|TestWriter)::new$'
        bad = None
        nn = 0
        ftag = tag(b.path.split('::')[-1])
        for r in FDI(f, effects=[NEW], no_inline=[NEW]).run(b.path):
            if r.undecided:
                raise CheckError(f"{rule}: {b.path} undecided: {r.undecided}")
            for e in r.effects:
                cb = f.bodies.get(e[0])
                if cb is None:
                    continue
                nn += 1
                names = [cb.locals[i].get('name') for i in range(1, cb.arg_count + 1)]
                for nm, x in zip(names, e[2]['x']):
                    pt = tag(nm)
                    ins = {tag(i_) for i_ in T.inputs_in(x)} & {'err', 'out'}
                    if pt in ('err', 'out') and ins and ins != {pt}:
                        bad = f"{b.path.split('::')[-1]} passes {sorted(T.inputs_in(x))} as `{nm}`"
                    if ftag in ('err', 'out'):
                        sc = _std_calls(x)
                        var = {t[2] for t in T.subterms(x) if len(t) == 4 and t[0] == 'agg' and str(t[1]).endswith('StdStream')}
                        if sc and sc != {'stderr' if ftag == 'err' else 'stdout'}:
                            bad = f"PrimaryWriter::{b.path.split('::')[-1]} writes to std::io::{sorted(sc)[0]}()"
                        if var and {tag('std' + v.lower()) for v in var} != {ftag}:
                            bad = f"PrimaryWriter::{b.path.split('::')[-1]} builds StdStream::{sorted(var)[0]}"
        if nn:
            n_hops += 1
            R.check(rule, f"{b.path}|to-writer", not bad, "parameters reach the writer's constructor stream by stream", f"{bad}: the primary output / duplicate goes to the other stream "
                    "or is rendered with the other stream's format", where=b.loc())
    # ---- hop D: MultiWriter::new stores each parameter in the field of its stream
    mb = ctx.body(r'^primary_writer::multi_writer::MultiWriter::new$')
    mt_ = f.adts.get('primary_writer::multi_writer::MultiWriter')
    mf = [x['name'] for x in mt_['variants'][0]['fields']]
    bad = None
    nf = 0
    I4 = FDI(f)
    for r in I4.run(mb.path):
        if r.undecided:
            raise CheckError(f"{rule}: MultiWriter::new undecided: {r.undecided}")
        if not isinstance(r.result, Agg) or len(r.result.fields) != len(mf):
            raise CheckError(f"{rule}: MultiWriter::new: returned value not recognised")
        pnames = [mb.locals[i].get('name') for i in range(1, mb.arg_count + 1)]
        for fn_, v in zip(mf, r.result.fields):
            ft = tag(fn_)
            if ft not in ('err', 'out'):
                continue
            nf += 1
            words = set(re.findall(r'[A-Za-z_][A-Za-z_0-9]*', repr(v)))
            ins = {tag(w) for w in words if w in pnames} & {'err', 'out'}
            if ins:
                if ins != {ft}:
                    bad = f"MultiWriter::new stores a parameter of the other stream in `{fn_}`"
                continue
            # an enum parameter stored as its discriminant (`x as u8`): the row fixes the variant of each parameter, the constant stored must be
            # the discriminant of the variant of THIS stream's parameter
            mc = re.search(r'new\((\d+)\)', repr(v))
            same = [pn for pn in pnames if tag(pn) == ft and r.get(f'variant({pn})') is not None]
            if mc and not same and any(tag(pn) in ('err', 'out') and tag(pn) != ft and r.get(f'variant({pn})') is not None for pn in pnames):
                bad = f"MultiWriter::new stores in `{fn_}` a value computed from the other stream's parameter only"
                continue
            if not mc or len(same) != 1:
                raise CheckError(f"{rule}: MultiWriter::new: origin of `{fn_}` not recognised ({repr(v)[:60]})")
            pty = mb.locals[pnames.index(same[0]) + 1]['ty']
            dis = {v_['name']: str(v_['discr']) for v_ in (f.adts.get(pty) or {}).get('variants', [])}
            if dis.get(r.get(f'variant({same[0]})')) != mc.group(1):
                bad = f"MultiWriter::new stores in `{fn_}` a value that is not the one given for this stream ({same[0]} = {r.get(f'variant({same[0]})')}, stored {mc.group(1)})"
    n_hops += 1
    R.check(rule, f"{mb.path}|fields", not bad and nf >= 4, f"{nf} stream fields, each from the parameter of its stream", f"{bad}: duplication level / format of one stream is used for the other",
            where=mb.loc())
    if n_hops < 8:
        raise CheckError(f"{rule}: only {n_hops} hops of the configuration chain recognised")
