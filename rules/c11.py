"""C11 — a killed process loses no acknowledged direct-mode record and restarts cleanly."""
from rulelib import *
from report import CheckError
from fdi import FDI, Const, Agg, Sym, Ref
from callgraph import effect_class
import c01, c06, c07, c09, c15

EXPLANATION = ("Narrow claim: necessary structural conditions of the two sentences, not the quantification over crash points. R11.1 in direct mode the "
               "writer is the unbuffered File: WriteMode::buffersize is None for Direct/SupportCapture (table) and open_log_file wraps in a BufWriter "
               "iff buffersize is Some; R11.2 the synchronous record path hands the bytes to write_all before log() returns: no channel send and no "
               "thread spawn is reachable from it, and the sink's table holds; R11.3 every multi-step file-system change is ordered so that a kill "
               "between two steps loses nothing: rename before create at rotation, .gz finished before the original is removed, a missing current "
               "file tolerated at restart, symlink failures reported but never propagated; R11.4 start-up derives its state only from the directory "
               "listing and file metadata (no file is read, nothing else is persisted). R11.5 start table (shared with R06.3/R06.5): the previous process's current file is found under the name this naming writes to and rotated or continued, never truncated. R11.3 also: the probe deciding whether an old symlink must be removed does not follow the link (a kill can leave it dangling)."
               " R11.1 also: reopen_outputfile wraps the re-opened file in a BufWriter only on paths on which buffersize() is Some, and no third function constructs a BufWriter<File> for the log file."
               " R11.6 (shared with R01.6/R06.4): every timestamp name opened at start or by a rotation passed the full collision check (plain file, .gz, .restart siblings), whatever a killed run left behind."
               " R11.7 (shared with R08.5): a restart with append seeds current_size from the length of the existing file for both size-bearing criteria.")
ASSUMPTIONS = ["write(2) of a completed write_all survives a process kill (page cache)", "rename(2) is atomic"]
NOT_DECIDED = ["every quantification over crash points and the directory states they leave", "torn last line", "restart succeeding from a half-written .gz",
               "interaction with cleanup limits"]
FLOORS = {'R11.1': 3, 'R11.2': 2, 'R11.3': 3, 'R11.4': 1}


def run(R, ctx):
    f, cg = ctx.f, ctx.cg
    R.rule('R11.1', 'TABLE(direct mode => unbuffered File)')
    R.rule('R11.2', 'emission synchronous: no send/spawn on the sync record path; sink table')
    R.rule('R11.3', 'ORDER of multi-step file-system changes; NotFound tolerated; symlink failures not propagated')
    R.rule('R11.4', 'WHO: effects reachable from initialisation')
    # R11.1
    b = ctx.body(r'^write_mode::WriteMode::buffersize$')
    rows = FDI(f).run(b.path)
    got = {r.get('variant(self)'): repr(r.result) for r in rows}
    for v in ('Direct', 'SupportCapture'):
        R.check('R11.1', f"WriteMode::{v}.buffersize", got.get(v) == 'Option::None', "None", f"WriteMode::{v}.buffersize() = {got.get(v)}: direct mode would write through a user-space buffer "
                "and a kill loses acknowledged records", where=b.loc())
    ob = ctx.body(r'^writers::file_log_writer::state::open_log_file$')
    EFF = [r'BufWriter::<W>::with_capacity$', r'WriteMode::buffersize$', r'^std::fs::OpenOptions::open$', r'BufWriter::<W>::new$']
    I = FDI(f, effects=EFF, no_inline=[r'WriteMode::buffersize$', r'FileSpec::as_pathbuf$', r'create_symlink_if_possible$'])
    bad = None
    n = 0
    for r in I.run(ob.path):
        if r.undecided:
            bad = 'UNDECIDED ' + r.undecided
            break
        bs = next((v for a, v in r.cond if a.startswith('variant(') and 'buffersize#' in a), None)
        if bs is None:
            continue
        wrapped = any('BufWriter' in e[0] for e in r.effects)
        if wrapped != (bs == 'Some'):
            bad = f"buffersize() = {bs} but BufWriter used: {wrapped}"
        if wrapped and 'buffersize#' not in r.long([e for e in r.effects if 'BufWriter' in e[0]][0][1][0]):
            bad = "the BufWriter capacity is not the configured one"
        n += 1
    R.check('R11.1', f"{ob.path}|bufwriter-iff-buffersize", not bad and n >= 2, "BufWriter iff buffersize() is Some", f"open_log_file: {bad}", where=ob.loc())
    # every other place that mounts a log-file writer (reopen_output after an external rename, today unbuffered in every mode): a BufWriter around
    # the file only on paths on which buffersize() was found to be Some - never a default capacity for the unbuffered modes
    rb = ctx.body(r'^writers::file_log_writer::state::State::reopen_outputfile$')
    I2 = FDI(f, effects=EFF, no_inline=[r'WriteMode::buffersize$', r'FileSpec::as_pathbuf$', r'create_symlink_if_possible$'])
    bad = None
    n = 0
    for r in I2.run(rb.path):
        if r.undecided:
            raise CheckError(f"R11.1 {rb.path}: UNDECIDED {r.undecided}")
        n += 1
        if any('BufWriter' in e[0] for e in r.effects):
            bs = [v for a, v in r.cond if a.startswith('variant(') and 'buffersize#' in a]
            if not bs or 'Some' not in bs or 'None' in bs:
                bad = f"the re-opened file is wrapped in a BufWriter on a path on which buffersize() is {bs or 'not examined'}"
    R.check('R11.1', f"{rb.path}|bufwriter-only-if-buffersize", not bad and n >= 2, f"{n} rows: no BufWriter unless buffersize() is Some",
            f"reopen_outputfile: {bad}: in direct mode records acknowledged after reopen_output() sit in a user-space buffer and are lost by a kill", where=rb.loc())
    # ... and there is no third place: every BufWriter<File> of the file writer is constructed in (a helper of) one of the two
    roots = {ob.path, rb.path}
    for x in f.fn_bodies():
        if not x.file.startswith('src/writers/file_log_writer'):
            continue
        for bb, t in x.calls():
            if re.search(r'BufWriter::<W>::(new|with_capacity)$', callee_name(t)) and 'std::fs::File' in ' '.join(t['callee'].get('targs') or []):
                rt = root_fn(x.path)
                R.check('R11.1', f"{rt}|bufwriter-site", rt in roots or only_called_from(cg, rt, roots), "BufWriter<File> constructed by open_log_file / reopen_outputfile (or a private helper of them)",
                        f"{x.path} wraps a log file in a BufWriter outside the functions whose write-mode table is decided: direct mode may be buffered", where=x.loc(bb))
    # R11.2
    # the synchronous record path = every path through a format-calling body of the file writer that hands the record to
    # State::write_buffer: on such a path nothing is sent to a channel and no thread is spawned (path rows, so that the
    # async arm may live in the same body), and write_buffer itself defers nothing except the (stopped) cleanup
    STOPS = {'writers::file_log_writer::state::list_and_cleanup::remove_or_compress_too_old_logfiles',
             'writers::file_log_writer::state::list_and_cleanup::start_cleanup_thread'}
    EFF2 = [c01.FMT, r'State::write_buffer$', r'Sender::<T>::(send|try_send)$', r'^std::thread::Builder::spawn$|^std::thread::spawn$']
    nsync = 0
    for eb in c01.emission_bodies(ctx):
        rows = FDI(f, effects=EFF2, no_inline=[r'State::write_buffer$', r'util::eprint_err$', r'pop_buffer$']).run(eb.path)
        bad = None
        for r in rows:
            if r.undecided:
                raise CheckError(f"R11.2 {eb.path}: UNDECIDED {r.undecided}")
            names = [e[0].split('::')[-1] for e in r.effects]
            if 'write_buffer' in names:
                nsync += 1
                if any(n_ in ('send', 'try_send', 'spawn') for n_ in names):
                    bad = f"a path both writes synchronously and defers work ({names})"
        R.check('R11.2', f"{root_fn(eb.path)}|no-deferred-work", not bad, "no channel send / thread spawn on a path that writes synchronously",
                f"the synchronous record path defers work ({bad}): the record is not in the file when log() returns", where=eb.loc())
    if nsync < 2:
        raise CheckError('sync record path not found')
    wb = ctx.body(r'^writers::file_log_writer::state::State::write_buffer$')
    # (a request sent to the cleanup thread is not deferred record work, whatever helper sends it)
    hits = cg.reaches_effect(wb.path, lambda n_, t: effect_class(n_) in ('CHAN_SEND', 'SPAWN') and
                             'MessageToCleanupThread' not in ' '.join(t['callee'].get('targs') or []) + (t['callee'].get('self_ty') or ''), stop=STOPS)
    R.check('R11.2', f"{wb.path}|no-deferred-work", not hits, "write_buffer sends nothing and spawns nothing (cleanup thread apart)",
            f"State::write_buffer defers work ({hits[:2]}): the record is not in the file when log() returns", where=wb.loc())
    c01.sink_table(R, ctx, 'R11.2')
    # R11.3
    c01.order_rules(_To(R, 'R11.3'), ctx)
    if ctx.has('compress'):
        c07.classification(_Only(R, 'R11.3', want=('R07.2',)), ctx)
    c01.index_table(_To(R, 'R11.3'), ctx)
    sb = ctx.body(r'^writers::file_log_writer::state::platform::unix_create_symlink$')
    ret_unit = (sb.sig or '').rstrip().endswith('-> ()') or '->' not in (sb.sig or '')
    from errors import ErrorDiscipline
    ed = ErrorDiscipline(f, cg)
    cls = [ed.classify_local(sb, t['dest']['l']) for bb, t in sb.calls() if effect_class(callee_name(t)) in ('FS_REMOVE', 'FS_SYMLINK')]
    R.check('R11.3', f"{sb.path}|failures-reported-not-propagated", ret_unit and cls and all('handle' in c or 'report' in c for c in cls) and not any('propagate' in c or 'panic' in c for c in cls),
            "remove/create of the link: failures inspected and reported, the function returns ()", "a failing symlink replacement is propagated (would abort the rotation) or unobserved", where=sb.loc())
    # a kill between the replacement of the link and the creation of the file it points to leaves a DANGLING link: the probe that decides
    # whether an old link has to be removed must not follow the link (symlink_metadata / is_symlink / read_link), otherwise the left-over
    # link is taken for absent, symlink() fails with EEXIST at the restart and the link keeps pointing to a file that does not exist
    scope = [sb] + [f.bodies[x] for x in cg.reachable([sb.path], spawn=False) if x in f.bodies and x != sb.path and
                    (x.startswith(sb.path + '::{closure') or only_called_from(cg, root_fn(x), {sb.path}))]
    probes = [(x.path, callee_name(t)) for x in scope for _, t in x.calls()
              if re.search(r'^std::(fs::(symlink_metadata|metadata|read_link|exists)|path::Path::(exists|try_exists|metadata|symlink_metadata|is_symlink|is_file|is_dir|read_link))$', callee_name(t))]
    nofollow = [p_ for p_ in probes if re.search(r'symlink_metadata$|is_symlink$|read_link$', p_[1])]
    follow = [p_ for p_ in probes if p_ not in nofollow]
    removes = [1 for x in scope for _, t in x.calls() if effect_class(callee_name(t)) == 'FS_REMOVE']
    if removes and probes:
        R.check('R11.3', f"{sb.path}|left-over-link-detected-without-following-it", bool(nofollow) and not follow,
                f"old link probed with {sorted({p_[1] for p_ in nofollow})}",
                f"the old link is probed with {sorted({p_[1] for p_ in follow})}, which follows the link: a dangling link (left by a kill between the link replacement and "
                "the creation of the file) is taken for absent, is not removed, and the symlink() that follows fails with EEXIST - the restart reports an error and the link "
                "keeps pointing to a file that does not exist", where=sb.loc())
    # R11.4
    ib = ctx.body(r'^writers::file_log_writer::state::State::initialize$')
    reads = cg.reaches_effect(ib.path, lambda n_, t: effect_class(n_) == 'FS_OPEN_R' or re.search(r'read_to_string$|read_to_end$|BufRead::read_line$|^std::fs::read(_to_string)?$', n_) is not None,
                              stop={'writers::file_log_writer::state::list_and_cleanup::remove_or_compress_too_old_logfiles_impl', 'writers::file_log_writer::state::list_and_cleanup::start_cleanup_thread'})
    eff = sorted({effect_class(n_) for (p_, bb, n_) in cg.reaches_effect(ib.path, lambda n_, t: effect_class(n_) is not None and effect_class(n_).startswith('FS_'))})
    R.check('R11.4', f"{ib.path}|no-file-is-read", not reads, f"file-system effects of initialisation: {eff}",
            f"start-up reads file contents ({reads[:2]}): its state would depend on something a kill can leave half-written", where=ib.loc(), sample={'fs_effect_classes': eff})
    # restart: the left-over current file of the previous process is found under the name this naming writes to and rotated (or
    # continued) - never truncated by the open that follows (start table shared with C06 R06.3/R06.5)
    R.rule('R11.5', 'start table: the previous current file is rotated or continued, not truncated (shared with R06.3)')
    import c06 as _c06
    _c06.start_table(Relabel(R, {'R06.3': 'R11.5', 'R06.5': 'R11.5'}), ctx)
    # a kill inside a cleanup pass leaves a directory an orderly shutdown never produces (a .gz with a higher number than every plain file): the start
    # index must be the maximum over ALL listed files, not the first hit of a listing that is only sorted part by part
    _c06.highest_is_maximum(R, ctx, ctx.body(r'^writers::file_log_writer::state::numbers::get_highest_index$'), rule='R11.5')
    # a restart after a kill finds whatever the killed run and its cleanup left behind (base file gone, .restart siblings or a .gz left): every timestamp
    # name opened at start or by a rotation passes the FULL collision check (plain, .gz, restart siblings) - table and provenance shared with R01.6 / R06.4
    # `restarts cleanly ... with all other guarantees intact`: after a kill the restarted logger continues the current file (append) and must count the bytes
    # the killed process left in it, for every size-bearing criterion (table of RollState::new shared with R08.5)
    R.rule('R11.7', 'a restart with append seeds the size counter from the existing file for Size and AgeOrSize (shared with R08.5)')
    import c08 as _c08n
    _c08n.new_table(Relabel(R, {'R08.5': 'R11.7'}), ctx)
    R.rule('R11.6', 'restart / rotation: every timestamp name that is opened passed the full collision check (shared with R01.6/R06.4)')
    import c01 as _c01c
    _c01c.collision_rules(Relabel(R, {'R01.6': 'R11.6'}), ctx)
    _c06.collision_table(Relabel(R, {'R06.4': 'R11.6'}), ctx)

class _To:
    def __init__(self, R, to):
        self.R, self.to = R, to

    def check(self, rule, *a, **kw):
        return self.R.check(self.to, *a, **kw)

    def bad(self, rule, *a, **kw):
        return self.R.bad(self.to, *a, **kw)

    def ok(self, rule, *a, **kw):
        return self.R.ok(self.to, *a, **kw)


class _Only(_To):
    """forward only the obligations of the wanted source rules (others are another property's business)"""

    def __init__(self, R, to, want):
        super().__init__(R, to)
        self.want = want
        self.stats = R.stats
        self.known = {}

    def check(self, rule, *a, **kw):
        if rule in self.want:
            return self.R.check(self.to, *a, **kw)
        return a[1] if len(a) > 1 else True

    def bad(self, rule, *a, **kw):
        if rule in self.want:
            return self.R.bad(self.to, *a, **kw)

    def ok(self, rule, *a, **kw):
        if rule in self.want:
            return self.R.ok(self.to, *a, **kw)
