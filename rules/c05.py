"""C05 — run-time specification changes take full effect; push/pop is an exact stack."""
from rulelib import *
from report import CheckError
import table as T
from fdi import FDI, Const, Agg, Sym, Ref
from locks import guard_classes

EXPLANATION = ("Decides the structural premises of the reconfiguration API: R05.1 no state change (stack push/pop, specification "
               "store) before the fallible parse succeeded; R05.2 push saves a clone of the active specification and then "
               "activates the new one, pop re-activates exactly the popped value and is a no-op on an empty stack; R05.3 "
               "update_from copies every field of the specification unconditionally; R05.4 single writer of the "
               "specification lock and closed set of writers of the stack; R05.5 every reconfiguration entry reaches the store "
               "on every non-error path. R05.2 is decided on decision rows (private accessors inlined); a pop that stores without examining whether the stack was empty is a deviation."
               " R05.6 (shared routing table of R13.1/R02.3): log() decides from the specification it reads at that call (level and text filter) and from no remembered state."
               " R05.8 (shared with R12.1-R12.4, R12.6): the active specification and log's global max level are replaced in one critical section, so a change that has returned has taken full effect at the facade too, whatever other changes overlap.")
ASSUMPTIONS = ["Vec::push/pop are LIFO (std)", "filtering itself is C02's subject"]
NOT_DECIDED = ["nothing essential of the stated property is behavioural beyond C02's matcher semantics"]
FLOORS = {'R05.1': 2, 'R05.2': 3, 'R05.3': 1, 'R05.4': 2, 'R05.5': 5}

VEC_MUT = r"^std::vec::Vec::<T(, A)?>::(push|pop|clear|truncate|insert|remove|swap_remove|drain|append|extend_from_slice|retain|dedup|split_off|resize)$|as std::iter::Extend<.*>>::extend$"
STORE = lambda n, t: n == 'std::sync::RwLock::<T>::write' and 'LogSpecification' in t['dest_ty']
API = ['set_new_spec', 'parse_new_spec', 'push_temp_spec', 'parse_and_push_temp_spec', 'pop_temp_spec']


def stack_mutations(ctx, b):
    p = ctx.ip.prov(b.path)
    out = []
    for bb, t in calls_named(b, VEC_MUT):
        chains = receiver_field_chain(b, p, t, 0)
        if any('spec_stack' in c for c in chains):
            out.append((bb, t))
    return out


def run(R, ctx):
    f, cg = ctx.f, ctx.cg
    R.rule('R05.1', 'GUARDED-EFFECT(stack mutation / specification store, Ok edge of LogSpecification::parse)')
    R.rule('R05.2', 'stack discipline: push saves clone of active spec then activates; pop activates the popped value only')
    R.rule('R05.3', 'FIELD-COMPLETENESS(LogSpecification::update_from)')
    R.rule('R05.4', 'WHO-MAY-CALL(spec RwLock::write), WHO-MAY-WRITE(spec_stack)')
    R.rule('R05.5', 'MUST-REACH(specification store) on every non-error path of each reconfiguration entry')

    handle = {m: ctx.body(rf'^logger_handle::LoggerHandle::{m}$') for m in API}
    # `filtering follows exactly the specification that is then active`: log() decides from the specification it reads under the lock at that call
    # - level AND text filter - and from nothing remembered from an earlier specification (routing table shared with R13.1 / R02.3)
    R.rule('R05.6', 'log() decides from the specification read at the call only: no condition outside the documented routing (shared with R02.3)')
    import c13 as _c13
    _c13.routing(Relabel(R, {'R13.1': 'R05.6'}), ctx)
    # `take full effect`: after a change has returned, what the facade lets through (log::max_level) belongs to the specification that is active - the
    # two are replaced in ONE critical section, also when calls on cloned handles or the specfile watcher overlap (shared with R12.1-R12.4, R12.6)
    R.rule('R05.8', 'specification and global max level are replaced together under the specification write lock (shared with R12.1-R12.4)')
    import c12 as _c12
    _c12.run(Relabel(R, {'R12.1': 'R05.8', 'R12.2': 'R05.8', 'R12.3': 'R05.8', 'R12.4': 'R05.8', 'R12.5': 'R05.3', 'R12.6': 'R05.8'}), ctx)

    # R05.1 -----------------------------------------------------------------------------------
    # decision rows of every handle function that parses a specification string: on a row where parse() returned Err
    # there is no mutation of the stack and no store of a specification - before or after the parse, in the body, in a
    # combinator closure (`parse(s).map(|spec| self.set_new_spec(spec))`) or in a helper
    PARSE = r'^log_specification::LogSpecification::parse$'
    nparse = 0
    for b in f.fn_bodies():
        if b.kind == 'Closure' or not b.path.startswith('logger_handle::') or not any(re.search(PARSE, callee_name(t)) for (_, _, t) in calls_with_closures(f, b)):
            continue
        EFF = [PARSE, VEC_MUT, r'^std::sync::RwLock::<T>::write$', r'^log::set_max_level$']
        rows = FDI(f, effects=EFF, no_inline=[PARSE, r'max_level_with_writers$', r'util::eprint_err$'], max_steps=20000).run(b.path)
        bad = {}
        n_err = n_ok = 0
        for r in rows:
            if r.undecided:
                raise CheckError(f"R05.1 {b.path}: UNDECIDED {r.undecided}")
            pi = [i for i, e in enumerate(r.effects) if re.search(PARSE, e[0])]
            if not pi:
                continue
            res = next((v for a, v in r.cond if a == f"variant({r.effects[pi[0]][0]}#{pi[0] + 1})"), None)
            if res == 'Ok':
                n_ok += 1
            if res != 'Err':
                continue
            n_err += 1
            for i, e in enumerate(r.effects):
                nm = e[0].split('::')[-1]
                if i in pi:
                    continue
                if re.search(VEC_MUT, e[0]) and 'spec_stack' in r.long(e[1][0]):
                    bad[f"stack:{nm}"] = f"the stack is changed ({nm}, L{e[2]['line']}) " + ('before' if i < pi[0] else 'after') + " a parse that fails"
                elif nm == 'write' and 'LogSpecification' in repr(e[2]['x']) + r.long(e[1][0]) or nm == 'set_max_level':
                    bad[f"store:{nm}"] = f"a specification is stored / the gate is set ({nm}) although parse failed"
        if n_err < 1 or n_ok < 1:
            raise CheckError(f"R05.1 {b.path}: parse outcome not found on the rows (ok {n_ok}, err {n_err})")
        nparse += 1
        R.check('R05.1', f"{b.path}|rejected-string-changes-nothing", not bad, f"{n_err} rows with a failing parse: no stack mutation, no store",
                f"{b.path}: {next(iter(bad.values()), '')}: a rejected specification string still changes the state "
                "(one pop would then re-activate the wrong specification)", where=b.loc(), sample={'rows': len(rows), 'err_rows': n_err})
        R.ok('R05.1', f"{b.path}|rows", f"{len(rows)} rows", nontrivial=False)
    if nparse < 2:
        raise CheckError(f"only {nparse} handle functions parsing a specification found")

    # R05.2 -----------------------------------------------------------------------------------
    # decision rows of the three stack operations (private accessors around the lock / the stack are inlined)
    READ, UPD, PARSE = r'^std::sync::RwLock::<T>::read$', r'LogSpecification::update_from$', r'^log_specification::LogSpecification::parse$'
    EFF2 = [VEC_MUT, READ, UPD, PARSE, r'^std::sync::RwLock::<T>::write$']
    NI2 = [PARSE, UPD, r'max_level_with_writers$', r'util::eprint_err$']

    def stack_effs(r):
        return [(i, e) for i, e in enumerate(r.effects) if re.search(VEC_MUT, e[0]) and 'spec_stack' in r.long(e[1][0])]
    for m in ('push_temp_spec', 'parse_and_push_temp_spec'):
        b = handle[m]
        rows = FDI(f, effects=EFF2, no_inline=NI2, max_steps=20000).run(b.path, arg_names=['self', 'new_spec'])
        bad = {}
        n = 0
        for r in rows:
            if r.undecided:
                raise CheckError(f"R05.2 {b.path}: UNDECIDED {r.undecided}")
            if isinstance(r.result, Agg) and r.result.variant == 'Err':
                continue
            if any(v == 'Err' and re.match(r'^variant\(std::sync::RwLock::<T>::(read|write)#', a) for a, v in r.cond):
                continue            # poisoned specification lock: reported / panics; poisoning itself is excluded by C10 R10.2
            se = stack_effs(r)
            upd = [(i, e) for i, e in enumerate(r.effects) if re.search(UPD, e[0])]
            if not se and not upd:
                continue            # a path that ended before doing anything (e.g. the poisoned-lock panic path is cut)
            n += 1
            if len(se) != 1 or not se[0][1][0].endswith('::push'):
                bad['one-push'] = f"{[e[0].split('::')[-1] for _, e in se]} instead of exactly one push on a successful path"
                continue
            pi, pe = se[0]
            px = pe[2]['x'][1]
            if not T.eff_indices(px, READ) or 'new_spec' in T.inputs_in(px) or T.eff_indices(px, PARSE):
                bad['push-saves-active'] = "the pushed value is not (only) a clone of the currently active specification"
            if len(upd) != 1 or upd[0][0] < pi:
                bad['activate-after-push'] = "a successful path after the push does not activate the new specification (or activates it before saving the old one)"
            else:
                ux = upd[0][1][2]['x'][1]
                okn = ('new_spec' in T.inputs_in(ux) and not T.eff_indices(ux, READ)) if m == 'push_temp_spec' else (bool(T.eff_indices(ux, PARSE)) and not T.eff_indices(ux, READ))
                if not okn:
                    bad['activate-after-push'] = "the specification activated after the push is not the new one"
        if n < 1 and not bad:
            raise CheckError(f"R05.2 {b.path}: no successful row with a stack operation found")
        for key, okt in (('one-push', "exactly one push and no other mutation of the stack"), ('push-saves-active', "pushed value = clone of the specification read from the spec lock"),
                         ('activate-after-push', "every successful path after the push activates the new specification")):
            R.check('R05.2', f"{b.path}|{key}", key not in bad, okt, f"{b.path}: {bad.get(key)}", where=b.loc(), sample={'rows': n})
    b = handle['pop_temp_spec']
    rows = FDI(f, effects=EFF2, no_inline=NI2, max_steps=20000).run(b.path, arg_names=['self'])
    bad = {}
    kinds = set()
    for r in rows:
        if r.undecided:
            raise CheckError(f"R05.2 {b.path}: UNDECIDED {r.undecided}")
        se = stack_effs(r)
        upd = [(i, e) for i, e in enumerate(r.effects) if re.search(UPD, e[0])]
        wr = [e for e in r.effects if e[0].endswith('RwLock::<T>::write')]
        if len(se) != 1 or not se[0][1][0].endswith('::pop'):
            bad['one-pop'] = f"{[e[0].split('::')[-1] for _, e in se]} instead of exactly one pop"
            continue
        k = se[0][0] + 1
        res = r.get(f"variant({se[0][1][0]}#{k})")
        kinds.add(res)
        if res is None and (upd or wr):
            bad['activate-popped'] = "a specification is stored without examining whether the stack was empty (e.g. pop().unwrap_or_default()): a surplus pop " \
                                     "replaces the active specification (by the default: logging off) instead of being a no-op"
        if res == 'None' and (upd or wr):
            bad['activate-popped'] = "pop on an empty stack still stores a specification"
        if res == 'Some' and wr and any(v == 'Ok' for a, v in r.cond if a.startswith('variant(std::sync::RwLock::<T>::write#')):
            ux = upd[0][1][2]['x'][1] if upd else None
            if ux is None or T.eff_indices(ux, r'::pop$') != {k} or T.eff_indices(ux, READ):
                bad['activate-popped'] = "the specification activated is not the popped one"
    if not bad and kinds != {'Some', 'None'}:
        raise CheckError(f"R05.2 {b.path}: pop outcome not recognised on the rows ({kinds})")
    R.check('R05.2', f"{b.path}|one-pop", 'one-pop' not in bad, "exactly one pop", f"{b.path}: {bad.get('one-pop')}", where=b.loc())
    R.check('R05.2', f"{b.path}|activate-popped", 'activate-popped' not in bad, "the activated specification is the popped value, only on the Some edge",
            f"pop_temp_spec: {bad.get('activate-popped')}", where=b.loc())

    # R05.3 -----------------------------------------------------------------------------------
    b = ctx.body(r'^log_specification::LogSpecification::update_from$')
    adt = f.adts['log_specification::LogSpecification']
    fields = [fd['name'] for fd in adt['variants'][0]['fields']]
    whole = False
    assigned = {}
    for bb in sorted(b.normal_blocks()):
        for s in b.blocks[bb]['stmts']:
            if s['k'] != 'assign':
                continue
            pl = s['place']
            if pl['l'] == 1 and pl['p'] and pl['p'][0]['k'] == 'deref':
                fl = place_fields(pl)
                rv = s['rv']
                src = rv['op']['place'] if rv['k'] == 'use' and rv['op']['k'] in ('move', 'copy') else None
                if not fl and src is not None and src['l'] == 2 and not src['p']:
                    whole = True
                elif len(fl) == 1 and src is not None:
                    sf = place_fields(src)
                    # source may be a temp moved out of _2.<field>
                    srcl = src['l']
                    same = (srcl == 2 and sf == fl)
                    if not same:
                        fps = ctx.ip.prov(b.path).field_paths(srcl)
                        same = ('param2', fl[0]) in fps
                    assigned.setdefault(fl[0], []).append((bb, same))
    for fd in fields:
        if whole:
            R.ok('R05.3', f"field:{fd}", 'whole-struct assignment from the argument')
            continue
        sites = assigned.get(fd, [])
        uncond = any(must_pass(b, [bb]) for bb, same in sites if same)
        R.check('R05.3', f"field:{fd}", uncond,
                f"self.{fd} = other.{fd} on every path",
                f"update_from does not unconditionally copy field `{fd}` from its argument: "
                + ("no assignment at all" if not sites else "assignment is conditional or takes another source")
                + " (a later specification would keep the old value)", where=b.loc(),
                sample={'field': fd, 'assign_blocks': [x[0] for x in sites]})

    # R05.4 -----------------------------------------------------------------------------------
    writers = sorted({p_ for p_, es in cg.ext.items() for (n, bb, t) in es if STORE(n, t)})
    for w in writers:
        R.check('R05.4', f"spec-writer:{root_fn(w)}", only_called_from(cg, root_fn(w), {'logger_handle::WritersHandle::set_new_spec'}),
                "the only function taking the specification write lock", f"unexpected writer of RwLock<LogSpecification>: {w}", where=f.bodies[w].loc())
    allowed = {handle[m].path for m in ('push_temp_spec', 'parse_and_push_temp_spec', 'pop_temp_spec')}
    for b2 in f.fn_bodies():
        if stack_mutations(ctx, b2):
            R.check('R05.4', f"stack-writer:{root_fn(b2.path)}", only_called_from(cg, root_fn(b2.path), allowed), "expected writer of spec_stack (or a private helper of one)",
                    f"unexpected function mutating spec_stack: {b2.path}", where=b2.loc())
    for (b2, bb, s) in field_store_sites(f, 'spec_stack'):
        R.bad('R05.4', f"stack-store:{b2.path}", f"spec_stack is overwritten by assignment in {b2.path}", where=b2.loc(bb))

    # R05.5 -----------------------------------------------------------------------------------
    for m in API:
        b = handle[m]
        stores = [s[0] for s in cg.call_sites_reaching(b, STORE)]
        if m == 'pop_temp_spec':
            ok = bool(stores)
        else:
            ok = bool(stores) and must_pass(b, stores, avoid=try_break_blocks(b))
        R.check('R05.5', f"{b.path}|reaches-store", ok,
                "every non-error path reaches the specification store",
                f"{m} has a non-error path that returns without storing the specification", where=b.loc())
    # WritersHandle::set_new_spec: after taking the lock, update_from on every path
    b = ctx.body(r'^logger_handle::WritersHandle::set_new_spec$')
    upd = [bb for bb, t in calls_named(b, r'LogSpecification::update_from$')]
    R.check('R05.5', f"{b.path}|update_from", bool(upd) and must_pass(b, upd, avoid=try_break_blocks(b)),
            "update_from on every non-error path", "WritersHandle::set_new_spec can return Ok without update_from", where=b.loc())
