"""Configuration wiring (shared rule, used under their own rule ids by C06 C07 C08 C09 C13 C15 C16 C20): what the user configures with a builder
method arrives - unchanged and in the slot documented for it - at the place the file writer reads it from.  Chain decided, hop by hop, on decision rows
(abstract interpretation, all inputs):

  A  FileLogWriterBuilder::try_build_state : every field of FileLogWriterConfig, the rotation configuration and the background-cleanup flag handed to
     State::new is a plain copy of ONE builder field, the same on every row (the flag: `false` only on rows of an asynchronous write mode).
  B  every public setter of FileLogWriterBuilder named in the documented table below changes exactly the builder field(s) behind its slot(s), to the
     documented value (`true`, the parameter itself, Some(parameter.into()), the Windows line ending, RotationConfig{criterion,naming,cleanup} by type).
  C  every Logger method that configures the file writer has the same effect on `flwb` as the FileLogWriterBuilder method it documents to mirror
     (semantic comparison of the rows, not of names); Logger::write_mode stores without_flushing(mode) and keeps get_flush_interval(mode);
     the log_to_* methods select the documented LogTarget.
  D  Logger::build: the file writer is built from `self.flwb` with format(self.format_for_file) and - iff use_utc was requested - use_utc(); a
     successful build with use_utc has forced UTC for the record timestamps as well; the additional writer gets format_for_writer.
  E  try_build / try_build_with_handle hand the fields written by max_level() and format() to FileLogWriter::new, which stores them; the writer's
     max_log_level() returns the stored ceiling.

The slots are public API (accessors of FileLogWriterConfig, parameters of State::new by type); private builder field names are discovered by hop A.
An unrecognised form is a CHECK-ERROR, only a definite mismatch a VIOLATION."""
from rulelib import *
from report import CheckError
from fdi import FDI, Agg

FLWB = 'writers::file_log_writer::builder::FileLogWriterBuilder'
CRLF = "b'\\r\\n'"

# documented effect of the builder methods (rustdoc of FileLogWriterBuilder / Logger), keyed by the END-TO-END slot
#   slot: cfg:<FileLogWriterConfig field> | rot | bg | flw:level | flw:format
#   value: 'true' | ('param', i) | ('some-into', i) | ('opt-into', i) | 'crlf' | 'rotation' | 'o_rotation' | 'filespec-utc' | 'filespec-ts' | ('filespec', i)
SETTERS = {
    'print_message': {'cfg:print_message': 'true'},
    'o_print_message': {'cfg:print_message': ('param', 0)},
    'append': {'cfg:append': 'true'},
    'o_append': {'cfg:append': ('param', 0)},
    'use_windows_line_ending': {'cfg:line_ending': 'crlf'},
    'write_mode': {'cfg:write_mode': ('param', 0)},
    'create_symlink': {'cfg:o_create_symlink': ('some-into', 0)},
    'o_create_symlink': {'cfg:o_create_symlink': ('opt-into', 0)},
    'use_utc': {'cfg:use_utc': 'true', 'cfg:file_spec': 'filespec-utc'},
    'cleanup_in_background_thread': {'bg': ('param', 0)},
    'rotate': {'rot': 'rotation', 'cfg:file_spec': 'filespec-ts'},
    'o_rotate': {'rot': 'o_rotation', 'cfg:file_spec': 'filespec-ts'},
    'format': {'flw:format': ('param', 0)},
    'max_level': {'flw:level': ('param', 0)},
    'file_spec': {'cfg:file_spec': ('filespec', 0), 'rot': 'same'},
}
# which slots matter to which property (a property checks the setters touching its slots, and the hops those slots travel)
SLOTS = {
    'C06': {'cfg:append'},
    'C07': {'rot', 'bg'},
    'C08': {'rot'},
    'C09': {'rot'},
    'C13': {'flw:level', 'target'},
    'C15': {'cfg:write_mode'},
    'C16': {'cfg:file_spec', 'cfg:o_create_symlink', 'cfg:use_utc', 'rot'},
    'C20': {'cfg:line_ending', 'flw:format'},
}
# Logger method -> FileLogWriterBuilder method it mirrors (default: the same name)
DELEGATE = {'log_to_file': 'file_spec', 'log_to_file_and_writer': 'file_spec'}
TARGETS = {
    'log_to_file': r'^LogTarget::Multi\(True, Option::None\)$',
    'log_to_file_and_writer': r'^LogTarget::Multi\(True, Option::Some\(\$?P1\)\)$',
    'log_to_writer': r'^LogTarget::Multi\(False, Option::Some\(\$?P0\)\)$',
    'do_not_log': r'^LogTarget::Multi\(False, Option::None\)$',
    'log_to_stderr': r'^LogTarget::StdErr$',
    'log_to_stdout': r'^LogTarget::StdOut$',
    'log_to_buffer': r'^LogTarget::Multi\(False, Option::Some\(.*BufferWriter::BufferWriter\(.*\)\)\)$',
}


def _plain(s):
    return re.sub(r'[&$*]', '', s)


def _copy_of(s):
    """`self.f`, `clone(self.f)` -> f"""
    s = _plain(s)
    m = re.match(r'^(?:<[^>]+ as std::clone::Clone>::clone\(|std::clone::Clone::clone\()?self\.(\w+)\)?$', s)
    return m.group(1) if m else None


def _struct_fields(f, ty):
    t = f.adts.get(ty)
    if not t or len(t['variants']) != 1:
        raise CheckError(f"wiring: struct {ty} not found")
    return [(x['name'], x['ty']) for x in t['variants'][0]['fields']]


def _params(b):
    return [(b.locals[i].get('name'), b.locals[i]['ty']) for i in range(2, b.arg_count + 1)]


def hop_a(R, ctx, rule, slots):
    """try_build_state: slot -> builder field"""
    f = ctx.f
    NEW = r'file_log_writer::state::State::new$'
    nb = ctx.body(NEW)
    b = state_builder(ctx, rule)
    I = FDI(f, effects=[NEW], no_inline=[NEW])
    cfgf = [n for n, _t in _struct_fields(f, 'writers::file_log_writer::config::FileLogWriterConfig')]
    ptys = [nb.locals[i]['ty'] for i in range(1, nb.arg_count + 1)]
    try:
        i_cfg = next(i for i, t in enumerate(ptys) if t.endswith('FileLogWriterConfig'))
        i_rot = next(i for i, t in enumerate(ptys) if 'RotationConfig' in t)
        i_bg = next(i for i, t in enumerate(ptys) if t == 'bool')
    except StopIteration:
        raise CheckError(f"{rule}: parameters of State::new not recognised ({ptys})")
    slot2bf = {}
    bad = None
    nrows = 0
    for r in I.run(b.path):
        if r.undecided:
            raise CheckError(f"{rule}: try_build_state undecided: {r.undecided}")
        effs = [e for e in r.effects if re.search(NEW, e[0])]
        if not effs:
            continue
        if len(effs) != 1:
            raise CheckError(f"{rule}: {len(effs)} State::new calls on one row of try_build_state")
        nrows += 1
        e = effs[0]
        m = re.match(r'^FileLogWriterConfig::FileLogWriterConfig\((.*)\)$', e[1][i_cfg])
        if not m:
            raise CheckError(f"{rule}: configuration handed to State::new not recognised ({e[1][i_cfg][:80]})")
        parts = _split_top(m.group(1))
        if len(parts) != len(cfgf):
            raise CheckError(f"{rule}: configuration aggregate has {len(parts)} fields, struct has {len(cfgf)}")
        row = {('cfg:' + n): p for n, p in zip(cfgf, parts)}
        row['rot'] = e[1][i_rot]
        row['bg'] = e[1][i_bg]
        asyn = any(a.startswith('variant(') and 'write_mode' in a and str(v).startswith('Async') for a, v in r.cond)
        for slot, val in row.items():
            if slot == 'bg' and val == 'False':
                if not asyn:
                    bad = f"the background-cleanup flag is the constant false on a row of a synchronous write mode"
                continue
            bf = _copy_of(val)
            if bf is None:
                bad = f"slot `{slot}` of the writer's configuration is `{val[:60]}`, not a copy of a builder field"
                continue
            if slot2bf.setdefault(slot, bf) != bf:
                bad = f"slot `{slot}` is taken from builder field `{bf}` on one path and `{slot2bf[slot]}` on another"
    if nrows < 1:
        raise CheckError(f"{rule}: State::new not reached on the rows of try_build_state")
    inv = {}
    for s, bf in slot2bf.items():
        inv.setdefault(bf, []).append(s)
    dup = {bf: ss for bf, ss in inv.items() if len(ss) > 1}
    if dup and not bad:
        bf, ss = sorted(dup.items())[0]
        bad = f"builder field `{bf}` feeds the slots {sorted(ss)}: one of them does not receive what was configured for it"
    rel = sorted(s for s in slot2bf if s in slots or not slots)
    R.check(rule, f"{b.path}|config-from-builder-fields", not bad, f"{nrows} rows; slots {rel} each copied from their own builder field",
            f"{bad}: a setting made on the builder does not reach the file writer", where=b.loc())
    return slot2bf


def state_builder(ctx, rule='wiring'):
    """the builder method that hands the configuration to State::new: discovered by that effect (its name is private), helpers it calls are inlined"""
    f = ctx.f
    c = []
    for b in f.fn_bodies():
        if b.kind == 'Closure' or not b.path.startswith(FLWB + '::'):
            continue
        if any(callee_name(t).endswith('file_log_writer::state::State::new') for _bb, t in b.calls()):
            c.append(b)
    if len(c) != 1:
        # a private helper assembles the state: take the method(s) that reach it and are reached from try_build
        tb = ctx.opt_body(r'FileLogWriterBuilder::try_build$')
        reach = ctx.cg.reachable([tb.path], spawn=False) if tb else set()
        c = [b for b in c if b.path in reach]
    if len(c) != 1:
        raise CheckError(f"{rule}: the builder function that calls State::new is not unique ({[b.path for b in c]})")
    b = c[0]
    # if it is a helper with parameters other than self (e.g. assemble_state(&self, flag)), use its only caller inside the builder instead
    guard = 0
    while b.arg_count != 1 and guard < 3:
        guard += 1
        callers = sorted({root_fn(a) for (a, _bb, _k) in ctx.cg.callers.get(b.path, []) if root_fn(a).startswith(FLWB + '::')})
        if len(callers) != 1:
            raise CheckError(f"{rule}: state assembling helper {b.path} has callers {callers}")
        b = f.bodies[callers[0]]
    return b


def _split_top(s):
    out, d, cur = [], 0, ''
    for ch in s:
        if ch in '([<{':
            d += 1
        elif ch in ')]>}':
            d -= 1
        if ch == ',' and d == 0:
            out.append(cur.strip()); cur = ''
        else:
            cur += ch
    if cur.strip():
        out.append(cur.strip())
    return out


def _rows(f, path, no_inline=()):
    out = []
    for r in FDI(f, no_inline=list(no_inline), max_rows=3000).run(path):
        if r.undecided:
            raise CheckError(f"wiring: {path} undecided: {r.undecided}")
        out.append(r)
    return out


def _changed(fnames, r):
    if not isinstance(r.result, Agg) or len(r.result.fields) != len(fnames):
        raise CheckError("wiring: returned builder not recognised")
    return {n: repr(v) for n, v in zip(fnames, r.result.fields) if _plain(repr(v)) != 'self.' + n}


def hop_e_fields(R, ctx, rule):
    """try_build*: FileLogWriter::new(state, <level field>, <format field>) -> slots flw:level / flw:format"""
    f = ctx.f
    NEW = r'file_log_writer::FileLogWriter::new$'
    nb = ctx.body(NEW)
    ptys = [nb.locals[i]['ty'] for i in range(1, nb.arg_count + 1)]
    try:
        i_lvl = next(i for i, t in enumerate(ptys) if t.endswith('LevelFilter'))
        i_fmt = next(i for i, t in enumerate(ptys) if 'DeferredNow' in t and 'Record' in t)
    except StopIteration:
        raise CheckError(f"{rule}: parameters of FileLogWriter::new not recognised")
    slot2bf = {}
    for name in ('try_build', 'try_build_with_handle'):
        b = ctx.body(r'FileLogWriterBuilder::' + name + '$')
        I = FDI(f, effects=[NEW], no_inline=[NEW, re.escape(state_builder(ctx, rule).path) + '$', r'new_with_handle$'])
        bad = None
        n = 0
        for r in I.run(b.path):
            if r.undecided:
                raise CheckError(f"{rule}: {name} undecided: {r.undecided}")
            for e in r.effects:
                if not re.search(NEW, e[0]):
                    continue
                n += 1
                for slot, i in (('flw:level', i_lvl), ('flw:format', i_fmt)):
                    bf = _copy_of(e[1][i])
                    if bf is None:
                        bad = f"{name} hands `{e[1][i][:50]}` to FileLogWriter::new as {slot[4:]}, not a builder field"
                    elif slot2bf.setdefault(slot, bf) != bf:
                        bad = f"{name} takes the {slot[4:]} from builder field `{bf}`, the sibling constructor from `{slot2bf[slot]}`"
        R.check(rule, f"{b.path}|ceiling-and-format-to-writer", not bad and n >= 1, "ceiling and format function come from the builder fields, the same in both constructors",
                f"{bad or 'FileLogWriter::new not reached'}: max_level()/format() configured on the builder do not reach the writer", where=b.loc())
    # FileLogWriter::new stores the ceiling; max_log_level() returns it
    flwf = _struct_fields(f, 'writers::file_log_writer::FileLogWriter')
    lf = [n for n, t in flwf if t.endswith('LevelFilter')]
    rows = _rows(f, nb.path, no_inline=[r'StateHandle::', r'Arc'])
    pn = nb.locals[i_lvl + 1].get('name')
    bad = None
    for r in rows:
        if not isinstance(r.result, Agg):
            raise CheckError(f"{rule}: FileLogWriter::new result not recognised")
        vals = {n: repr(v) for (n, _t), v in zip(flwf, r.result.fields)}
        if len(lf) != 1 or _plain(vals[lf[0]]) != pn:
            bad = f"FileLogWriter::new stores `{vals.get(lf[0] if lf else '', '?')[:40]}` as ceiling instead of its parameter"
    gb = ctx.body(r'<writers::file_log_writer::FileLogWriter as writers::log_writer::LogWriter>::max_log_level$')
    for r in _rows(f, gb.path):
        if not lf or _plain(repr(r.result)) != 'self.' + lf[0]:
            bad = f"FileLogWriter::max_log_level returns `{repr(r.result)[:40]}`, not the stored ceiling"
    R.check(rule, f"{nb.path}|ceiling-stored-and-returned", not bad, "the ceiling parameter is stored and returned by max_log_level()",
            f"{bad}: the writer's ceiling is not the configured one (records above it are written, or records below it dropped)", where=nb.loc())
    return slot2bf


def _value_ok(kind, val, params, r, f, bf_is_filespec=False):
    """is `val` the documented value `kind`; None = ok, text = what is wrong"""
    v = _plain(val)
    if kind == 'true':
        return None if v == 'True' else f"stores `{v[:40]}` instead of true"
    if kind == 'crlf':
        return None if v == CRLF else f"stores `{v[:40]}` instead of the Windows line ending \\r\\n"
    if isinstance(kind, tuple) and kind[0] == 'param':
        p = params[kind[1]][0]
        return None if v == p else f"stores `{v[:40]}` instead of its parameter `{p}`"
    if isinstance(kind, tuple) and kind[0] in ('some-into', 'opt-into'):
        p = params[kind[1]][0]
        if kind[0] == 'opt-into' and r.get(f'variant({p})') == 'None':
            return None if v == 'Option::None' else f"stores `{v[:40]}` for None"
        inner = p + ('.0' if kind[0] == 'opt-into' else '')
        if v in (f"Option::Some(std::convert::Into::into({inner}))", f"Option::Some({inner})", f"Option::Some(std::convert::From::from({inner}))"):
            return None
        return f"stores `{v[:60]}` instead of Some({p}.into())"
    if kind in ('rotation', 'o_rotation'):
        if kind == 'o_rotation':
            p = params[0][0]
            if r.get(f'variant({p})') == 'None':
                return None if v == 'Option::None' else f"stores `{v[:40]}` for None"
        m = re.match(r'^Option::Some\(RotationConfig::RotationConfig\((.*)\)\)$', v)
        if not m:
            return f"stores `{v[:60]}`, not Some(RotationConfig{{..}})"
        parts = _split_top(m.group(1))
        rf = _struct_fields(f, 'writers::file_log_writer::config::RotationConfig')
        if len(parts) != len(rf):
            return "RotationConfig aggregate not recognised"
        if kind == 'rotation':
            for (fname, fty), part in zip(rf, parts):
                want = [pn for pn, pt in params if pt == fty]
                if len(want) != 1:
                    raise CheckError(f"wiring: parameter of type {fty} not unique")
                if part != want[0]:
                    return f"RotationConfig.{fname} = `{part}` instead of the parameter `{want[0]}`"
        else:
            # tuple (Criterion, Naming, Cleanup): element i has the type of field i?  tuple element types from the parameter type
            from fdi import split_generics
            oty = split_generics(params[0][1])[1][0]
            ets = split_generics('T<' + oty[1:-1] + '>')[1]
            for (fname, fty), part in zip(rf, parts):
                want = [f"{params[0][0]}.0.{i}" for i, t in enumerate(ets) if t == fty]
                if len(want) != 1 or part != want[0]:
                    return f"RotationConfig.{fname} = `{part}` instead of `{want[0] if want else '?'}`"
        return None
    if kind == 'same':
        return None     # hop B does not judge the re-wrapped rotation configuration of file_spec(); R16.10 does
    if kind == 'filespec-utc':
        m = re.match(r'^FileSpec::FileSpec\((.*)\)$', v)
        if not m:
            return f"file spec `{v[:40]}` not recognised"
        fs = _struct_fields(f, 'parameters::file_spec::FileSpec')
        parts = _split_top(m.group(1))
        for (n, t), part in zip(fs, parts):
            if n == 'use_utc':
                if part != 'True':
                    return "does not switch the file spec (file-name timestamps) to UTC"
            elif part != 'self.file_spec.' + n:
                return f"changes FileSpec.{n}"
        return None
    if kind == 'filespec-ts':
        m = re.match(r'^FileSpec::FileSpec\((.*)\)$', v)
        if not m:
            return None if v == 'self.file_spec' else f"file spec `{v[:40]}` not recognised"
        fs = _struct_fields(f, 'parameters::file_spec::FileSpec')
        for (n, t), part in zip(fs, _split_top(m.group(1))):
            if n != 'timestamp_cfg' and part != 'self.file_spec.' + n:
                return f"changes FileSpec.{n}"
        return None
    if isinstance(kind, tuple) and kind[0] == 'filespec':
        p = params[kind[1]][0]
        if v == p:
            return None
        m = re.match(r'^FileSpec::FileSpec\((.*)\)$', v)
        if not m:
            return f"stores `{v[:40]}` instead of the given file spec"
        fs = _struct_fields(f, 'parameters::file_spec::FileSpec')
        for (n, t), part in zip(fs, _split_top(m.group(1))):
            if n != 'timestamp_cfg' and part != f'{p}.{n}':
                return f"FileSpec.{n} = `{part[:40]}` instead of the given file spec's"
        return None
    raise CheckError(f"wiring: unknown oracle kind {kind}")


def hop_b(R, ctx, rule, slot2bf, slots):
    f = ctx.f
    fnames = [n for n, _t in _struct_fields(f, FLWB)]
    n = 0
    for name, want in sorted(SETTERS.items()):
        if slots and not (set(want) & slots):
            continue
        b = ctx.opt_body(r'FileLogWriterBuilder::' + name + '$')
        if b is None:
            raise CheckError(f"{rule}: public builder method FileLogWriterBuilder::{name} not found")
        params = _params(b)
        bad = None
        missing = [s for s in want if s not in slot2bf]
        if missing:
            raise CheckError(f"{rule}: slot {missing[0]} has no builder field (hop A)")
        exp = {slot2bf[s]: k for s, k in want.items()}
        rows = _rows(f, b.path)
        for r in rows:
            ch = _changed(fnames, r)
            extra = sorted(set(ch) - set(exp))
            if extra:
                bad = f"also changes the builder field `{extra[0]}` (to `{ch[extra[0]][:40]}`)"
                continue
            for bf, kind in exp.items():
                if bf not in ch:
                    if kind in ('filespec-ts', 'same'):
                        continue
                    if isinstance(kind, tuple) and kind[0] in ('param', 'opt-into') and False:
                        continue
                    bad = f"leaves the builder field `{bf}` unchanged"
                    continue
                w = _value_ok(kind, ch[bf], params, r, f)
                if w:
                    bad = f"`{bf}`: {w}"
        n += 1
        R.check(rule, f"{b.path}|setter-table", not bad, f"{len(rows)} rows: changes exactly {sorted(exp)} as documented",
                f"FileLogWriterBuilder::{name} {bad}: the configured value does not arrive in its slot {sorted(want)}", where=b.loc())
    return n


def _norm_rows(rows, fnames, sub):
    out = set()
    for r in rows:
        if not isinstance(r.result, Agg):
            raise CheckError("wiring: builder value not recognised")
        c = frozenset((_subst(a, sub), str(v)) for a, v in r.cond)
        out.add((c, tuple(_subst(_plain(repr(v)), sub) for v in r.result.fields)))
    return out


def _subst(s, sub):
    for a, b in sub:
        s = re.sub(a, b, s)
    return s


def hop_c(R, ctx, rule, slots):
    """Logger methods that configure the file writer mirror the FileLogWriterBuilder method"""
    f = ctx.f
    lf = _struct_fields(f, 'logger::Logger')
    lnames = [n for n, _t in lf]
    try:
        i_flwb = next(i for i, (n, t) in enumerate(lf) if t == FLWB)
    except StopIteration:
        raise CheckError(f"{rule}: Logger has no FileLogWriterBuilder field")
    flwb_field = lnames[i_flwb]
    bnames = [n for n, _t in _struct_fields(f, FLWB)]
    n = 0
    for b in sorted(f.fn_bodies(), key=lambda b_: b_.path):
        m = re.match(r'^logger::Logger::(\w+)$', b.path)
        if not m or b.kind == 'Closure' or not b.is_pub or b.arg_count < 1 or b.locals[1]['ty'] != 'logger::Logger' or b.locals[0]['ty'] != 'logger::Logger':
            continue
        name = m.group(1)
        params = _params(b)
        rows = _rows(f, b.path)
        touched = any(flwb_field in _changed(lnames, r) for r in rows)
        tgt_changed = any('log_target' in _changed(lnames, r) for r in rows)
        if 'target' in slots and (name in TARGETS or tgt_changed):
            bad = None
            rx = TARGETS.get(name)
            for r in rows:
                v = _changed(lnames, r).get('log_target')
                if rx is None:
                    bad = f"changes the log target (to `{(v or '')[:40]}`) although it is not one of the log_to_* methods"
                    break
                rx_ = rx
                for i, (pn, _pt) in enumerate(params):
                    rx_ = rx_.replace(f'P{i}', re.escape(pn))
                if v is None or not re.search(rx_, v.replace('$', '')):
                    bad = f"selects `{(v or 'nothing')[:70]}`"
            n += 1
            R.check(rule, f"{b.path}|log-target", not bad, "selects the documented log target on every row", f"Logger::{name} {bad}: records go to another set of outputs than documented",
                    where=b.loc())
        if not touched:
            continue
        dname = DELEGATE.get(name, name)
        want = SETTERS.get(dname)
        if want is None or (slots and not (set(want) & slots)):
            continue
        db = ctx.opt_body(r'FileLogWriterBuilder::' + dname + '$')
        if db is None:
            raise CheckError(f"{rule}: FileLogWriterBuilder::{dname} not found")
        dparams = _params(db)
        bad = None
        if name == 'write_mode':
            bad = _write_mode(f, b, rows, lnames, bnames, flwb_field, params)
        else:
            sub = [(r'\bself\.' + flwb_field + r'\.', 'self.')]
            for (pn, _), (dn, _) in zip(params, dparams):
                if pn != dn:
                    sub.append((r'\b' + re.escape(pn) + r'\b', dn))
            got = set()
            for r in rows:
                ch = _changed(lnames, r)
                other = sorted(set(ch) - {flwb_field, 'log_target'})
                if other:
                    bad = f"also changes the Logger field `{other[0]}`"
                v = r.result.fields[i_flwb]
                if not isinstance(v, Agg):
                    raise CheckError(f"{rule}: Logger::{name}: builder value not recognised")
                c = frozenset((_subst(a, sub), str(val)) for a, val in r.cond)
                got.add((c, tuple(_subst(_plain(repr(x)), sub) for x in v.fields)))
            exp = _norm_rows(_rows(f, db.path), bnames, [])
            if got != exp and not bad:
                d = sorted(got - exp) or sorted(exp - got)
                diff = ''
                if d:
                    cand = [e for e in exp if e[0] == d[0][0]] or list(exp)
                    diff = next((f"builder field `{bn}` = `{a[:50]}` (FileLogWriterBuilder::{dname}: `{b_[:50]}`)" for bn, a, b_ in zip(bnames, d[0][1], cand[0][1]) if a != b_), 'rows differ')
                bad = f"does not have the effect of FileLogWriterBuilder::{dname}: {diff}"
        n += 1
        R.check(rule, f"{b.path}|mirrors-file-writer-builder", not bad, f"{len(rows)} rows: same effect on the file writer's builder as FileLogWriterBuilder::{dname}",
                f"Logger::{name} {bad}: configuring the logger differs from configuring the file writer directly", where=b.loc())
    return n


def _write_mode(f, b, rows, lnames, bnames, flwb_field, params):
    """Logger::write_mode: flwb.<write mode field> = without_flushing(mode), flush_interval = get_flush_interval(mode), nothing else"""
    p = params[0][0]
    wf = {r.get('variant(self)'): _plain(repr(r.result)) for r in _rows(f, 'write_mode::WriteMode::without_flushing')}
    gi = {r.get('variant(self)'): _plain(repr(r.result)) for r in _rows(f, 'write_mode::WriteMode::get_flush_interval')}
    wm_fields = [n for n, t in _struct_fields(f, FLWB) if t == 'write_mode::WriteMode']
    if len(wm_fields) != 1 or None in wf:
        raise CheckError("wiring: write mode field / without_flushing table not recognised")
    i_flwb = lnames.index(flwb_field)
    for r in rows:
        v = r.get(f'variant({p})')
        if v is None:
            raise CheckError("wiring: Logger::write_mode row without the mode's variant")
        ch = _changed(lnames, r)
        fv = r.result.fields[i_flwb]
        if not isinstance(fv, Agg):
            raise CheckError("wiring: Logger::write_mode: builder value not recognised")
        for bn, x in zip(bnames, fv.fields):
            s = _plain(repr(x))
            if bn == wm_fields[0]:
                if s != re.sub(r'\bself\b', p, wf[v]):
                    return f"stores `{s[:50]}` for WriteMode::{v}, without_flushing() gives `{re.sub(chr(92) + 'bself' + chr(92) + 'b', p, wf[v])[:50]}`"
            elif s != f'self.{flwb_field}.{bn}':
                return f"also changes the builder field `{bn}`"
        fi = _plain(ch.get('flush_interval', 'self.flush_interval'))
        if fi != re.sub(r'\bself\b', p, gi[v]):
            return f"keeps flush interval `{fi[:40]}` for WriteMode::{v}, get_flush_interval() gives `{gi[v][:40]}`"
        other = sorted(set(ch) - {flwb_field, 'flush_interval'})
        if other:
            return f"also changes the Logger field `{other[0]}`"
    return None


def hop_d(R, ctx, rule, slots):
    """Logger::build: chain into the file writer's builder"""
    f = ctx.f
    b = ctx.body(r'^logger::Logger::build$')
    EFF = [r'FileLogWriterBuilder::\w+$', r'DeferredNow::force_utc$', r'LogWriter::format$']
    I = FDI(f, effects=EFF, no_inline=EFF + [r'PrimaryWriter::', r'start_flusher_thread$', r'set_palette$', r'LoggerHandle::', r'FlexiLogger::new$', r'DeferredNow::',
                                             r'set_error_channel', r'set_panic'], max_rows=5000)
    lf = _struct_fields(f, 'logger::Logger')
    flwb_field = next(n for n, t in lf if t == FLWB)
    bad_utc = bad_fmt = bad_w = None
    nb = 0
    for r in I.run(b.path):
        if r.undecided:
            raise CheckError(f"{rule}: Logger::build undecided: {r.undecided}")
        utc = r.get('self.use_utc')
        effs = {}
        for e in r.effects:
            effs.setdefault(e[0].split('::')[-1] if 'FileLogWriterBuilder' in e[0] else e[0].split('::')[-2] + '::' + e[0].split('::')[-1], []).append(e)
        tb = effs.get('try_build', []) + effs.get('try_build_with_handle', [])
        ok = repr(r.result).startswith('Result::Ok')
        if tb:
            nb += 1
            # walk the receiver chain back to self.flwb
            chain = []
            recv = tb[0][1][0]
            guard = 0
            while guard < 10:
                guard += 1
                m = re.match(r'^&?\*?writers::file_log_writer::builder::FileLogWriterBuilder::(\w+)#(\d+)$', recv)
                if not m:
                    break
                src = [e for e in r.effects if e[0].endswith('::' + m.group(1)) and e[2].get('id') == int(m.group(2))] if False else \
                      [e for e in effs.get(m.group(1), [])]
                if not src:
                    break
                chain.append((m.group(1), src[0][1][1:]))
                recv = src[0][1][0]
            if _plain(recv) != 'self.' + flwb_field:
                raise CheckError(f"{rule}: Logger::build: the file writer is built from `{recv[:50]}` - chain not recognised")
            names = [c[0] for c in chain]
            unknown = [c for c in names if c not in ('format', 'use_utc')]
            if unknown:
                bad_fmt = f"applies FileLogWriterBuilder::{unknown[0]} in build(), overriding what the user configured"
            fm = [c for c in chain if c[0] == 'format']
            if len(fm) != 1 or _plain(fm[0][1][0]) != 'self.format_for_file':
                bad_fmt = f"the file writer's format is `{fm[0][1][0][:40] if fm else 'not set'}`, not the format configured for files"
            if utc is True and 'use_utc' not in names:
                bad_utc = "use_utc requested but the file writer is built without use_utc(): file names / rotation use local time"
            if utc is not True and 'use_utc' in names:
                bad_utc = "the file writer is switched to UTC although use_utc was not requested"
        if ok:
            fu = 'DeferredNow::force_utc' in effs
            if utc is True and not fu:
                bad_utc = "use_utc requested but record timestamps are not forced to UTC on a successful build"
            if utc is not True and fu:
                bad_utc = "record timestamps forced to UTC although use_utc was not requested"
            w = effs.get('LogWriter::format', [])
            some_w = any(a.startswith('variant(') and 'log_target' in a and v == 'Some' for a, v in r.cond)
            if some_w and (len(w) != 1 or _plain(w[0][1][1]) != 'self.format_for_writer'):
                bad_w = f"the additional writer of the log target gets the format `{w[0][1][1][:40] if w else 'none'}`"
    if nb < 2:
        raise CheckError(f"{rule}: Logger::build: construction of the file writer not found on the rows")
    if not slots or slots & {'cfg:use_utc', 'cfg:file_spec'}:
        R.check(rule, f"{b.path}|utc-to-file-writer-and-clock", not bad_utc, "use_utc reaches the file writer and the record clock, together, iff requested",
                f"Logger::build: {bad_utc}", where=b.loc())
    if not slots or 'flw:format' in slots:
        R.check(rule, f"{b.path}|format-to-file-writer", not bad_fmt and not bad_w, "file writer built from self.flwb with format_for_file; additional writer gets format_for_writer",
                f"Logger::build: {bad_fmt or bad_w}", where=b.loc())


# documented effect of the FileSpec builder methods (rustdoc of FileSpec): field -> value
FS_SETTERS = {
    'directory': ('directory', 'into'), 'o_directory': ('directory', 'opt-into-else', "'.'"),
    'basename': ('basename', 'into'), 'o_basename': ('basename', 'opt-into-else', None), 'suppress_basename': ('basename', 'const', "std::convert::Into::into('')"),
    'discriminant': ('o_discriminant', 'some-into'), 'o_discriminant': ('o_discriminant', 'opt-some-into'),
    'suffix': ('o_suffix', 'some-into'), 'o_suffix': ('o_suffix', 'opt-some-into'),
    'suppress_timestamp': ('timestamp_cfg', 'const', 'TimestampCfg::No'),
    'use_timestamp': ('timestamp_cfg', 'bool', 'TimestampCfg::Yes', 'TimestampCfg::No'),
}


def filespec_setters(R, ctx, rule):
    """every public FileSpec builder method changes exactly the field it documents, to the value given (nothing swapped between directory /
    basename / discriminant / suffix, no part silently dropped): the names the writer produces are those of the configuration the user wrote"""
    f = ctx.f
    FS = 'parameters::file_spec::FileSpec'
    fnames = [n for n, _t in _struct_fields(f, FS)]
    n = 0
    for name, spec in sorted(FS_SETTERS.items()):
        b = ctx.opt_body(r'^parameters::file_spec::FileSpec::' + name + '$')
        if b is None:
            raise CheckError(f"{rule}: public method FileSpec::{name} not found")
        params = _params(b)
        field, kind = spec[0], spec[1]
        if field not in fnames:
            raise CheckError(f"{rule}: FileSpec has no field `{field}`")
        bad = None
        rows = _rows(f, b.path)
        for r in rows:
            ch = {k: _plain(v) for k, v in _changed(fnames, r).items()}
            extra = sorted(set(ch) - {field})
            if extra:
                bad = f"also changes `{extra[0]}`"
                continue
            v = ch.get(field)
            p0 = params[0][0] if params else None
            if kind == 'into':
                ok = v in (f"std::convert::Into::into({p0})", p0)
            elif kind == 'some-into':
                ok = v in (f"Option::Some(std::convert::Into::into({p0}))", f"Option::Some({p0})")
            elif kind == 'opt-some-into':
                ok = (v == 'Option::None') if r.get(f'variant({p0})') == 'None' else v in (f"Option::Some(std::convert::Into::into({p0}.0))", f"Option::Some({p0}.0)")
            elif kind == 'opt-into-else':
                if r.get(f'variant({p0})') == 'None':
                    ok = v is not None and (spec[2] is None or v == spec[2]) and not any(re.search(r'\bself\.' + o + r'\b', v) for o in fnames)
                else:
                    ok = v in (f"std::convert::Into::into({p0}.0)", f"{p0}.0")
            elif kind == 'const':
                ok = v == spec[2]
            elif kind == 'bool':
                t = r.get(p0)
                ok = t in (True, False) and v == (spec[2] if t else spec[3])
            else:
                raise CheckError(f"{rule}: oracle kind {kind}")
            if not ok:
                bad = f"stores `{(v or 'nothing')[:60]}` in `{field}`"
        n += 1
        R.check(rule, f"{b.path}|file-spec-setter", not bad, f"{len(rows)} rows: changes `{field}` only, to the documented value",
                f"FileSpec::{name} {bad}: the file names are not those of the configured file spec", where=b.loc())
    return n


def config_wiring(R, ctx, rule, prop):
    slots = SLOTS[prop]
    slot2bf = hop_a(R, ctx, rule, slots)
    if slots & {'flw:level', 'flw:format'}:
        slot2bf.update(hop_e_fields(R, ctx, rule))
    nb = hop_b(R, ctx, rule, slot2bf, slots)
    nc = hop_c(R, ctx, rule, slots)
    if slots & {'cfg:use_utc', 'cfg:file_spec', 'flw:format'}:
        hop_d(R, ctx, rule, slots)
    if prop == 'C16':
        filespec_setters(R, ctx, rule)
    if nb < 1:
        raise CheckError(f"{rule}: no builder method of this property's slots found")
    return nb, nc
