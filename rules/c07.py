"""C07 — cleanup keeps exactly the newest files, compresses losslessly, spares the current file."""
from rulelib import *
from facts import rv_str, op_str
from report import CheckError
from fdi import FDI, Const, Agg, Sym, Ref
import table as T

EXPLANATION = ("R07.1 per-element classification table of the cleanup loop: with (k, m) from the Cleanup variant and k' = 1 if direct naming and k = 0, "
               "the file at listing position i is removed iff i >= k'+m, compressed (unless .gz) iff k' <= i < k'+m, untouched otherwise, Never has no "
               "file-system effect, the sum cannot wrap, and no other condition takes part; R07.2 compression order create(.gz) -> open(original) -> copy -> "
               "finish -> remove(original) with every step guarding the next, removed path = opened path, target = original with .gz appended; "
               "R07.3 the listing is sorted ascending then reversed and only order-preserving adaptors follow; R07.4 the two writes_direct "
               "predicates equal the documented set of direct namings and agree under the Naming->NamingState mapping of initialisation; R07.5 the "
               "filter handed to cleanup is the naming state's own and can never match the rCURRENT infix; R07.6 shutdown sends Die then joins; on the decision rows of the cleanup thread every Act received is followed by a cleanup run "
               "before the next receive or the end of the thread (a queued request is never dropped), Die/disconnect leave the loop. R07.7 the listing cleanup counts over recognises exactly the family (shared with R14.2). R07.8 the writer is switched to the new file (the old one thereby flushed and closed) before cleanup runs (rotation table shared with R01.4). R07.9 names of rotated files sort in the order of rotation: collision table (shared with R06.4)."
               " R07.2 also: the gz encoder writes into the File itself, or its buffering sink is flushed with the result guarding the removal of the original."
               " R07.10 cleanup wiring: the Cleanup given to rotate()/o_rotate() and the background-thread flag reach State::new unchanged (shared configuration-wiring tables, rules/cfgwiring.py)."
               " R07.11 (shared with R06.2): after a restart the numbering continues above every listed file, compressed ones included (maximum over the listing of plain and .gz files), so descending name order stays newest-first for cleanup."
               " R07.7 also: the file-name timestamp reader is total on ambiguous local times (earliest/latest, never single()), so cleanup sees every file the writer named.")
ASSUMPTIONS = ["lexicographic path order of the listing is age order for the configured naming (value-dependent, not decided)", "flate2 finish() completes the gz stream",
               "mpsc channels are FIFO"]
NOT_DECIDED = ["that lexicographic order is age order (.restart-NNNN siblings, r99999->r100000)", "byte-exact gzip round trip", "interleavings of the cleanup thread with further rotations beyond lock/order facts"]
FLOORS = {'R07.1': 4, 'R07.3': 2, 'R07.4': 5, 'R07.5': 2, 'R07.6': 2}

IMPL = 'writers::file_log_writer::state::list_and_cleanup::remove_or_compress_too_old_logfiles_impl'
NEXT = r'Enumerate<I> as std::iter::Iterator>::next$'
FSOPS = ['remove_file', 'create', 'open', 'copy', 'finish']


def run(R, ctx):
    R.rule('R07.10', 'cleanup wiring: the Cleanup given to rotate()/o_rotate() and the background-thread flag reach State::new unchanged')
    import cfgwiring
    cfgwiring.config_wiring(R, ctx, 'R07.10', 'C07')
    R.rule('R07.1', 'TABLE(cleanup classification per listed file)')
    R.rule('R07.2', 'GUARDED-EFFECT chain of the compression')
    R.rule('R07.3', 'PROVENANCE(list order: sort ascending, reverse, order-preserving filters)')
    R.rule('R07.4', 'SIBLINGS-AGREE(Naming::writes_direct, NamingState::writes_direct) + oracle')
    R.rule('R07.5', 'PROVENANCE/CONST-AGREE: cleanup filter is the naming state\'s; rCURRENT never passes it')
    R.rule('R07.6', 'ORDER(send Die -> join); cleanup thread loop exits')
    classification(R, ctx)
    listing_order(R, ctx)
    twins(R, ctx)
    current_spared(R, ctx)
    shutdown_rules(R, ctx)
    family_predicate_proxy(R, ctx, 'R07.7', 'the listing cleanup counts over recognises exactly the family (shared with R14.2)')
    # cleanup (compression) of the file just rotated out must see its complete content: the old writer is replaced - and thereby
    # flushed and closed - before cleanup runs; decided by the rotation table (shared with R01.4)
    R.rule('R07.8', 'the writer is switched to the new file before cleanup runs (shared with R01.4)')
    import c01 as _c01
    _c01.swap_rules(Relabel(R, {'R01.4': 'R07.8'}), ctx)
    # cleanup walks the listing in descending NAME order and takes that for newest-first: a rotated file must never get a name that sorts
    # before an older one.  With timestamp naming that is the collision test (a second file of the same second gets the next
    # .restart number, also when only restart siblings are left); decided by the collision table (shared with R06.4)
    R.rule('R07.9', 'names of rotated files sort in the order of rotation: collision table (shared with R06.4)')
    import c06 as _c06
    _c06.collision_table(Relabel(R, {'R06.4': 'R07.9'}), ctx)
    # with number naming the same holds across restarts: the numbering continues above EVERY file cleanup still keeps, compressed ones included - a start
    # index computed from the plain files only gives the newest content the lowest number, and cleanup (descending name order = newest first) removes it first
    R.rule('R07.11', 'numbers of rotated files continue above the kept compressed files after a restart (start index rules shared with R06.2)')
    _c06.start_index(Relabel(R, {'R06.2': 'R07.11'}), ctx)
    # cleanup counts only the files the family predicate recognises: every timestamp name the writer produces must parse back (incl. the repeated hour
    # at the end of daylight saving), otherwise those files stay for ever and the kept set is not the newest tail
    _c06.timestamp_parse_total(R, ctx, rule='R07.7')

def ord_rel(row, a, b):
    """relation of a to b recorded in the row for the ordering atom of names a, b (None if not examined)"""
    x, y = (a, b) if a <= b else (b, a)
    v = row.cmap.get(f"ord({x},{y})")
    if v is None:
        return None
    return v if (x, y) == (a, b) else T.flip(v)


def lin_name(c, atoms):
    atoms = sorted(atoms)
    if not atoms:
        return str(c)
    if len(atoms) == 1:
        return atoms[0] if c == 0 else f"({c}+{atoms[0]})"
    base = f"({atoms[0]}+{atoms[1]})"
    return base if c == 0 else f"({c}+{base})"


def _inputs_by_type(f, b):
    """access paths of the cleanup strategy and of the direct-naming flag among the parameters of the cleanup function, by TYPE: plain parameters
    (`cleanup_config: &Cleanup, .., writes_direct: bool`) or fields of a private parameter struct (`job: &CleanupJob`)"""
    cc = wd = None
    for i in range(1, b.arg_count + 1):
        n, ty = b.locals[i].get('name'), b.locals[i]['ty']
        t = re.sub(r"^&('\w+ )?(mut )?", '', ty)
        if t.endswith('parameters::cleanup::Cleanup'):
            cc = n
        elif t == 'bool':
            wd = n
        else:
            head = t.split('<')[0]
            adt = f.adts.get(head)
            if adt and len(adt['variants']) == 1:
                for fd in adt['variants'][0]['fields']:
                    ft = re.sub(r"^&('\w+ )?(mut )?", '', fd['ty'])
                    if ft.endswith('parameters::cleanup::Cleanup'):
                        cc = ('*' if fd['ty'].startswith('&') else '') + f"{n}.{fd['name']}"
                    elif ft == 'bool':
                        wd = f"{n}.{fd['name']}"
    if cc is None or wd is None:
        raise CheckError(f"R07.1: inputs of the cleanup function not found by type (strategy: {cc}, direct flag: {wd})")
    return cc, wd


def classification(R, ctx):
    f = ctx.f
    b = f.bodies.get(IMPL)
    if b is None:
        raise CheckError('cleanup implementation not found')
    compress = ctx.has('compress')
    EFF = [r'^std::fs::remove_file$', r'^std::fs::File::(create|open)$', r'^std::io::copy$', r'GzEncoder::<W>::(new|finish)$',
           r'list_of_log_and_compressed_files$', r'PathBuf::set_extension$', r'OsString::push$', NEXT, r'^std::fs::', r'^std::os::unix::fs::']
    I = FDI(f, effects=EFF, no_inline=[r'list_of_log_and_compressed_files$'], loop_k=ctx.k(1, 2), max_steps=30000, max_rows=400000)
    rows = I.run(b.path)
    problems = {}
    counts = {}
    seen_classes = set()
    CC, WD = _inputs_by_type(f, b)

    def prob(variant, text):
        problems.setdefault(variant, [])
        if len(problems[variant]) < 4:
            problems[variant].append(text)

    for r in rows:
        variant = r.get(f'variant({CC})')
        if r.undecided:
            R.bad('R07.1', f"cleanup|{variant}", f"UNDECIDED: {r.undecided}", where=b.loc())
            continue
        counts[variant] = counts.get(variant, 0) + 1
        effs = r.effects
        if variant == 'Never':
            if effs or not (isinstance(r.result, Agg) and r.result.variant == 'Ok'):
                prob(variant, f"Cleanup::Never performs {[e[0] for e in effs]}")
            continue
        direct = r.get(WD)
        # (k, m) as names
        if variant == 'KeepLogFiles':
            k_atom, m_atom = f'{CC}.0', None
        elif variant == 'KeepCompressedFiles':
            k_atom, m_atom = None, f'{CC}.0'
        else:
            k_atom, m_atom = f'{CC}.0', f'{CC}.1'
        kzero = None
        if direct:
            if k_atom:
                kz = ord_rel(r, '0', k_atom)
                kzero = (kz == 'eq') if kz is not None else None
            else:
                kzero = True
        if direct is None:
            prob(variant, "the direct-naming flag is not examined")
            continue
        if direct and k_atom and kzero is None:
            prob(variant, "direct naming: `k == 0` is not examined (the current file is not protected)")
            continue
        if direct and kzero:
            kc, ka = 1, []
        elif k_atom:
            kc, ka = 0, [k_atom]
        else:
            kc, ka = 0, []
        kname = lin_name(kc, ka)
        sumname = lin_name(kc, ka + ([m_atom] if m_atom else []))
        sat = [f"core::num::<impl usize>::saturating_add({kname},{m_atom or 0})"]
        # split the trace into elements
        known_atoms = {f'variant({CC})', WD}
        if k_atom:
            known_atoms.add(f"ord(0,{k_atom})")
            known_atoms.add(f"ord({k_atom},0)")        # operands of an ordering atom are named in lexicographic order (`*x` sorts before `0`)
        elems = [i for i, e in enumerate(effs) if re.search(NEXT, e[0])]
        row_ok = True
        for n_i, ei in enumerate(elems):
            nxt = f"{effs[ei][0]}#{ei + 1}"
            known_atoms.add(f"variant({nxt})")
            some = r.get(f"variant({nxt})")
            seg_end = elems[n_i + 1] if n_i + 1 < len(elems) else len(effs)
            seg = effs[ei + 1:seg_end]
            names = [e[0].split('::')[-1] for e in seg]
            if some != 'Some':
                if names:
                    prob(variant, "effects after the end of the listing")
                continue
            idx, fil = f"{nxt}.0.0", f"{nxt}.0.1"
            rs = None
            for sn in sat + [sumname]:
                rs = ord_rel(r, idx, sn)
                if rs is not None:
                    known_atoms.add(f"ord({min(idx, sn)},{max(idx, sn)})")
                    break
            if rs is None:
                prob(variant, f"position {idx} is not compared with the documented delete threshold {sumname} (direct={direct}, k==0: {kzero})")
                row_ok = False
                break
            ge_sum = rs in ('eq', 'gt')
            exp = []
            cls = None
            if ge_sum:
                exp = ['remove_file']
                cls = 'delete'
            else:
                if m_atom is None and not compress:
                    rk = ord_rel(r, idx, kname)
                else:
                    rk = ord_rel(r, idx, kname)
                if rk is not None:
                    known_atoms.add(f"ord({min(idx, kname)},{max(idx, kname)})")
                if rk is None:
                    # code may skip the second comparison when it cannot matter (no compress feature: nothing to do)
                    if compress:
                        prob(variant, f"position {idx} < delete threshold but not compared with the keep limit {kname}")
                        row_ok = False
                        break
                    cls = 'keep'
                elif rk in ('eq', 'gt') and m_atom is None:
                    row_ok = False         # KeepLogFiles: k'+0 = k', the compress range is empty: infeasible row
                    break
                elif rk in ('eq', 'gt'):
                    cls = 'compress-range'
                    if compress:
                        ext = next((v for a, v in r.cond if a.startswith('variant(') and 'Path::extension(' in a and fil in a), None)
                        gz = None
                        for a, v in r.cond:
                            if "'gz'" in a and fil in a and not a.startswith('variant('):
                                info = r.atom_info.get(a, {})
                                known_atoms.add(a)
                                if info.get('kind') == 'ord':
                                    gz = (v == 'eq')
                                else:
                                    gz = bool(v) if '::eq' in a.split('(')[0] else (not bool(v))
                        for a, v in r.cond:
                            if a.startswith('variant(') and 'Path::extension(' in a and fil in a:
                                known_atoms.add(a)
                        if ext == 'None':
                            cls = 'compress-range/no-extension'
                            exp = ['COMPRESS'] if False else []   # oracle: compress (not gz); observed separately below
                            exp = ['COMPRESS']
                        elif ext == 'Some' and gz is True:
                            cls = 'compress-range/already-gz'
                            exp = []
                        elif ext == 'Some' and gz is False:
                            exp = ['COMPRESS']
                        else:
                            prob(variant, f"compress range: extension test not recognised (ext={ext}, gz={gz})")
                            row_ok = False
                            break
                else:
                    cls = 'keep'
            seen_classes.add((variant, cls))
            # compare effects
            fsnames = [x for x in names if x in FSOPS]
            if exp == ['COMPRESS']:
                full = ['create', 'open', 'copy', 'finish', 'remove_file']
                # truncated at the first failing step
                got = fsnames
                okprefix = got == full[:len(got)] and len(got) >= 1
                failed = [v for a, v in r.cond if a.startswith('variant(std::') or a.startswith('variant(flate2')]
                if not okprefix:
                    key = 'no-extension' if cls.endswith('no-extension') else 'compress'
                    if key == 'no-extension' and not got:
                        problems.setdefault(variant + '|no-extension', []).append(
                            "a file without extension in the compress range is never compressed (`if let Some(extension)` has no else; the inner `None =>` arm is dead)")
                    else:
                        prob(variant, f"compress range: file-system steps {got}, documented {full}")
                    continue
                if len(got) < len(full):
                    # must have ended because the last step failed, and the function must return Err
                    if not (isinstance(r.result, Agg) and r.result.variant == 'Err'):
                        prob(variant, f"compression stops after {got} without returning the error")
                # paths
                byname = {e[0].split('::')[-1]: e for e in seg}
                if 'open' in byname and T_norm(byname['open'][1][0]) != fil:
                    prob(variant, "the file opened for reading is not the listed file")
                if 'remove_file' in byname and T_norm(byname['remove_file'][1][0]) != fil:
                    prob(variant, "the file removed after compression is not the file that was read")
                if 'create' in byname:
                    tgt = T_norm(byname['create'][1][0])
                    se = [e for e in seg if e[0].endswith('set_extension')]
                    if not tgt.startswith(fil) or not se or T_norm(se[0][1][0]) != fil:
                        prob(variant, f"the compressed file {tgt} is not derived from the listed file by set_extension")
                    elif not any("'.gz'" in r.long(x) or "'gz'" in r.long(x) for e in seg if e[0].endswith(('push', 'set_extension')) for x in e[1]):
                        prob(variant, "the compressed file's name does not get the gz extension")
            else:
                if fsnames != exp:
                    prob(variant, f"class {cls}: file-system steps {fsnames}, documented {exp}")
                    continue
                if exp == ['remove_file']:
                    e = [x for x in seg if x[0].endswith('remove_file')][0]
                    if T_norm(e[1][0]) != fil:
                        prob(variant, "the deleted file is not the listed file at that position")
        if not row_ok:
            continue
        # no condition outside the vocabulary
        for a, v in r.cond:
            if a in known_atoms:
                continue
            if a.startswith('variant(std::fs::') or a.startswith('variant(std::io::copy') or a.startswith('variant(flate2::'):
                continue
            if re.match(r"^variant\(<std::iter::Enumerate", a):
                continue
            prob(variant, f"the classification depends on a condition outside the documented one: {a[:140]} = {v}")
            break
        notes = [n for n in r.notes if n.startswith('overflow-check') and CC in n and '+' in n and n.count(CC) >= 2]
        if notes:
            problems.setdefault(variant + '|overflow', []).append(f"k + m is computed with overflow check only ({notes[0]}): KeepLogAndCompressedFiles(usize::MAX, 1) panics under the state lock / wraps to 0 and deletes everything")
    variants = ['Never', 'KeepLogFiles'] + (['KeepCompressedFiles', 'KeepLogAndCompressedFiles'] if compress else [])
    for v in variants:
        for suffix in ('', '|no-extension', '|overflow'):
            key = f"cleanup|{v}{suffix}"
            ps = problems.get(v + suffix)
            if suffix and not ps:
                continue
            if counts.get(v, 0) == 0:
                R.bad('R07.1', key, f"variant {v} missing from the table", where=b.loc())
            elif ps:
                R.bad('R07.1', key, f"Cleanup::{v}: {ps[0]}", where=b.loc(), witness=ps[:4])
            else:
                R.ok('R07.1', key, f"{counts[v]} rows agree", sample={'variant': v, 'rows': counts[v], 'classes': sorted(str(c[1]) for c in seen_classes if c[0] == v)})
    if compress:
        R.check('R07.2', 'compression-chain', not any(p for k_, p in problems.items() if '|' not in k_ and k_ != 'KeepLogFiles') and
                any(c[1] and c[1].startswith('compress-range') for c in seen_classes),
                "create -> open -> copy -> finish -> remove, each guarding the next (decided with R07.1's rows)",
                "compression of a rotated file: " + next((p_[0] for k_, p_ in problems.items() if '|' not in k_ and k_ != 'KeepLogFiles' and p_), 'no compress-range rows') +
                " - a kill (or failure) between the steps can lose the original without a complete .gz", where=b.loc())
        gz_sink(R, ctx)


def T_norm(s):
    s = re.sub(r"'\d+$", '', s)
    return s.lstrip('&')


# ------------------------------------------------------------------------------------------------ R07.3
def listing_order(R, ctx):
    f = ctx.f
    b = ctx.body(r'^parameters::file_spec::FileSpec::read_dir_related_files$')
    seq = [(bb, callee_name(t)) for bb, t in b.calls()]
    sorts = [bb for bb, n in seq if re.search(r'::sort(_unstable)?$', n)]
    revs = [bb for bb, n in seq if n.endswith('::reverse')]
    desc_cmp = [bb for bb, n in seq if re.search(r'::sort(_unstable)?_by(_key)?$', n)]
    p = ctx.ip.prov(b.path)
    ret = p.roots(0)
    same = False
    ok = len(sorts) == 1 and len(revs) == 1 and C.dominates(b, sorts[0], revs[0]) and not desc_cmp
    if ok:
        r1 = p.op_roots(b.blocks[sorts[0]]['term']['args'][0])
        r2 = p.op_roots(b.blocks[revs[0]]['term']['args'][0])
        # the vector built here: collected from the iterator chain, or Vec::new() filled by a loop
        coll = {x for x in r1 if x[0] in ('call', 'via') and re.search(r'collect|Vec::<T>::new$|Vec::<T, A>::with_capacity$|Vec::<T>::with_capacity$', x[1])}
        same = bool(coll) and coll <= r2 and coll <= ret
    elif len(desc_cmp) == 1 and not sorts and not revs and re.search(r'::sort(_unstable)?_by$', callee_name(b.blocks[desc_cmp[0]]['term'])):
        # one sort with a descending comparator `|a, b| b.cmp(a)` (or `a.cmp(b).reverse()`) is the same order
        clo = [x for x in f.fn_bodies() if x.kind == 'Closure' and x.path.startswith(b.path + '::{closure') and
               any(re.search(r'Ord>?::cmp$|::cmp$', callee_name(t)) for _, t in x.calls())]
        if len(clo) == 1:
            rows = FDI(f).run(clo[0].path, arg_names=['env', 'a', 'b'])
            ok = bool(rows)
            for r in rows:
                x = r.result.x if isinstance(r.result, Sym) else None
                rev = False
                if isinstance(x, tuple) and x[0] == 'call' and re.search(r'Ordering::reverse$', x[1]) and x[2]:
                    rev, x = True, T.strip_refs(x[2][0])
                good = not r.undecided and isinstance(x, tuple) and x[0] == 'call' and re.search(r'::cmp$', x[1]) and len(x[2]) == 2 and \
                    T.inputs_in(x[2][0]) == ({'a'} if rev else {'b'}) and T.inputs_in(x[2][1]) == ({'b'} if rev else {'a'}) and \
                    not T.fields_in(x[2][0]) and not T.fields_in(x[2][1])
                ok = ok and good
            r1 = p.op_roots(b.blocks[desc_cmp[0]]['term']['args'][0])
            coll = {x for x in r1 if x[0] in ('call', 'via') and re.search(r'collect|Vec::<T>::new$|Vec::<T, A>::with_capacity$|Vec::<T>::with_capacity$', x[1])}
            same = bool(coll) and coll <= ret
    R.check('R07.3', f"{b.path}|sort-reverse", ok and same, "collected listing is sorted ascending, then reversed, then returned (newest first)",
            "the listing is not `sort ascending -> reverse` on the returned vector (cleanup would count from the wrong end and delete the newest files)",
            where=b.loc(), sample={'calls': [n.split('::')[-1] for _, n in seq][-6:]})
    # order-preserving adaptors only between the listing and the loop
    for path in ('parameters::file_spec::FileSpec::filter_files', 'writers::file_log_writer::state::list_and_cleanup::existing_log_files',
                 'writers::file_log_writer::state::list_and_cleanup::list_of_log_and_compressed_files'):
        fb = f.bodies.get(path)
        if fb is None:
            raise CheckError(f"{path} not found")
        reorder = [callee_name(t) for bb, t in fb.calls() if re.search(r'::(sort\w*|reverse|rev|swap|rotate_\w+|shuffle|dedup\w*|retain)$', callee_name(t))]
        R.check('R07.3', f"{path}|order-preserving", not reorder, "only order-preserving adaptors", f"{path} reorders the listing: {reorder}", where=fb.loc())
    cb = f.bodies[IMPL]
    reorder = [callee_name(t) for bb, t in cb.calls() if re.search(r'::(sort\w*|reverse|rev|swap)$', callee_name(t))]
    R.check('R07.3', f"{IMPL}|order-preserving", not reorder, "cleanup iterates the listing in order", f"cleanup reorders the listing: {reorder}", where=cb.loc())


# ------------------------------------------------------------------------------------------------ R07.4
DIRECT_ORACLE = {('NumbersDirect', None): True, ('Numbers', None): False, ('Timestamps', None): False, ('TimestampsDirect', None): True,
                 ('TimestampsCustomFormat', 'None'): True, ('TimestampsCustomFormat', 'Some'): False}


def twins(R, ctx):
    f = ctx.f
    nb = ctx.body(r'^parameters::naming::Naming::writes_direct$')
    I = FDI(f)
    rows = I.run(nb.path)
    for r in rows:
        if r.undecided:
            R.bad('R07.4', 'Naming::writes_direct', f"UNDECIDED {r.undecided}", where=nb.loc())
            return
    per = {}
    for r in rows:
        v = r.get('variant(self)')
        ci = r.get('variant(self.current_infix)')
        extra = [(a, val) for a, val in r.cond if a not in ('variant(self)', 'variant(self.current_infix)')]
        per.setdefault((v, ci), []).append((r.result.v if isinstance(r.result, Const) else repr(r.result), extra))
    for (v, ci), outs in sorted(per.items(), key=str):
        exp = DIRECT_ORACLE.get((v, ci if v == 'TimestampsCustomFormat' else None))
        for got, extra in outs:
            lab = ''
            if extra:
                lab = '|current_infix' + ('==' if extra[0][1] in (True, 'eq') else '!=') + '""' if ("''" in extra[0][0] or '""' in extra[0][0]) and 'current_infix' in extra[0][0] \
                    else f"|{extra[0][0][:60]}={extra[0][1]}"
            key = f"Naming::writes_direct|{v}|{ci}{lab}"
            if exp is None:
                R.bad('R07.4', key, f"unexpected Naming value ({v}, {ci})", where=nb.loc())
            else:
                R.check('R07.4', key, got == exp, f"direct={exp}",
                        f"Naming::writes_direct answers {got} for {v}" + (f"{{current_infix: {ci}}}" if ci else '') + (f" when {extra[0][0][:80]} = {extra[0][1]}" if extra else '') +
                        f"; documented: {exp} (the current file is part of the listing only without current infix)", where=nb.loc(),
                        sample={'naming': v, 'current_infix': ci, 'direct': got})
    sb = ctx.body(r'^writers::file_log_writer::state::NamingState::writes_direct$')
    rows = FDI(f).run(sb.path)
    ORACLE2 = {('NumbersDirect', None): True, ('NumbersRCurrent', None): False, ('Timestamps', 'None'): True, ('Timestamps', 'Some'): False}
    seen = set()
    for r in rows:
        v = r.get('variant(self)')
        ci = r.get('variant(self.the_current_infix)')
        key = (v, ci if v == 'Timestamps' else None)
        seen.add(key)
        exp = ORACLE2.get(key)
        got = r.result.v if isinstance(r.result, Const) else repr(r.result)
        extra = [(a, val) for a, val in r.cond if a not in ('variant(self)', 'variant(self.the_current_infix)')]
        R.check('R07.4', f"NamingState::writes_direct|{v}|{ci}", exp is not None and got == exp and not extra and not r.undecided, f"direct={exp}",
                f"NamingState::writes_direct answers {got} for {v}" + (f"{{the_current_infix: {ci}}}" if ci else '') + f"; documented: {exp} — at rotation the guard "
                "`direct and k = 0 -> keep 1` would no longer protect the file being written", where=sb.loc(), sample={'state': v, 'current_infix': ci, 'direct': got})
    for k_ in ORACLE2:
        if k_ not in seen:
            R.bad('R07.4', f"NamingState::writes_direct|{k_[0]}|{k_[1]}", "row missing", where=sb.loc())
    cleanup_flag_provenance(R, ctx)


def _arg_roots(ctx, b, p, t, ty_rx):
    """provenance roots of the value of the given type handed to the callee: a plain argument, or the field of that type of a private parameter
    struct built in the caller (`CleanupJob { .., infix_filter, writes_direct }`)"""
    f = ctx.f
    callee = callee_name(t)
    cb = f.bodies.get(callee)
    strip = lambda ty: re.sub(r"^&('\w+ )?(mut )?", '', ty)
    direct = [i - 1 for i in range(1, (cb.arg_count if cb else 0) + 1) if re.search(ty_rx, strip(cb.locals[i]['ty']))]
    if len(direct) == 1:
        return p.op_roots(t['args'][direct[0]])
    for i in range(1, (cb.arg_count if cb else 0) + 1):
        head = strip(cb.locals[i]['ty']).split('<')[0]
        adt = f.adts.get(head)
        if not adt or len(adt['variants']) != 1:
            continue
        fi = [k for k, fd in enumerate(adt['variants'][0]['fields']) if re.search(ty_rx, strip(fd['ty']))]
        if len(fi) != 1:
            continue
        aggs = [s_ for x in with_closures(f, f.bodies[root_fn(b.path)]) if x.path == b.path for blk in x.blocks for s_ in blk['stmts']
                if s_['k'] == 'assign' and s_['rv']['k'] == 'agg' and (s_['rv'].get('adt') or '').split('<')[0] == head]
        if len(aggs) == 1:
            return p.op_roots(aggs[0]['rv']['ops'][fi[0]])
    if cb is not None and not any('NamingState' in cb.locals[i]['ty'] or 'state::State' in cb.locals[i]['ty'] for i in range(1, cb.arg_count + 1)):
        # the cleanup entry point is handed neither the value nor the naming state it could ask: it derives its own (definite deviation)
        return {('not-handed', f"{callee.split('::')[-1]} receives no value of type /{ty_rx}/ and no naming state: it derives its own", 0)}
    raise CheckError(f"R07.4/R07.5: how the value of type /{ty_rx}/ reaches {callee.split('::')[-1]} from {b.path.split('::')[-1]} is not recognised")


def _param_index(f, callee, ty_rx):
    """position of the callee's only parameter of the given type; a changed parameter list (e.g. a parameter struct) is `form not recognised`"""
    cb = f.bodies.get(callee)
    c = [i - 1 for i in range(1, (cb.arg_count if cb else 0) + 1) if re.search(ty_rx, re.sub(r"^&('\w+ )?(mut )?", '', cb.locals[i]['ty']))]
    if len(c) != 1:
        raise CheckError(f"R07.4/R07.5: {callee.split('::')[-1]} has {len(c)} parameters of type /{ty_rx}/ - how the direct flag / infix filter reach the cleanup is not recognised")
    return c[0]


def cleanup_flag_provenance(R, ctx):
    f = ctx.f
    # which predicate is used where: start-up uses Naming's, rotation NamingState's; both are handed to cleanup as the flag
    for fn, which in (('State::initialize_with_rotation', 'Naming::writes_direct'), ('State::mount_next_linewriter_if_necessary', 'NamingState::writes_direct')):
        b = ctx.body(rf'::{fn}$')
        p = ctx.ip.prov(b.path)
        sites = [(bb, t) for bb, t in b.calls() if re.search(r'remove_or_compress_too_old_logfiles(_impl)?$|start_cleanup_thread$', callee_name(t))]
        for bb, t in sites:
            roots = _arg_roots(ctx, b, p, t, r'^bool$')
            ok = any(r_[0] == 'call' and r_[1].endswith('writes_direct') for r_ in roots) and not any(r_[0] == 'const' for r_ in roots)
            R.check('R07.4', f"{b.path}|flag->{callee_name(t).split('::')[-1]}", ok, "direct flag <= writes_direct()",
                    f"the direct-naming flag handed to {callee_name(t).split('::')[-1]} does not come from writes_direct() ({sorted(map(str, roots))[:3]})", where=b.loc(bb))


# ------------------------------------------------------------------------------------------------ R07.5
def current_spared(R, ctx):
    f = ctx.f
    c = f.consts.get('writers::file_log_writer::state::CURRENT_INFIX')
    if not c or not c.get('val') or c['val'].get('k') != 'str':
        raise CheckError('CURRENT_INFIX constant not found')
    cur = c['val']['v']
    # Numbrs arm: len > 2, first 'r', second ascii digit -> evaluate the arm on the constant with the FDI
    fb = ctx.body(r'^writers::file_log_writer::infix_filter::InfixFilter::filter_infix$')
    models = {
        r'^core::str::<impl str>::len$': lambda I, st, fr, t, args, name: Const(len(cur.encode())),
        r'^core::str::<impl str>::chars$': lambda I, st, fr, t, args, name: Agg('chars', None, [Const(0)]),
        r'as std::iter::Iterator>::next$': None,
    }

    def m_next(I, st, fr, t, args, name):
        a = args[0]
        it = I.read_cell_path(st, a.cell, a.proj) if isinstance(a, Ref) else a
        if isinstance(it, Agg) and it.adt == 'chars':
            i = it.fields[0].v
            I.write_loc(st, a.cell, list(a.proj) + [('f', 0, None, None)], Const(i + 1))
            if i < len(cur):
                return Agg('std::option::Option', 'Some', [Const(cur[i], 'char')])
            return Agg('std::option::Option', 'None', [])
        return NotImplemented
    models[r'as std::iter::Iterator>::next$'] = m_next
    models[r'^(core|std)::char::methods::<impl char>::is_ascii_digit$'] = lambda I, st, fr, t, args, name: Const(_deref_const(I, st, args[0]).isdigit())
    I = FDI(f, models=models)
    rows = I.run(fb.path, args=[Ref_to(I, Agg('writers::file_log_writer::infix_filter::InfixFilter', 'Numbrs', [])), None])
    # simpler: run with self fixed through setup
    res = set()

    def setup(I_, st, fr):
        ref = st.heap[fr.cells[1]]
        st.heap[ref.cell] = Agg('writers::file_log_writer::infix_filter::InfixFilter', 'Numbrs', [])
    I = FDI(f, models=models)
    rows = I.run(fb.path, setup=setup)
    for r in rows:
        if r.undecided:
            R.bad('R07.5', 'Numbrs-rejects-rCURRENT', f"UNDECIDED {r.undecided}", where=fb.loc())
            return
        res.add(repr(r.result))
    R.check('R07.5', 'Numbrs-rejects-rCURRENT', res == {'False'}, f"InfixFilter::Numbrs.filter_infix({cur!r}) = false on every path",
            f"the number filter accepts the current-file infix {cur!r} ({sorted(res)}): the file being written becomes a cleanup candidate", where=fb.loc(),
            sample={'CURRENT_INFIX': cur, 'result': sorted(res)})
    cleanup_filter_provenance(R, ctx)


def cleanup_filter_provenance(R, ctx):
    f = ctx.f
    # the filter handed to cleanup derives from naming_state.infix_filter()
    for fn in ('State::initialize_with_rotation', 'State::mount_next_linewriter_if_necessary'):
        b = ctx.body(rf'::{fn}$')
        p = ctx.ip.prov(b.path)
        for bb, t in b.calls():
            if re.search(r'remove_or_compress_too_old_logfiles(_impl)?$|start_cleanup_thread$', callee_name(t)):
                roots = _arg_roots(ctx, b, p, t, r'InfixFilter$')
                ok = any(r_[0] == 'call' and r_[1].endswith('NamingState::infix_filter') for r_ in roots) and \
                    not any(r_[0] == 'agg' and 'InfixFilter' in r_[1] for r_ in roots)
                R.check('R07.5', f"{b.path}|filter->{callee_name(t).split('::')[-1]}", ok, "cleanup filter <= naming_state.infix_filter()",
                        f"the infix filter handed to cleanup is not the naming state's own ({sorted(map(str, roots))[:3]})", where=b.loc(bb))
    ib = ctx.body(r'^writers::file_log_writer::state::NamingState::infix_filter$')
    rows = FDI(f).run(ib.path)
    bad = [r for r in rows if not isinstance(r.result, Agg) or r.result.variant not in ('Numbrs', 'Timstmps') or
           (r.get('variant(self)') == 'Timestamps') != (r.result.variant == 'Timstmps')]
    R.check('R07.5', 'NamingState::infix_filter', not bad and len(rows) >= 3, "numbers -> Numbrs, timestamps -> Timstmps(format)",
            f"NamingState::infix_filter maps {bad[0].get('variant(self)') if bad else '?'} to {bad[0].result if bad else '?'}", where=ib.loc())


def _deref_const(I, st, v):
    v = I.resolve(st, v)
    if isinstance(v, Ref):
        v = I.read_cell_path(st, v.cell, v.proj)
    return v.v if isinstance(v, Const) else '?'


def Ref_to(I, v):
    return None


# ------------------------------------------------------------------------------------------------ R07.6
def shutdown_rules(R, ctx):
    f, cg = ctx.f, ctx.cg
    b = ctx.body(r'^writers::file_log_writer::state::list_and_cleanup::CleanupThreadHandle::shutdown$')
    sends = [bb for bb, t in b.calls() if callee_name(t) == 'std::sync::mpsc::Sender::<T>::send']
    joins = [bb for bb, t in b.calls() if callee_name(t) == 'std::thread::JoinHandle::<T>::join']
    die = False
    for bb in sends:
        t = b.blocks[bb]['term']
        die = die or 'Die' in op_str(t['args'][1]) or any('Die' in rv_str(s['rv']) for blk in b.blocks for s in blk['stmts'] if s['k'] == 'assign' and s['rv']['k'] == 'agg')
    ok = len(sends) == 1 and len(joins) == 1 and C.dominates(b, sends[0], joins[0]) and die and must_pass(b, joins)
    R.check('R07.6', f"{b.path}|die-then-join", ok, "send(Die) dominates join, join on every path",
            "cleanup thread shutdown is not `send(Die) then join` on every path (shutdown() could return while a compression is still running, or block forever)", where=b.loc())
    sb = ctx.body(r'^writers::file_log_writer::state::State::shutdown$')
    reach = cg.reachable([sb.path], spawn=False)
    R.check('R07.6', f"{sb.path}|reaches-cleanup-shutdown", b.path in reach, "State::shutdown reaches CleanupThreadHandle::shutdown",
            "State::shutdown no longer shuts the cleanup thread down", where=sb.loc())
    # the thread body, as decision rows of the thread entry (closure or named function it runs): every Act received is followed by a
    # cleanup run before the next receive / before the thread ends (a request that was queued must not be dropped, e.g. because a
    # Die is already waiting behind it: shutdown would return with rotated files beyond the limit); Die / disconnect leave the loop
    spawner = 'writers::file_log_writer::state::list_and_cleanup::start_cleanup_thread'
    entries = [e for e in spawned_entries(cg, spawner) if e in f.bodies]
    if len(entries) != 1:
        raise CheckError(f"R07.6: {len(entries)} thread entries spawned by start_cleanup_thread")
    RECV = r'Receiver::<T>::(recv|try_recv|recv_timeout)$|Receiver::<T>::(try_iter|iter)$'
    I = FDI(f, effects=[RECV, re.escape(IMPL) + '$', r'as std::iter::Iterator>::next$'], no_inline=[re.escape(IMPL) + '$'], loop_k=1, max_steps=20000)
    rows = I.run(entries[0])
    bad = None
    n_act = n_exit = 0
    for r in rows:
        if r.undecided:
            raise CheckError(f"R07.6 cleanup thread: UNDECIDED {r.undecided}")
        names = [e[0].split('::')[-1] for e in r.effects]
        # the message of each receive (blocking or not)
        isrecv = lambda e_: re.search(r'::(recv|try_recv|recv_timeout)$', e_[0]) is not None
        for i, e in enumerate(r.effects):
            if not isrecv(e):
                continue
            blocking = e[0].endswith('::recv')
            k = i + 1
            okv = r.get(f"variant({e[0]}#{k})")
            msg = r.get(f"variant({e[0]}#{k}.0)")
            nxt_any = next((j for j in range(i + 1, len(r.effects)) if isrecv(r.effects[j])), len(r.effects))
            nxt = next((j for j in range(i + 1, len(r.effects)) if r.effects[j][0].endswith('::recv')), len(r.effects))
            seg = names[i + 1:nxt]
            if okv == 'Ok' and msg == 'Act':
                n_act += 1
                # requests may be coalesced, but a cleanup run must follow before the thread blocks again / ends
                if IMPL.split('::')[-1] not in seg:
                    bad = f"an Act request is received but no cleanup run follows before the thread goes on / ends (effects after it: {seg})"
            elif (okv == 'Err' and blocking) or (okv == 'Ok' and msg not in (None, 'Act')):
                n_exit += 1
                if nxt_any != len(r.effects):
                    bad = ("a stop message (Die) is taken from the channel but the thread goes on receiving: the sender's join() waits forever, with the state lock held"
                           if okv == 'Ok' else "the thread goes on receiving after the channel was disconnected")
                elif blocking and IMPL.split('::')[-1] in seg:
                    bad = "the thread does not leave its loop on Die / disconnect"
    if not bad and (n_act < 1 or n_exit < 1):
        raise CheckError(f"R07.6 cleanup thread: form not recognised (Act rows {n_act}, exit rows {n_exit})")
    R.check('R07.6', 'cleanup-thread-loop', not bad, f"every Act is followed by a cleanup run ({n_act} cases); Die / disconnect leave ({n_exit} cases)",
            f"cleanup thread: {bad}", where=f.bodies[entries[0]].loc())


def gz_sink(R, ctx):
    """`finish()` returning Ok must MEAN that the compressed bytes were handed to the file: the sink below the encoder is the File itself, or -
    if it is a buffering wrapper - the wrapper is flushed (flush / into_inner) with its result guarding the removal of the original.  A
    BufWriter that is merely dropped swallows the write error (ENOSPC ...) of its last block and the original is removed all the same."""
    f = ctx.f
    n = 0
    for x in f.fn_bodies():
        for bb, t in x.calls():
            if not re.search(r'GzEncoder::<W>::new$', callee_name(t)):
                continue
            n += 1
            w = (t['callee'].get('targs') or ['?'])[0]
            key = f"{root_fn(x.path)}|gz-sink"
            if re.fullmatch(r'std::fs::File|&(mut )?std::fs::File', w):
                R.ok('R07.2', key, "the encoder writes straight into the File: finish() = Ok means every compressed byte was accepted by the file")
                continue
            scope = with_closures(f, f.bodies[root_fn(x.path)]) if root_fn(x.path) in f.bodies else [x]
            flushed = False
            for y in scope:
                rem = [b_ for b_, t_ in y.calls() if callee_name(t_) == 'std::fs::remove_file']
                for b_, t_ in y.calls():
                    if re.search(r'BufWriter::<W>::into_inner$|Write>?::flush$|File::sync_(all|data)$', callee_name(t_)):
                        oks = [e[0] for e in ok_block_of_call(y, b_)]
                        if rem and oks and all(any(C.dominates(y, o, r_) for o in oks) for r_ in rem):
                            flushed = True
            R.check('R07.2', key, flushed, f"the encoder's sink {w} is flushed and the result guards the removal of the original",
                    f"the gz encoder writes into {w}, which is neither the File itself nor flushed with its result examined before the original is removed: finish() returns Ok while "
                    "compressed bytes are still buffered, the wrapper's drop swallows a failing write, and the uncompressed original - the only complete copy - is removed; nothing is "
                    "reported on the error channel", where=x.loc(bb))
    if not n:
        raise CheckError("R07.2: no GzEncoder::new site found although the compress feature is enabled")
