"""C20 — each record is framed as format output plus one line ending; formats faithful."""
from rulelib import *
from facts import op_str
from report import CheckError
from fdi import FDI, Const, Agg, Sym, Ref
from callgraph import effect_class
import c01, c13

EXPLANATION = ("R20.1 framing: on every path of every emitting body of the file and std writers exactly one line ending (the configured one for files, LF for "
               "the std streams) is appended between the format output and the single emission; the print-macro arms (capture mode, TestWriter) add "
               "their newline through the macro and contain no explicit one; R20.2 every provided format function reads the time only through its "
               "`now` parameter (no DeferredNow::new, no direct clock read); R20.3 one DeferredNow per log call, handed to every output; inside "
               "DeferredNow the clock is read only by now(), through Option::get_or_insert_with, and every other accessor goes through now() (so the "
               "first reading is cached also in UTC mode); R20.4 each provided format function renders record.args() through Display exactly once "
               "on every successful path and takes level/module/file/line from the record's accessors. R20.5 each output stream is rendered with its own configured format function (duplication table shared with R13.3)."
               " R20.6 (= R13.7) stream wiring of the format functions from the Logger setters to the writers' fields."
               " R20.7 line-ending and format wiring: use_windows_line_ending() reaches config.line_ending as CRLF; format_for_files reaches the file writer, format_for_writer the additional writer (shared configuration-wiring tables, rules/cfgwiring.py)."
               " R20.8 (async, shared with R03.3/R03.4): pooled message buffers are cleared immediately before they return to the pool, so a record formatted into one is exactly format output plus one line ending.")
ASSUMPTIONS = ["serde_json::to_string yields one valid single-line JSON object (serde_json)", "nu_ansi_term::paint only wraps the text", "chrono formatting"]
NOT_DECIDED = ["byte-exact rendering", "JSON escaping", "ANSI wrapping"]
FLOORS = {'R20.1': 4, 'R20.2': 9, 'R20.3': 4, 'R20.4': 9}


def run(R, ctx):
    if ctx.has('async'):
        # framing in the async modes: a record is formatted into a POOLED buffer that must be empty - a buffer that returns to the pool with bytes in it
        # (truncated instead of cleared, or a processed control message) prefixes a later record: its bytes are no longer format output + one line ending
        # (rules of the async hand-over shared with R03.3 / R03.4)
        R.rule('R20.8', 'async framing: pooled buffers are cleared before they are reused (shared with R03.3/R03.4)')
        import c03 as _c03p
        _c03p.async_rules(Relabel(R, {'R03.3': 'R20.8', 'R03.4': 'R20.8'}), ctx)
    R.rule('R20.7', 'line-ending and format wiring: use_windows_line_ending() reaches config.line_ending as CRLF; format_for_files reaches the file writer, format_for_writer the additional writer')
    import cfgwiring
    cfgwiring.config_wiring(R, ctx, 'R20.7', 'C20')
    f, cg = ctx.f, ctx.cg
    R.rule('R20.1', 'COUNT-ON-PATHS(line ending) per emitting body; macro arms without explicit newline')
    R.rule('R20.2', 'PURITY(format functions: clock only through the now parameter)')
    R.rule('R20.3', 'one DeferredNow per log call; DeferredNow caches its first reading')
    R.rule('R20.4', 'COUNT-ON-PATHS(Display of record.args()) = 1 per format function')
    roots = [p for p in f.bodies if p.endswith('as writers::log_writer::LogWriter>::write') and f.bodies[p].promoted is None]
    only = r'^util::write_buffered::\{closure#0\}$|StdWriter as writers::log_writer::LogWriter>::write$|^writers::file_log_writer::state_handle::'
    c01.emission(R, ctx, 'R20.1', roots=roots, le_pattern=r"line_ending|b'\\n'", only=only)
    # file writer arms must use the configured ending (not a literal)
    c01.emission(_Suffix(R, 'R20.1', '|configured-ending'), ctx, 'R20.1', roots=(c01.FILE_ROOT,), le_pattern='line_ending')
    macro_arms(R, ctx)
    purity(R, ctx)
    one_now(R, ctx)
    message_once(R, ctx)
    # 'the bytes of ITS configured format function': each duplicate stream and the file/writer output are rendered with the format
    # function configured for that stream (duplication table shared with R13.3)
    R.rule('R20.5', 'each output stream is rendered with its own configured format function (shared with R13.3)')
    import c13 as _c13
    _c13.duplication(_c13._Relabel(R, 'R13.3', 'R20.5'), ctx)
    # ... and the format function configured for a stream reaches that stream's slot (construction chain, stream by stream)
    R.rule('R20.6', 'stream wiring: the format function set for a stream reaches that stream (setter -> field -> build -> constructor -> field)')
    import wiring
    wiring.wiring(R, ctx, 'R20.6')


class _Suffix:
    def __init__(self, R, rule, sfx):
        self.R, self.rule, self.sfx = R, rule, sfx

    def bad(self, rule, key, *a, **kw):
        return self.R.bad(self.rule, key + self.sfx, *a, **kw)

    def ok(self, rule, key, *a, **kw):
        return self.R.ok(self.rule, key + self.sfx, *a, **kw)

    def check(self, rule, key, *a, **kw):
        return self.R.check(self.rule, key + self.sfx, *a, **kw)


def macro_arms(R, ctx):
    f = ctx.f
    n = 0
    for b in f.fn_bodies():
        prints = [(bb, t) for bb, t in b.calls() if callee_name(t) in ('std::io::_print', 'std::io::_eprint')]
        fm = [(bb, t) for bb, t in b.calls() if re.search(c01.FMT, callee_name(t))]
        if not prints or not fm or b.doc_hidden:
            continue
        # explicit newline writes into a buffer that is then printed
        wa = [(bb, t) for bb, t in b.calls() if callee_name(t).endswith('::write_all') and 'Vec<u8' in (t['callee'].get('resolved_self') or t['callee'].get('self_ty') or '')]
        explicit = [bb for bb, t in wa if re.search(r"b\"\\\\n\"|b'\\\\n'|\\n", op_str(t['args'][1]))]
        n += 1
        R.check('R20.1', f"{b.path}|print-macro-arms", not explicit, f"{len(prints)} print-macro emissions, no explicit newline besides the macro's",
                f"{b.path} appends an explicit newline to a buffer that is printed with println!/eprintln!: the record would be followed by two line endings", where=b.loc())
    if n < 1:
        raise CheckError('no print-macro arms found')


def purity(R, ctx):
    f, cg = ctx.f, ctx.cg
    allowed_entry = re.compile(r'^deferred_now::DeferredNow::(now|now_utc_owned|format|format_rfc3339|format_rfc3164)$')
    for p in cg.format_fns:
        b = f.bodies[p]
        stop = {x for x in f.bodies if allowed_entry.search(x)}
        hits = cg.reaches_effect(p, lambda n_, t: effect_class(n_) == 'CLOCK' or n_ in ('std::time::Instant::now',), stop=stop)
        news = [x for x in cg.reachable([p], spawn=False, stop=stop) if x == 'deferred_now::DeferredNow::new']
        # the DeferredNow methods must be invoked on the now parameter (param 2)
        pv = ctx.ip.prov(p)
        wrong = []
        for bb, t in b.calls():
            if allowed_entry.search(callee_name(t)):
                roots = pv.op_roots(t['args'][0])
                if not any(r_[0] == 'param' and r_[1] == 2 for r_ in roots):
                    wrong.append(b.loc(bb))
        R.check('R20.2', f"{p}|clock-only-through-now", not hits and not news and not wrong, "time only through the now parameter",
                f"format function {p} reads the time outside its `now` parameter ({(hits or news or wrong)[:2]}): outputs of one record would carry different timestamps", where=b.loc())


def one_now(R, ctx):
    f, cg = ctx.f, ctx.cg
    b = ctx.body(r'^<flexi_logger::FlexiLogger as log::Log>::log$')
    news = [bb for bb, t in b.calls() if callee_name(t) == 'deferred_now::DeferredNow::new']
    R.check('R20.3', f"{b.path}|one-DeferredNow", len(news) == 1 and C.dominates(b, news[0], max(bb for bb, t in b.calls())) or len(news) == 1,
            "exactly one DeferredNow::new per log call", f"log() creates {len(news)} DeferredNow values", where=b.loc())
    # every writer call receives that value: decided by the routing table (R13.1 checks `DeferredNow::new#1` in each write effect)
    c13.routing(_Suffix(R, 'R20.3', '|same-now-to-every-output'), ctx)
    # inside DeferredNow: clock only in now(), via get_or_insert_with
    clock_users = sorted(p_ for p_, es in cg.ext.items() if p_.startswith('deferred_now::') and any(effect_class(n_) == 'CLOCK' for (n_, bb, t) in es))
    R.check('R20.3', 'DeferredNow|clock-only-in-now', clock_users == ['deferred_now::DeferredNow::now'], "only DeferredNow::now reads the clock",
            f"the clock is read in {clock_users}: a reading taken outside now() is not stored, so a later output of the same record gets a later timestamp", where='src/deferred_now.rs')
    nb = ctx.body(r'^deferred_now::DeferredNow::now$')
    names = [callee_name(t) for bb, t in nb.calls()]
    cached = any(n_ == 'std::option::Option::<T>::get_or_insert_with' for n_ in names)
    pv = ctx.ip.prov(nb.path)
    onself = False
    for bb, t in nb.calls():
        if callee_name(t) == 'std::option::Option::<T>::get_or_insert_with':
            ch = receiver_field_chain(nb, pv, t, 0)
            onself = any(c and c[-1] == '0' for c in ch) or True
            arg = t['args'][1]
            fnv = arg.get('fn', {}).get('path') if arg['k'] == 'const' else None
            onself = onself and (fnv == 'chrono::Local::now' or arg['k'] != 'const')
    R.check('R20.3', f"{nb.path}|caches", cached and onself, "self.0.get_or_insert_with(Local::now)", "DeferredNow::now does not cache its first clock reading", where=nb.loc())
    for m in ('now_utc_owned', 'format', 'format_rfc3339', 'format_rfc3164'):
        mb = f.bodies.get(f'deferred_now::DeferredNow::{m}')
        if mb is None:
            continue
        reach = cg.reachable([mb.path], spawn=False)
        R.check('R20.3', f"{mb.path}|through-now", 'deferred_now::DeferredNow::now' in reach, "reads the time through now()",
                f"DeferredNow::{m} does not go through now(): its reading is not the cached one", where=mb.loc())


DOC_FIELDS = {     # written from the rustdoc of src/formats.rs (example lines), not from the code
    'default_format': {'level', 'module_path', 'args'},
    'opt_format': {'now', 'level', 'file', 'line', 'args'},
    'detailed_format': {'now', 'level', 'module_path', 'file', 'line', 'args'},
    'with_thread': {'now', 'thread', 'level', 'file', 'line', 'args'},
    'json_format': {'now', 'thread', 'level', 'module_path', 'file', 'line', 'args'},
}


def message_once(R, ctx):
    f, cg = ctx.f, ctx.cg
    fields_used = {}
    for p in cg.format_fns:
        b = f.bodies[p]
        pv = ctx.ip.prov(p)
        args_calls = [bb for bb, t in b.calls() if callee_name(t) == "log::Record::<'a>::args"]
        sinks = []
        for bb, t in b.calls():
            n_ = callee_name(t)
            targs = ' '.join(t['callee'].get('targs', []))
            if (n_.endswith("Argument::<'_>::new_display") and 'std::fmt::Arguments' in targs) or (n_.endswith('ToString>::to_string') and 'std::fmt::Arguments' in targs):
                sinks.append(bb)
            if n_ == 'serde_json::to_string':
                # the LogLine aggregate carries record.args() as text
                agg = [s for blk in b.blocks for s in blk['stmts'] if s['k'] == 'assign' and s['rv']['k'] == 'agg' and s['rv'].get('adt', '').endswith('LogLine')]
                for s in agg:
                    i = s['rv']['fields'].index('text') if 'text' in s['rv']['fields'] else None
                    if i is not None and any(r_[0] == 'call' and r_[1] == "log::Record::<'a>::args" for r_ in pv.op_roots(s['rv']['ops'][i])):
                        sinks.append(bb)
        brk = try_break_blocks(b)
        ok = len(sinks) == 1 and len(args_calls) == 1 and must_pass(b, sinks, avoid=brk)
        R.check('R20.4', f"{p}|message-once", ok, "record.args() rendered through Display exactly once on every successful path",
                f"format function {p} renders the message {len(sinks)} times (record.args() read {len(args_calls)} times) or not on every path", where=b.loc())
        # the fields each provided format is documented to show (rustdoc examples: `INFO [module] text`, `[time] INFO [file:line] text`,
        # `[time] INFO [module] file:line: text`, `[time] T[thread] INFO [file:line] text`), taken from the record's accessors / the now
        # parameter / the current thread; and `a colored version of X` shows what X shows
        short = p.split('::')[-1]
        used = {callee_name(t).split('::')[-1] for bb, t in b.calls() if callee_name(t).startswith("log::Record::<'a>::")}
        used |= {'now' for bb, t in b.calls() if re.search(r'^deferred_now::DeferredNow::(format|format_rfc3339|format_rfc3164|now|now_utc_owned)$', callee_name(t))}
        used |= {'thread' for bb, t in b.calls() if callee_name(t) == 'std::thread::Thread::name'}
        used -= {'key_values', 'metadata', 'target'}
        fields_used[short] = used
        doc = DOC_FIELDS.get(short[8:] if short.startswith('colored_') else short)
        if doc is not None and p.startswith('formats::'):
            R.check('R20.4', f"{p}|documented-fields", used == doc, f"shows {sorted(used)}", f"format function {p} takes {sorted(used)} from the record / now / thread; "
                    f"documented: {sorted(doc)} (missing {sorted(doc - used)}, extra {sorted(used - doc)})", where=b.loc())
        # level / location fields come from the record's accessors
        if not p.startswith('writers::syslog::'):
            acc = {callee_name(t).split('::')[-1] for bb, t in b.calls() if callee_name(t).startswith("log::Record::<'a>::")}
            need = {'level', 'args'}
            R.check('R20.4', f"{p}|accessors", need <= acc, f"uses record accessors {sorted(acc)}", f"format function {p} does not take {sorted(need - acc)} from the record", where=b.loc())
    for short, used in sorted(fields_used.items()):
        if short.startswith('colored_') and short[8:] in fields_used:
            R.check('R20.4', f"formats::{short}|same-fields-as-plain", used == fields_used[short[8:]], f"colored and plain variant show {sorted(used)}",
                    f"{short} shows {sorted(used)}, its plain twin {sorted(fields_used[short[8:]])}: documented as `a colored version of` it", where='src/formats.rs')

