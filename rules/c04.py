"""C04 — flush, shutdown and handle drop leave no accepted record behind."""
from rulelib import *
from report import CheckError
from fdi import FDI, Const, Agg, Sym, Ref
import table as T

EXPLANATION = ("R04.1 must-reach chains, decided as decision tables of every link: LoggerHandle::shutdown / the handle's Drop / FileLogWriter's and "
               "FileLogWriterHandle's Drop reach, for the primary writer and every additional writer, flush-then-shutdown; PrimaryWriter::shutdown "
               "flushes first; MultiWriter fans out to both writers; sync file writer: lock -> State::shutdown -> cleanup-thread shutdown + "
               "Write::flush of the active writer; async file writer: send(SHUTDOWN payload) then join of the writer thread, whose SHUTDOWN arm "
               "runs State::shutdown before leaving and whose FLUSH arm flushes; flush() of the sync modes reaches Write::flush under the state "
               "lock; allowed skips: poisoned lock, component None, state Initial; R04.2 no type that is both Clone and Drop shuts writers down "
               "in its Drop without last-owner evidence; R04.3 no mem::forget/leak; R04.4 consumer loops leave only on disconnect or SHUTDOWN. R04.4 the message arms are decided on the rows of the consumer (after FLUSH a flush, after a data message a write, before the next receive). R04.1 also: MultiWriter::flush/shutdown examine the additional writer whenever the file writer's call succeeded (not `else if`)."
               " R04.6 (shared with R01.4): records buffered before a rotation are flushed by the writer swap before the cleanup may remove their file.")
ASSUMPTIONS = ["BufWriter::flush writes all buffered bytes to the File (std)", "channels are FIFO per sender (crossbeam)", "custom writers' own shutdown is user code"]
NOT_DECIDED = ["durability beyond flush (page cache)", "timing of the flusher threads (they only add flushes)", "custom writers' shutdown"]
FLOORS = {'R04.1': 9, 'R04.2': 1, 'R04.3': 1}

SHUT = r'::shutdown$'


def rows_of(ctx, path, eff, ni=None, k=1, **kw):
    I = FDI(ctx.f, effects=eff, no_inline=ni if ni is not None else eff, loop_k=k, **kw)
    rows = I.run(path)
    return rows, I


def names(r):
    return [e[0].split('::')[-1] for e in r.effects]


def run(R, ctx):
    R.rule('R04.1', 'MUST-FOLLOW chains (decision table of every link of the flush/shutdown paths)')
    R.rule('R04.2', 'SIBLINGS: Clone + Drop must not shut down without last-owner evidence')
    R.rule('R04.3', 'no forget/leak of writers')
    R.rule('R04.4', 'consumer loops: exits and arms')
    R.rule('R04.5', 'MUST-HOLD(mutex of the JoinHandle, join) in async shutdown')
    handle_level(R, ctx)
    primary_level(R, ctx)
    file_writer_level(R, ctx)
    std_writer_level(R, ctx)
    consumer_loops(R, ctx)
    join_under_handle_lock(R, ctx)
    clone_drop(R, ctx)
    # records accepted before a rotation sit in the old BufWriter until the swap drops (= flushes) it: the swap precedes the cleanup, which may
    # compress and remove the file those records belong to (shared with R01.4)
    R.rule('R04.6', 'rotation: the old writer is flushed by the swap before the cleanup may remove its file (shared with R01.4)')
    import c01 as _c01
    _c01.swap_rules(Relabel(R, {'R01.4': 'R04.6'}), ctx)
    leaks = [(p_, n_) for p_, es in ctx.cg.ext.items() for (n_, bb, t) in es if re.search(r'^std::mem::forget$|ManuallyDrop::<T>::new$|Box::<T(, A)?>::leak$', n_)]
    R.check('R04.3', 'no-forget-or-leak', not leaks, "no mem::forget / ManuallyDrop / Box::leak", f"{leaks[:2]}: a leaked writer is never flushed", where=None)


def fan_out(R, ctx, path, what, primary_eff, key):
    """function must call `what` on the primary writer and on every element of other_writers.values()"""
    b = ctx.f.bodies.get(path)
    if b is None:
        raise CheckError(f"R04.1: anchor {path} not found (renamed beyond what the baseline matching resolves, or removed): the fan-out rule cannot be decided")
    rows, I = rows_of(ctx, path, [what, r'Iterator>::next$', r'HashMap::<K, V, S(, A)?>::values$'], ni=[what], k=2)
    bad = None
    n = 0
    for r in rows:
        if r.undecided:
            bad = 'UNDECIDED: ' + r.undecided
            break
        ns = names(r)
        effs = r.effects
        verb = what.split('::')[-1].rstrip('$')
        prim = [e for e in effs if e[0].split('::')[-1] == verb and 'primary_writer' in e[1][0]]
        if len(prim) != 1:
            bad = f"{verb} is called {len(prim)} times on the primary writer"
            break
        elems = [i for i, e in enumerate(effs) if e[0].endswith('::next')]
        somes = [v for a, v in r.cond if a.startswith('variant(') and 'Iterator>::next#' in a]
        if not elems or 'other_writers' not in r.long(effs[elems[0]][1][0]):
            bad = "the additional writers are not iterated"
            break
        per = 0
        for j, ei in enumerate(elems):
            if j < len(somes) and somes[j] == 'Some':
                seg = effs[ei + 1:(elems[j + 1] if j + 1 < len(elems) else len(effs))]
                c = [e for e in seg if e[0].split('::')[-1] == verb and f"next#{ei + 1}" in e[1][0]]
                if len(c) != 1:
                    bad = f"{verb} is called {len(c)} times on an additional writer"
                per += 1
        if somes and somes[-1] != 'None':
            bad = "the loop over the additional writers can end early"
        if bad:
            break
        n += 1
    R.check('R04.1', key, not bad and n >= 2, f"{n} rows: {what.split('::')[-1].rstrip('$')} on the primary writer and on each additional writer",
            f"{path}: {bad}", where=b.loc(), sample={'fn': path, 'rows': n})


def handle_level(R, ctx):
    f = ctx.f
    fan_out(R, ctx, 'logger_handle::LoggerHandle::shutdown', SHUT, 'primary', 'LoggerHandle::shutdown|fan-out')
    fan_out(R, ctx, 'logger_handle::LoggerHandle::flush', r'::flush$', 'primary', 'LoggerHandle::flush|fan-out')
    fan_out(R, ctx, '<flexi_logger::FlexiLogger as log::Log>::flush', r'::flush$', 'primary', 'Log::flush|fan-out')
    # the handle's drop (whatever type carries it): some Drop impl reachable from dropping a LoggerHandle must fan out shutdown
    drops = [b for b in f.fn_bodies() if b.impl_trait == 'std::ops::Drop' and b.path.startswith('<logger_handle::')]
    if not drops:
        R.bad('R04.1', 'handle-drop|fan-out', "no Drop implementation in logger_handle: dropping the last handle no longer shuts the writers down", where=None)
    for d in drops:
        fan_out(R, ctx, d.path, SHUT, 'primary', f"{d.path}|fan-out")
    for t_ in ('writers::file_log_writer::FileLogWriter', 'writers::file_log_writer::builder::FileLogWriterHandle'):
        d = [b for b in f.fn_bodies() if b.impl_trait == 'std::ops::Drop' and b.impl_self == t_]
        ok = bool(d) and any('writers::file_log_writer::state_handle::StateHandle::shutdown' in ctx.cg.reachable([x.path], spawn=False) for x in d)
        ok = ok and all(must_pass(x, [bb for bb, t in x.calls() if re.search(SHUT, callee_name(t))]) for x in d)
        R.check('R04.1', f"Drop for {t_}", ok, "drop reaches StateHandle::shutdown on every path", f"dropping {t_} does not shut the file writer down", where=d[0].loc() if d else None)


def primary_level(R, ctx):
    f = ctx.f
    path = 'primary_writer::PrimaryWriter::shutdown'
    rows, I = rows_of(ctx, path, [r'PrimaryWriter::flush$', SHUT])
    b = f.bodies[path]
    bad = None
    seen = set()
    for r in rows:
        if r.undecided:
            bad = 'UNDECIDED: ' + r.undecided
            break
        ns = names(r)
        seen.add(r.get('variant(self)'))
        if ns != ['flush', 'shutdown']:
            bad = f"variant {r.get('variant(self)')}: steps {ns}, documented ['flush', 'shutdown']"
            break
        if not r.effects[1][1][0].startswith('&self.0'):
            bad = "shutdown is not called on the wrapped writer"
    R.check('R04.1', f"{path}|flush-then-shutdown", not bad and seen >= {'Std', 'Multi', 'Test'}, "flush, then the variant's shutdown, for all variants",
            f"{path}: {bad}", where=b.loc())
    for path, verb in (('<primary_writer::multi_writer::MultiWriter as writers::log_writer::LogWriter>::shutdown', 'shutdown'),
                       ('<primary_writer::multi_writer::MultiWriter as writers::log_writer::LogWriter>::flush', 'flush')):
        rows, I = rows_of(ctx, path, [rf'::{verb}$'])
        b = f.bodies[path]
        bad = None
        for r in rows:
            if r.undecided:
                bad = 'UNDECIDED: ' + r.undecided
                break
            fw = r.get('variant(self.o_file_writer)')
            ow = r.get('variant(self.o_other_writer)')
            calls = [e for e in r.effects if e[0].split('::')[-1] == verb]
            failed = [v for a, v in r.cond if a.startswith('variant(') and f"::{verb}#" in a and v == 'Err']
            on_file = [e for e in calls if 'o_file_writer' in e[1][0]]
            on_other = [e for e in calls if 'o_other_writer' in e[1][0]]
            if fw == 'Some' and len(on_file) != 1:
                bad = f"file writer present but {verb} called {len(on_file)} times on it"
            if fw == 'Some' and ow == 'Some' and not failed and len(on_other) != 1:
                bad = f"other writer present but {verb} called {len(on_other)} times on it"
            if ow is None and fw == 'Some' and not failed:
                bad = f"with a file writer present (and its {verb} successful) the other writer is not even examined: it is never {verb}ed when both are configured"
        R.check('R04.1', f"{path}|fan-out", not bad and len(rows) >= 3, f"{len(rows)} rows: {verb} on the file writer and on the other writer",
                f"{path}: {bad}", where=b.loc())


def file_writer_level(R, ctx):
    f = ctx.f
    path = 'writers::file_log_writer::state_handle::StateHandle::shutdown'
    EFF = [r'State::shutdown$', r'pop_buffer$', r'Extend<.*>>::extend$', r'Sender::<T>::(send|try_send)$', r'Mutex::<T>::lock$', r'JoinHandle::<T>::join$', r'Option::<T>::take$',
           r'Vec::<T, A>::(push|extend_from_slice)$']
    rows, I = rows_of(ctx, path, EFF, ni=[r'State::shutdown$', r'pop_buffer$'])
    b = f.bodies[path]
    bad = None
    seen = set()
    for r in rows:
        if r.undecided:
            bad = 'UNDECIDED: ' + r.undecided
            break
        v = r.get('variant(self)') or ('Sync' if not ctx.has('async') else None)
        seen.add(v)
        ns = names(r)
        lock_res = next((val for a, val in r.cond if a.startswith('variant(std::sync::Mutex::<T>::lock#') and a.count('.') == 0), None)
        if v == 'Sync':
            exp = ['lock', 'shutdown'] if lock_res == 'Ok' else ['lock']
            if ns != exp or (lock_res == 'Ok' and 'am_state' not in r.long(r.effects[0][1][0])):
                bad = f"sync: steps {ns}, documented {exp} on am_state"
        elif v == 'Async':
            send_i = [i for i, n_ in enumerate(ns) if n_ in ('send', 'try_send')]
            join_i = [i for i, n_ in enumerate(ns) if n_ == 'join']
            payload_ok = any(e[0].split('::')[-1] in ('extend', 'extend_from_slice', 'push') and ("b'S'" in e[1][1] or 'ASYNC_SHUTDOWN' in e[1][1]) for e in r.effects)
            handle_some = any(a.startswith('variant(std::sync::Mutex::<T>::lock#') and a.count('.') >= 1 and val == 'Some' for a, val in r.cond)
            if len(send_i) != 1 or not payload_ok:
                bad = f"async: the SHUTDOWN message is not sent exactly once (sends: {len(send_i)}, payload is the shutdown constant: {payload_ok})"
            elif join_i and join_i[0] < send_i[0]:
                bad = "async: join before the SHUTDOWN message is sent (dead-lock: the writer thread never stops)"
            elif lock_res == 'Ok' and handle_some and len(join_i) != 1:
                bad = "async: the writer thread is not joined although its handle is present (shutdown returns before the queued records are written)"
            elif join_i and 'mo_thread_handle' not in r.long(r.effects[join_i[0]][1][0]) and 'lock#' not in r.effects[join_i[0]][1][0]:
                bad = "async: join on something else than the stored thread handle"
    need = {'Sync'} | ({'Async'} if ctx.has('async') else set())
    R.check('R04.1', f"{path}|table", not bad and seen >= need, f"{len(rows)} rows: sync lock->State::shutdown; async send(SHUTDOWN) then join",
            f"StateHandle::shutdown: {bad or 'variant missing'}", where=b.loc(), sample={'rows': len(rows), 'variants': sorted(map(str, seen))})

    path = 'writers::file_log_writer::state::State::shutdown'
    rows, I = rows_of(ctx, path, [r'RotationState::shutdown$', r'::flush$', r'::write_all$'])
    b = f.bodies[path]
    bad = None
    for r in rows:
        if r.undecided:
            bad = 'UNDECIDED: ' + r.undecided
            break
        ns = names(r)
        if r.get('variant(self.inner)') == 'Active':
            exp = (['shutdown'] if r.get('variant(self.inner.0)') == 'Some' else []) + ['flush']
            if ns != exp or not r.effects[-1][1][0].endswith('.inner.1'):
                bad = f"Active state: steps {ns}, documented {exp} (flush of the active writer)"
        elif ns:
            bad = f"Initial state: steps {ns}"
    R.check('R04.1', f"{path}|table", not bad and len(rows) >= 3, "Active: [cleanup shutdown,] flush of the active writer; Initial: nothing",
            f"State::shutdown: {bad}", where=b.loc())

    path = 'writers::file_log_writer::state::State::flush'
    rows, I = rows_of(ctx, path, [r'::flush$'])
    b = f.bodies[path]
    bad = None
    for r in rows:
        ns = names(r)
        if r.undecided:
            bad = 'UNDECIDED: ' + r.undecided
        elif r.get('variant(self.inner)') == 'Active' and (ns != ['flush'] or not r.effects[0][1][0].endswith('.inner.1') or 'flush#1' not in repr(r.result)):
            bad = f"Active: steps {ns}, result {r.result!r}; documented: flush the active writer and return its result"
    R.check('R04.1', f"{path}|table", not bad and len(rows) >= 2, "Active: Write::flush of the active writer, result returned", f"State::flush: {bad}", where=b.loc())

    path = 'writers::file_log_writer::state_handle::StateHandle::flush'
    EFF = [r'State::flush$', r'pop_buffer$', r'Extend<.*>>::extend$', r'Sender::<T>::(send|try_send)$', r'Mutex::<T>::lock$', r'Vec::<T, A>::(push|extend_from_slice)$']
    rows, I = rows_of(ctx, path, EFF, ni=[r'State::flush$', r'pop_buffer$'])
    b = f.bodies[path]
    bad = None
    for r in rows:
        if r.undecided:
            bad = 'UNDECIDED: ' + r.undecided
            break
        v = r.get('variant(self)') or ('Sync' if not ctx.has('async') else None)
        ns = names(r)
        lock_res = next((val for a, val in r.cond if a.startswith('variant(std::sync::Mutex::<T>::lock#')), None)
        if v == 'Sync':
            exp = ['lock', 'flush'] if lock_res == 'Ok' else ['lock']
            if ns != exp:
                bad = f"sync: steps {ns}, documented {exp}"
            fl = next((val for a, val in r.cond if a.startswith('variant(') and 'State::flush#' in a), None)
            if fl == 'Err' and not (isinstance(r.result, Agg) and r.result.variant == 'Err'):
                bad = "sync: a failed flush is not returned"
        else:
            payload_ok = any(e[0].split('::')[-1] in ('extend', 'extend_from_slice', 'push') and ("b'F'" in e[1][1] or 'ASYNC_FLUSH' in e[1][1]) for e in r.effects)
            if ns.count('send') != 1 or not payload_ok:
                bad = f"async: the FLUSH message is not sent exactly once ({ns})"
    R.check('R04.1', f"{path}|table", not bad and len(rows) >= 2, "sync: lock -> State::flush (error returned); async: send(FLUSH)", f"StateHandle::flush: {bad}", where=b.loc())


def std_writer_level(R, ctx):
    f = ctx.f
    path = '<primary_writer::std_writer::StdWriter as writers::log_writer::LogWriter>::flush'
    EFF = [r'::flush$', r'Mutex::<T>::lock$', r'StdStream::lock$', r'pop_buffer$', r'Extend<.*>>::extend$', r'Sender::<T>::(send|try_send)$']
    rows, I = rows_of(ctx, path, EFF, ni=[r'pop_buffer$', r'StdStream::lock$'])
    b = f.bodies[path]
    bad = None
    seen = set()
    for r in rows:
        if r.undecided:
            bad = 'UNDECIDED: ' + r.undecided
            break
        v = r.get('variant(self.writer)')
        seen.add(v)
        ns = names(r)
        if v == 'Unbuffered' and not (ns[:1] == ['lock'] and 'flush' in ns[1:]):
            bad = f"Unbuffered: {ns}"
        if v == 'Buffered':
            lock_res = next((val for a, val in r.cond if a.startswith('variant(std::sync::Mutex::<T>::lock#')), None)
            if lock_res == 'Ok' and ns != ['lock', 'flush']:
                bad = f"Buffered: steps {ns}, documented lock -> BufWriter::flush"
        if v == 'Async':
            payload_ok = any(e[0].split('::')[-1] == 'extend' and ("b'F'" in e[1][1] or 'ASYNC_FLUSH' in e[1][1]) for e in r.effects)
            if ns.count('send') != 1 or not payload_ok:
                bad = f"Async: FLUSH message not sent exactly once ({ns})"
    R.check('R04.1', f"{path}|table", not bad and 'Buffered' in seen, f"{len(rows)} rows", f"StdWriter::flush: {bad}", where=b.loc())
    if ctx.has('async'):
        path = '<primary_writer::std_writer::StdWriter as writers::log_writer::LogWriter>::shutdown'
        EFF = [r'pop_buffer$', r'Extend<.*>>::extend$', r'Sender::<T>::(send|try_send)$', r'Mutex::<T>::lock$', r'JoinHandle::<T>::join$', r'Option::<T>::take$']
        rows, I = rows_of(ctx, path, EFF, ni=[r'pop_buffer$'])
        b = f.bodies[path]
        bad = None
        n_async = 0
        for r in rows:
            if r.undecided:
                bad = 'UNDECIDED: ' + r.undecided
                break
            if r.get('variant(self.writer)') != 'Async':
                continue
            n_async += 1
            ns = names(r)
            payload_ok = any(e[0].split('::')[-1] == 'extend' and ("b'S'" in e[1][1] or 'ASYNC_SHUTDOWN' in e[1][1]) for e in r.effects)
            handle_some = any(a.startswith('variant(std::sync::Mutex::<T>::lock#') and a.count('.') >= 1 and val == 'Some' for a, val in r.cond)
            if ns.count('send') != 1 or not payload_ok:
                bad = f"the SHUTDOWN message is not sent exactly once ({ns})"
            elif 'join' in ns and ns.index('join') < ns.index('send'):
                bad = "join before send"
            elif handle_some and ns.count('join') != 1:
                bad = "the writer thread is not joined although its handle is present"
        R.check('R04.1', f"{path}|table", not bad and n_async >= 2, f"{n_async} async rows: send(SHUTDOWN) then join", f"StdWriter::shutdown: {bad}", where=b.loc())


def consumer_loops(R, ctx):
    f, cg = ctx.f, ctx.cg
    if not ctx.has('async'):
        return
    for spawner, need_shutdown in (('writers::file_log_writer::state::start_async_fs_writer', True), ('threads::start_async_stdwriter', False)):
        clo = [f.bodies[e] for e in spawned_entries(cg, spawner) if e in f.bodies and cg.reaches_effect(e, lambda n_, t_: n_.endswith('Receiver::<T>::recv'), spawn=False)]
        if len(clo) != 1:
            raise CheckError(f"R04.4: the consumer thread of {spawner} (a spawned entry reaching a blocking recv) is not unique ({len(clo)}): form not recognised")
        x = clo[0]
        EFF = [r'Receiver::<T>::recv$', r'State::(flush|shutdown|write_buffer)$', r'::flush$', r'::write_all$', r'Vec::<T, A>::clear$', r'ArrayQueue::<T>::push$', r'Mutex::<T>::lock$']
        I = FDI(f, effects=EFF, no_inline=[r'State::(flush|shutdown|write_buffer)$', r'util::eprint_err$', r'StdStream::deref_mut$'], loop_k=1, max_steps=6000)
        rows = I.run(x.path)
        bad = None
        kinds = set()
        for r in rows:
            if r.undecided:
                bad = 'UNDECIDED: ' + r.undecided
                break
            # a complete row = the closure returned: how did the loop end?
            ns = names(r)
            recv_res = [v for a, v in r.cond if a.startswith('variant(') and 'Receiver::<T>::recv#' in a and a.count('.') == 0]
            msg_kind = []
            for a, v in r.cond:
                m_ = re.match(r"^crossbeam_channel::Receiver::<T>::recv#\d+\.0\[0\]$", a)
                if m_:
                    msg_kind.append(('S' if str(v) == '83' else 'F' if str(v) == '70' else 'data', True))
                if ("b'S'" in a or 'ASYNC_SHUTDOWN' in a) and 'recv#' in a:
                    msg_kind.append(('S', v in (True, 'eq')))
            ended_by_disconnect = recv_res and recv_res[-1] == 'Err'
            ended_by_shutdown = any(k_ == 'S' and val for k_, val in msg_kind)
            if not (ended_by_disconnect or ended_by_shutdown):
                bad = f"the consumer loop can end without disconnect or SHUTDOWN message (conditions: {[c_[0][-60:] for c_ in r.cond][-3:]})"
                break
            kinds.add('disconnect' if ended_by_disconnect else 'shutdown')
            if ended_by_shutdown and need_shutdown:
                if 'shutdown' not in ns:
                    bad = "the SHUTDOWN arm leaves the loop without State::shutdown (buffered records are never flushed)"
                    break
        # FLUSH arm must flush; data arm must write: inspect all rows incl. cut ones via a second run that records arms
        R.check('R04.4', f"{spawner}|consumer-exits", not bad and kinds >= {'disconnect', 'shutdown'}, f"{len(rows)} complete rows: the loop ends on disconnect or SHUTDOWN"
                + (" after State::shutdown" if need_shutdown else ''), f"{spawner}: {bad or 'an exit kind is missing: ' + str(kinds)}", where=x.loc())
        # arms, on the rows (the dispatch may live in the loop body or in a helper it calls): after a FLUSH message a flush effect follows
        # before the next receive, after a data message a write; both go on to the next receive
        arm_bad = None
        seen_arms = set()
        for r in rows:
            effs = r.effects
            nm = [e[0].split('::')[-1] for e in effs]
            recvs_i = [i for i, n_ in enumerate(nm) if n_ == 'recv']
            for j, ri in enumerate(recvs_i):
                if j + 1 >= len(recvs_i):
                    continue            # the last receive of the row: exit / cut
                seg = nm[ri + 1:recvs_i[j + 1]]
                k = ri + 1
                kind = 'data'
                for a_, v_ in r.cond:
                    if re.match(rf"^crossbeam_channel::Receiver::<T>::recv#{k}\.0\[0\]$", a_):
                        kind = {'83': 'S', '70': 'F'}.get(str(v_), 'data')
                    info = r.atom_info.get(a_, {})
                    if info.get('kind') == 'ord' and v_ == 'eq':
                        for (c_, o_) in ((info['a'], info['b']), (info['b'], info['a'])):
                            if isinstance(c_, tuple) and c_[0] == 'const' and c_[1] in (b'S', b'F') and T.eff_indices(o_, r'Receiver::<T>::recv$') == {k}:
                                kind = c_[1].decode()
                if kind == 'F':
                    seen_arms.add('F')
                    if 'flush' not in seg:
                        arm_bad = f"after a FLUSH message no flush happens before the next receive (effects: {seg})"
                elif kind == 'data':
                    seen_arms.add('data')
                    if not any(x in seg for x in ('write_buffer', 'write_all')):
                        arm_bad = f"after a data message nothing is written before the next receive (effects: {seg})"
        if not arm_bad and not {'F', 'data'} <= seen_arms:
            raise CheckError(f"R04.4 {spawner}: message arms not recognised on the rows ({seen_arms})")
        R.check('R04.4', f"{spawner}|arms", not arm_bad, "FLUSH arm flushes, data arm writes, both return to recv", f"{spawner}: {arm_bad}", where=x.loc())


def join_under_handle_lock(R, ctx):
    """R04.5: the writer thread is joined while the mutex around its JoinHandle is held, so that a second, overlapping shutdown
    (other clone / drop) blocks until the first one has seen the thread finish, instead of finding None and returning early"""
    if not ctx.has('async'):
        return
    la = ctx.locks
    n = 0
    for b in ctx.f.fn_bodies():
        for bb, t in b.calls():
            if callee_name(t) != 'std::thread::JoinHandle::<T>::join':
                continue
            root = b.path.split('::{closure')[0]
            if not re.search(r'StateHandle::shutdown$|StdWriter as writers::log_writer::LogWriter>::shutdown$', root):
                continue
            held = la.may_held(b.path, bb)
            ok = any('std::option::Option<std::thread::JoinHandle<()>>' in h for h in held)
            n += 1
            R.check('R04.5', f"{root}|join-under-handle-lock", ok, "join executes while the MutexGuard<Option<JoinHandle>> is held",
                    f"{root} joins the writer thread after releasing the mutex around its JoinHandle: a second shutdown()/handle drop that overlaps finds None and returns "
                    "while the thread is still writing the backlog (records accepted before are not yet in the output when shutdown returns)", where=b.loc(bb),
                    witness=f"locks held at the join: {sorted(held)}")
    if n == 0:
        R.bad('R04.5', 'join-sites', "no join of an async writer thread found in the shutdown paths", where=None)


def clone_drop(R, ctx):
    f, cg = ctx.f, ctx.cg
    clones = {i['self_adt'] or i['self_ty'] for i in f.impls if i['trait'] == 'std::clone::Clone'}
    n = 0
    for i in f.impls:
        if i['trait'] != 'std::ops::Drop':
            continue
        ty = i['self_adt'] or i['self_ty']
        if ty not in clones:
            continue
        n += 1
        dp = [it['path'] for it in i['items'] if it['name'] == 'drop']
        stops = []
        for d in dp:
            hits = cg.reaches_effect(d, lambda n_, t: n_ in ('std::thread::JoinHandle::<T>::join',) or bool(re.search(r'Sender::<T>::send$', n_)))
            if any(x for x in cg.reachable([d], spawn=False) if re.search(r'::shutdown$', x)) or hits:
                db = f.bodies[d]
                guarded = any(re.search(r'Arc::<T(, A)?>::(strong_count|into_inner|try_unwrap)$', callee_name(t)) for bb, t in db.calls())
                if not guarded:
                    stops.append(d)
        R.check('R04.2', f"{ty}|Clone+Drop->shutdown", not stops, "drop of a clone does not shut down",
                f"{ty} is Clone and its Drop shuts the writers down unconditionally: dropping one clone of the handle while another is alive stops the logger "
                "(async mode: the writer thread is stopped and joined, later records are lost; cleanup thread is stopped)", where=f.bodies[stops[0]].loc() if stops else None)
    if n == 0:
        R.ok('R04.2', 'no-type-is-Clone+Drop', "no type implements both Clone and Drop")
