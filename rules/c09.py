"""C09 — age criterion: rotate exactly at the first write in a later clock period."""
from rulelib import *
from report import CheckError
from fdi import FDI, Const, Agg, Sym, Ref
import table as T
import c08

EXPLANATION = ("R09.1 per-Age decision table of the age criterion: an OR of `f(created_at) != f(now)` over exactly the calendar fields "
               "year, month, day[, hour[, minute[, second]]], each comparing the same chrono accessor on the stored DateTime<Local> "
               "created_at and on a value obtained from Local::now() in this activation; R09.2 AgeOrSize = size or age; R09.3 after a "
               "rotation created_at is re-read from the new file (creation -> modification -> now fallback chain); R09.4 with a current "
               "infix the rotated file is named after the stored start time, which is then replaced by the function's result. R09.3 also: RollState::new takes created_at of the age-bearing variants from the creation timestamp of the path it is given."
               " R09.5 (shared start table of R06.3/R06.5): an append-restart continues the file with the newest parsed timestamp (maximum, not first listed); a left-over current file is rotated under its own start time."
               " R09.6 criterion wiring: the Criterion (Age) given to rotate()/o_rotate() reaches the rotation configuration of the state unchanged (shared configuration-wiring tables, rules/cfgwiring.py)."
               " R09.7 the rotation decision is asked only by the record sink and by the explicit rotation request: time alone (flush, flusher threads, shutdown) never rotates.")
ASSUMPTIONS = ["chrono's Datelike/Timelike accessors on DateTime<Local> return the local calendar fields", "Local::now() is the local clock"]
NOT_DECIDED = ["local-time semantics (zones, DST, clock steps)", "file-system timestamp quality", "what 'started' means after an append-restart"]
FLOORS = {'R09.1': 4, 'R09.2': 4, 'R09.3': 3, 'R09.4': 3}


def who_triggers_rotation(R, ctx, rule='R09.7'):
    """`exactly at the first WRITE in a later period`: the rotation decision (mount_next_linewriter_if_necessary) is asked by the record sink - with the
    non-forced trigger - and by the explicit rotation request only.  Any other caller (flush, a flusher thread, shutdown, a query) lets time alone rotate:
    empty files named after periods in which nothing was written, and the next record's file named after the flush instead of its first record."""
    import c08
    f, cg = ctx.f, ctx.cg
    mb = ctx.body(r'^writers::file_log_writer::state::State::mount_next_linewriter_if_necessary$')
    sink, _w = c08.find_sink(ctx)
    explicit = {p for p in f.bodies if re.search(r'^writers::file_log_writer::FileLogWriter::rotate$|FileLogWriter as writers::log_writer::LogWriter>::rotate$', p)}
    callers = sorted({root_fn(a) for (a, _bb, _k) in cg.callers.get(mb.path, [])} - {mb.path})
    if not callers:
        raise CheckError(f"{rule}: no caller of the rotation function found")
    n = 0
    for c in callers:
        ok = c == root_fn(sink.path) or only_called_from(cg, c, explicit)
        n += 1
        R.check(rule, f"{c}|may-ask-for-rotation", ok, "record sink / explicit rotation request",
                f"{c} asks for the rotation decision although it neither writes a record nor serves an explicit rotation request: the age criterion then fires without a write "
                "(empty files for idle periods, files named after a flush instead of their first record)", where=f.bodies[c].loc() if c in f.bodies else None)
    if root_fn(sink.path) not in callers:
        raise CheckError(f"{rule}: the record sink does not call the rotation function")


def run(R, ctx):
    R.rule('R09.7', 'WHO-MAY-CALL(rotation decision) = record sink + explicit rotation request')
    who_triggers_rotation(R, ctx)
    R.rule('R09.6', 'criterion wiring: the Criterion (Age) given to rotate()/o_rotate() reaches the rotation configuration of the state unchanged')
    import cfgwiring
    cfgwiring.config_wiring(R, ctx, 'R09.6', 'C09')
    f, cg = ctx.f, ctx.cg
    R.rule('R09.1', 'TABLE(age decision per Age variant)')
    R.rule('R09.2', 'TABLE(AgeOrSize = size or age)')
    R.rule('R09.3', 'created_at re-read after rotation; fallback chain of get_creation_timestamp')
    R.rule('R09.4', 'rotated file named after the stored start timestamp, stored value replaced by the result')
    c08.rotation_table(R, ctx, 'R09.1', lambda c: c == 'Age')
    c08.rotation_table(R, ctx, 'R09.2', lambda c: c == 'AgeOrSize')
    reset_table(R, ctx)
    creation_fallback(R, ctx)
    new_created_at(R, ctx)
    stored_timestamp(R, ctx)
    # an append-restart continues the file of the LATEST period (maximum over the parsed timestamps, not the first listed), otherwise records of
    # this period go into a file named after, and aged like, an earlier one (start table shared with R06.3 / R06.5)
    R.rule('R09.5', 'start: the file continued is the one with the newest timestamp; left-over current file rotated by its own start time (shared with R06.3/R06.5)')
    import c06 as _c06
    _c06.start_table(Relabel(R, {'R06.3': 'R09.5', 'R06.5': 'R09.5'}), ctx, restart_sibling_clause=False)


def reset_table(R, ctx):
    f = ctx.f
    rb = ctx.body(r'^writers::file_log_writer::state::RollState::reset_size_and_date$')
    I = FDI(f, effects=[r'state::get_creation_timestamp$'], no_inline=[r'state::get_creation_timestamp$'])
    rows = I.run(rb.path)
    seen = set()
    for r in rows:
        crit = r.get('variant(self)')
        if crit not in ('Age', 'AgeOrSize'):
            continue
        seen.add(crit)
        fin = r.final[0] if r.final else None
        # final[0] is Ref -> ('ref' Agg) -> the RollState aggregate
        st = fin.fields[0] if isinstance(fin, Agg) and fin.adt == 'ref' else fin
        ok = False
        got = None
        if isinstance(st, Agg) and st.variant == crit:
            names = [fd['name'] for fd in [v for v in f.adts[c08.ROLL]['variants'] if v['name'] == crit][0]['fields']]
            got = st.fields[names.index('created_at')]
            ok = isinstance(got, Sym) and got.x[0] == 'eff' and got.x[1].endswith('get_creation_timestamp') and \
                T.strip_refs(got.x[3][0]) == ('in', 'path')
        R.check('R09.3', f"reset_size_and_date|{crit}", ok and not r.undecided, "created_at = get_creation_timestamp(path)",
                f"after a rotation created_at of {crit} is not re-read from the new file's path (value: {got!r})", where=rb.loc(),
                sample={'criterion': crit, 'created_at': repr(got)})
    for c in ('Age', 'AgeOrSize'):
        if c not in seen:
            R.bad('R09.3', f"reset_size_and_date|{c}", 'variant missing', where=rb.loc())
    # the reset is handed the path of the file that was just opened
    b = ctx.body(r'^writers::file_log_writer::state::State::mount_next_linewriter_if_necessary$')
    rows = mount_rows(ctx)
    n = 0
    psel = ok_payload_selectors(ctx.f, ctx.body(r'^writers::file_log_writer::state::open_log_file$'), {'path': r'^std::path::PathBuf$'})['path']
    for r in rows:
        for e in r.effects:
            if e[0].endswith('reset_size_and_date'):
                x = T.strip_refs(e[2]['x'][1])
                # expected: the path field of the Ok payload of open_log_file (tuple element or struct field)
                okp = isinstance(x, tuple) and x[0] == 'field' and x[2] == psel and 'open_log_file' in repr(x)
                if not okp:
                    R.bad('R09.3', f"{b.path}|reset-path", f"reset_size_and_date is not given the path of the newly opened file but {e[1][1]}", where=b.loc())
                    return
                n += 1
    R.check('R09.3', f"{b.path}|reset-path", n > 0, f"{n} rows: reset_size_and_date(path of the new file)", "reset_size_and_date never called", where=b.loc())


_MOUNT = {}


def mount_rows(ctx):
    if ctx.cfg in _MOUNT:
        return _MOUNT[ctx.cfg]
    EFF = [r'state::open_log_file$', r'RollState::rotation_necessary$', r'numbers::index_for_rcurrent$',
           r'timestamps::creation_timestamp_of_currentfile$', r'collision_free_infix_for_rotated_file$', r'^chrono::Local::now$',
           r'timestamps::infix_from_timestamp$', r'numbers::number_infix$', r'reset_size_and_date$', r'remove_or_compress_too_old_logfiles(_impl)?$']
    I = FDI(ctx.f, effects=EFF, no_inline=EFF + [r'infix_filter$', r'writes_direct$'], loop_k=1)
    rows = I.run('writers::file_log_writer::state::State::mount_next_linewriter_if_necessary')
    _MOUNT[ctx.cfg] = rows
    return rows


def creation_fallback(R, ctx):
    """decided on the std-level effects (metadata / created / modified / Local::now), whatever private helpers the chain is split into"""
    f = ctx.f
    b = ctx.body(r'^writers::file_log_writer::state::get_creation_timestamp$')
    EFF = [r'^std::fs::metadata$', r'^std::fs::Metadata::(created|modified)$', r'^chrono::Local::now$']
    I = FDI(f, effects=EFF, max_steps=8000)
    rows = I.run(b.path, arg_names=['path'])
    ok = True
    why = ''
    n = 0
    kinds = set()
    for r in rows:
        if r.undecided:
            ok, why = False, 'UNDECIDED ' + r.undecided
            break
        okeff = {}
        for a, v in r.cond:
            info = r.atom_info.get(a, {})
            if info.get('kind') == 'variant':
                xs = T.strip_refs(info['of'])
                if isinstance(xs, tuple) and xs[0] == 'eff':
                    okeff[xs[2]] = (v == 'Ok')
        created = [i + 1 for i, e in enumerate(r.effects) if e[0].endswith('::created') and okeff.get(i + 1)]
        modified = [i + 1 for i, e in enumerate(r.effects) if e[0].endswith('::modified') and okeff.get(i + 1)]
        for e in r.effects:
            if e[0] == 'std::fs::metadata' and not T.is_input(e[2]['x'][0], 'path'):
                ok, why = False, f"metadata is read of {e[1][0]}, not of the path parameter"
        for i, e in enumerate(r.effects):
            if e[0].endswith(('::created', '::modified')) and not T.eff_indices(e[2]['x'][0], r'^std::fs::metadata$'):
                ok, why = False, f"{e[0]} is not applied to the metadata of the path"
        x = I_x(r.result)
        got_c = T.eff_indices(x, r'Metadata::created$')
        got_m = T.eff_indices(x, r'Metadata::modified$')
        got_n = T.eff_indices(x, r'^chrono::Local::now$')
        if created:
            kind, good = 'creation', bool(got_c & set(created)) and not got_m and not got_n
        elif modified:
            kind, good = 'modification', bool(got_m & set(modified)) and not got_c and not got_n
        else:
            kind, good = 'now', bool(got_n) and not got_c and not got_m
        # preference order: a less reliable source may only be used after the more reliable one was ASKED and failed on this row
        asked_c = [i + 1 for i, e in enumerate(r.effects) if e[0].endswith('::created')]
        asked_m = [i + 1 for i, e in enumerate(r.effects) if e[0].endswith('::modified')]
        mds = [okeff.get(i + 1) for i, e in enumerate(r.effects) if e[0] == 'std::fs::metadata']
        md_ok = bool(mds) and all(mds)
        if good and kind == 'modification' and not (asked_c and not any(okeff.get(i) for i in asked_c)):
            ok, why = False, ("the modification time is returned on a path on which the creation time was not asked for first (or was available): the start of the current file's "
                              "period becomes its last-write time - after a restart a file whose buffered tail was flushed in the next period is not rotated at the first write")
        if good and kind == 'now' and md_ok and not (asked_c and asked_m):
            ok, why = False, "the clock is used although creation / modification time of the file were not both asked for"
        if not good:
            ok, why = False, f"creation time available: {bool(created)}, modification time available: {bool(modified)}: the result is {r.long(repr(r.result))[:120]}, documented: the {kind} time"
        if not ok:
            break
        kinds.add(kind)
        n += 1
    if ok and kinds != {'creation', 'modification', 'now'}:
        raise CheckError(f"R09.3: fallback chain not recognised (cases {sorted(kinds)})")
    R.check('R09.3', 'get_creation_timestamp|fallback', ok and n >= 3, f"{n} rows: creation -> modification -> now (std-level effects)",
            f"fallback chain of get_creation_timestamp deviates: {why}", where=b.loc(), sample={'rows': n})


def new_created_at(R, ctx):
    """at (re)start the period of the current file starts when the FILE was started: RollState::new takes created_at of the
    age-bearing variants from the creation timestamp of the path it is given (fallback chain: R09.3), not from the clock -
    otherwise an append-restart in a later period keeps writing into the earlier period's file"""
    f = ctx.f
    b = ctx.body(r'^writers::file_log_writer::state::RollState::new$')
    GC = r'state::get_creation_timestamp$'
    rows = FDI(f, effects=[GC, r'^chrono::Local::now$', r'^std::fs::metadata$'], no_inline=[GC]).run(b.path, arg_names=['criterion', 'append', 'path'])
    seen = set()
    bad = None
    for r in rows:
        if r.undecided:
            raise CheckError(f"R09.3 RollState::new: UNDECIDED {r.undecided}")
        res = r.result
        if not (isinstance(res, Agg) and res.variant == 'Ok' and res.fields and isinstance(res.fields[0], Agg)):
            continue
        st = res.fields[0]
        vs = [v for v in f.adts[c08.ROLL]['variants'] if v['name'] == st.variant]
        names = [fd['name'] for fd in vs[0]['fields']] if vs else []
        if 'created_at' not in names:
            continue
        seen.add(st.variant)
        cx = I_x(st.fields[names.index('created_at')])
        gc = [e for e in r.effects if re.search(GC, e[0])]
        if not T.eff_indices(cx, GC) or T.eff_indices(cx, r'^chrono::Local::now$') or not gc or not T.is_input(gc[0][2]['x'][0], 'path'):
            bad = f"created_at of RollState::{st.variant} is {r.long(repr(st.fields[names.index('created_at')]))[:100]}, not the creation timestamp of the file at `path`"
    if not bad and not {'Age', 'AgeOrSize'} <= seen:
        raise CheckError(f"R09.3 RollState::new: age-bearing variants not found on the rows ({seen})")
    R.check('R09.3', 'RollState::new|created_at', not bad, "created_at = creation timestamp of the given path for Age and AgeOrSize",
            f"RollState::new: {bad}: after a restart with append in a later period the old file is not rotated at the first write", where=b.loc())


def stored_timestamp(R, ctx):
    f = ctx.f
    b = ctx.body(r'^writers::file_log_writer::state::State::mount_next_linewriter_if_necessary$')
    rows = mount_rows(ctx)
    n = 0
    for r in rows:
        if r.get('variant(self.inner.0.0.naming_state)') != 'Timestamps' or r.get('variant(self.inner.0.0.naming_state.the_current_infix)') != 'Some':
            continue
        ce = [e for e in r.effects if e[0].endswith('creation_timestamp_of_currentfile')]
        if r.undecided or len(ce) != 1:
            if any(e[0].endswith('open_log_file') for e in r.effects) or r.undecided:
                R.bad('R09.4', f"{b.path}|stored-ts", f"rotation with current infix does not call creation_timestamp_of_currentfile exactly once ({len(ce)}; {r.undecided})", where=b.loc())
                return
            continue
        x = ce[0][2]['x']
        rotate_flag = eff_arg_x(f, ce[0], 'rotate_rcurrent', r'^bool$') == ('const', True)
        date = eff_arg_x(f, ce[0], 'o_date_for_rotated_file', r'^std::option::Option<&')
        stored = date[0] == 'agg' and date[2] == 'Some' and T.field_chain(date[3][0]) and T.field_chain(date[3][0])[-1] == 'current_timestamp'
        xi = eff_arg_x(f, ce[0], 'current_infix', r'^&str$')
        infix_ok = T.field_chain(xi) and T.field_chain(xi)[-2:] == ('the_current_infix', '0')
        if not (rotate_flag and stored and infix_ok):
            R.bad('R09.4', f"{b.path}|stored-ts", "at rotation the rotated file is not named after the stored start timestamp "
                  f"(rotate flag const true: {rotate_flag}; date = Some(&stored current_timestamp): {stored}; infix = stored current infix: {infix_ok})",
                  where=b.loc(), witness=str(ce[0][1]))
            return
        n += 1
    R.check('R09.4', f"{b.path}|stored-ts", n > 0, f"{n} rows: creation_timestamp_of_currentfile(cfg, current_infix, true, Some(&stored ts), fmt)", "no such rows", where=b.loc())
    # successful rows: the stored timestamp is replaced by the function's result
    n2 = 0
    for r in rows:
        if r.get('variant(self.inner.0.0.naming_state)') != 'Timestamps' or r.get('variant(self.inner.0.0.naming_state.the_current_infix)') != 'Some':
            continue
        if not any(e[0].endswith('open_log_file') for e in r.effects):
            continue
        txt = repr(r.final[0]) if r.final else ''
        if 'creation_timestamp_of_currentfile' not in txt:
            R.bad('R09.4', f"{b.path}|ts-replaced", "after the rotation the stored start timestamp is not replaced by the result of creation_timestamp_of_currentfile",
                  where=b.loc(), witness=txt[:300])
            return
        n2 += 1
    R.check('R09.4', f"{b.path}|ts-replaced", n2 > 0, f"{n2} rows: stored timestamp := result", 'no rows', where=b.loc())
    # inside creation_timestamp_of_currentfile: the rotated name uses the given date when present
    cb = ctx.body(r'^writers::file_log_writer::state::timestamps::creation_timestamp_of_currentfile$')
    good = 0
    for d in rotated_name_rows(ctx):
        if d.get('error'):
            R.bad('R09.4', f"{cb.path}|name-from-date", d['error'], where=cb.loc())
            return
        if not (d['date_ok'] and d['src_ok'] and d['chain_ok']):
            R.bad('R09.4', f"{cb.path}|name-from-date", f"rotated name/date deviates for o_date={d['od']}: date from expected source: {d['date_ok']}; rename source = current path: {d['src_ok']}; "
                  f"target = as_pathbuf(collision_free(infix_from_timestamp(date))): {d['chain_ok']}", where=cb.loc(), witness=[d['witness']])
            return
        good += 1
    R.check('R09.4', f"{cb.path}|name-from-date", good >= 2, f"{good} rows: rotated name from the given date (else the file's creation time)", 'rows missing', where=cb.loc())


_ROT_NAME = {}


def rotated_name_rows(ctx):
    """rows of creation_timestamp_of_currentfile on which the current file is renamed: where the date of the rotated name comes from,
    what is renamed, and whether the target is as_pathbuf(collision_free_infix(infix_from_timestamp(date))) - decided on these
    effects themselves, so that a private helper computing the name may exist or be inlined"""
    if ctx.cfg in _ROT_NAME:
        return _ROT_NAME[ctx.cfg]
    f = ctx.f
    cb = ctx.body(r'^writers::file_log_writer::state::timestamps::creation_timestamp_of_currentfile$')
    GC, IFT, CF, AP = r'state::get_creation_timestamp$', r'timestamps::infix_from_timestamp$', r'collision_free_infix_for_rotated_file$', r'FileSpec::as_pathbuf$'
    EFF = [r'^std::fs::rename$', GC, IFT, CF, AP]
    rws = FDI(f, effects=EFF, no_inline=EFF, max_steps=20000).run(cb.path)
    out = []
    for r in rws:
        if r.undecided:
            out.append({'error': f"UNDECIDED {r.undecided}"})
            break
        rot = r.get('rotate_rcurrent')
        od = r.get('variant(o_date_for_rotated_file)')
        ren = [e for e in r.effects if e[0] == 'std::fs::rename']
        if rot is False:
            if ren:
                out.append({'error': "renames although rotate flag is false"})
                break
            continue
        if len(ren) != 1:
            out.append({'error': f"rotate=true: {len(ren)} renames"})
            break
        src = T.strip_refs(ren[0][2]['x'][0])
        dst = T.strip_refs(ren[0][2]['x'][1])
        # the chain inside the target
        ap = [t for t in T.subterms(dst) if len(t) >= 4 and t[0] == 'eff' and re.search(AP, t[1])]
        cf = [t for a_ in ap for t in T.subterms(a_[3]) if len(t) >= 4 and t[0] == 'eff' and re.search(CF, t[1])]
        it = [t for c_ in cf for t in T.subterms(c_[3]) if len(t) >= 4 and t[0] == 'eff' and re.search(IFT, t[1])]
        chain_ok = bool(ap and cf and it)
        date_ok = False
        for t in it:
            datex = T.strip_refs(t[3][0]) if t[3] else None
            if od == 'Some':
                date_ok = date_ok or (datex is not None and 'o_date_for_rotated_file' in repr(datex))
            else:
                date_ok = date_ok or (isinstance(datex, tuple) and datex[0] == 'eff' and re.search(GC, datex[1]) is not None)
        src_ok = 'as_pathbuf' in repr(src) and 'current_infix' in repr(src)
        out.append({'od': od, 'date_ok': date_ok, 'src_ok': src_ok, 'chain_ok': chain_ok, 'witness': r.long(ren[0][1][1])[:300]})
    _ROT_NAME[ctx.cfg] = out
    return out

def I_x(v):
    if isinstance(v, Const):
        return ('const', v.v)
    if isinstance(v, Sym):
        return v.x
    if isinstance(v, Agg):
        return ('agg', v.adt, v.variant, tuple(I_x(y) for y in v.fields))
    return ('unknown',)
