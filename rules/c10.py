"""C10 — logging operations never panic or hang, whatever the input or directory content."""
from rulelib import *
from report import CheckError
import panics as P
from locks import guard_kind, protected

EXPLANATION = ("R10.1 triaged inventory of every may-panic construct (overflow/bounds asserts, unwrap/expect, explicit panics, range indexing of "
               "str/slices, RefCell borrows, thread-local access) reachable from the public surface and from every spawned thread, one table row per "
               "(function, kind, operand) with the invariant that excludes it; an unlisted site, or more sites of a listed kind than counted, is a "
               "violation; R10.2 each site is tagged with the locks that may be held: under a log-path lock only invariant-excluded or poison-only "
               "sites are accepted; R10.3 no user callback (format function, dyn LogWriter/LogLineFilter method, Display of the message) under a "
               "non-reentrant lock; R10.4 the lock-order graph is acyclic; R10.5 blocking receives only in the consumer loops; R10.6 no panicking "
               "RefCell borrow; R10.7 loop inventory: every loop is iterator-driven, receive-driven, or a triaged loop whose termination guard is "
               "checked structurally. R10.1 also: the restart number is looked up in the same path component the sibling filter examined (F29 fixed)."
               " R10.8 (shared with R07.6): shutdown joins the cleanup thread while holding the state lock; on the decision rows of that thread a stop message taken from the channel by ANY receive (blocking or not) ends the thread, so the join returns."
               " R10.9 (shared with R14.2): the directory listing keeps regular files only and the family predicate is exact, so no FIFO / socket / directory named like a log file reaches File::open under the state lock."
               " R10.1 also (shared with R17.2): the guards that discharge the may-panic constructs of the specification text forms dominate them (e.g. is_empty() before module_filters[0] in to_toml).")
ASSUMPTIONS = ["user format functions, writers and Display impls are total and return (they may log recursively)", "dependencies do not panic",
               "poisoning needs a panic under the lock, which R10.2 excludes"]
NOT_DECIDED = ["termination of user code", "panics inside dependencies", "stack exhaustion of the 1 KiB flusher threads", "hangs caused by the OS"]
FLOORS = {'R10.1': 40, 'R10.3': 4, 'R10.4': 1, 'R10.7': 15}

LOGLOCKS = ('writers::file_log_writer::state::State', 'writers::buffer_writer::State', 'writers::syslog::writer::ConnectorAndBuffer',
            'std::io::BufWriter<primary_writer::std_stream::StdStream>', 'std::option::Option<bool>', 'log_specification::LogSpecification')

# (function regex, kind, operand regex, max count, class, reason)      classes: INV DOC POI RES GEN F(inding: listed in known_findings.json)
TRIAGE = [
    (r'From<std::convert::Infallible>>::from$', 'panic', r'.*', 1, 'INV', 'Infallible is uninhabited'),
    (r'FlexiLogger as log::Log>::(enabled|log)$', 'assert', r'overflow:Sub', 2, 'INV', "starts_with('{') implies len >= 1"),
    (r'FlexiLogger as log::Log>::log$', 'unwrap', r'Result::unwrap<std::sync::RwLockReadGuard', 1, 'POI', 'spec lock, poison only'),
    (r'Duplicate as std::convert::From<u8>>::from$', 'panic', r'.*', 1, 'INV', 'discharged by R13.4 (identity on 0..=6)'),
    (r'MultiWriter as writers::log_writer::LogWriter>::max_log_level$', 'unwrap', r'Option::unwrap<log::LevelFilter>', 1, 'INV',
     'MultiWriter is crate-private and never stored among the additional writers, whose max_log_level() is the only caller (checked below)'),
    (r'BufferWriter as writers::log_writer::LogWriter>::write$', 'assert', r'overflow:(Add|Sub)', 3, 'INV', 'byte accounting of the snapshot buffer; drifts only if a custom format emits invalid UTF-8 (user code)'),
    (r'syslog::connection::Connection as std::io::Write>::write$', 'assert', r'overflow:Add', 1, 'INV', 'small constant added to a length'),
    (r'^deferred_now::DeferredNow::force_utc$', 'unwrap', r'Result::unwrap<std::sync::MutexGuard', 1, 'POI', 'force-utc mutex'),
    (r'^deferred_now::DeferredNow::force_utc$', 'panic', r'panic_fmt', 1, 'F', 'documented panic, but raised with the force-utc guard held (F19)', 'F19-force_utc-panics-holding-its-guard'),
    (r'^deferred_now::DeferredNow::format_rfc3164$', 'panic', r'.*', 1, 'INV', 'chrono month() is in 1..=12'),
    (r'^deferred_now::use_utc$', 'unwrap', r'Result::unwrap<std::sync::MutexGuard', 1, 'POI', 'force-utc mutex (poisoned only through F19)'),
    (r'^flexi_logger::FlexiLogger::primary_enabled$', 'unwrap', r'Result::unwrap<std::sync::RwLockReadGuard', 1, 'POI', 'spec lock'),
    (r'formats::_::_serde::Serialize for formats::LogLine', 'assert', r'overflow:Add', 8, 'GEN', 'serde-derive generated field counting'),
    (r'^log_specification::LogSpecification::to_toml_impl$', 'index', r'Vec<log_specification::ModuleFilter>', 1, 'INV', 'dominated by the is_empty() test of the same condition'),
    (r'^logger::create_specfile_watcher$', 'unwrap', r'Option::unwrap<std::path::Path>', 1, 'INV', 'parent of a canonicalised file path'),
    (r'^logger_handle::LoggerHandle::push_temp_spec$', 'unwrap', r'Result::unwrap<std::sync::RwLockReadGuard', 1, 'POI', 'spec lock'),
    (r'FileSpec::collision_free_infix_for_rotated_file$', 'unwrap', r'Option::unwrap<std::path::PathBuf>', 1, 'INV', 'pop() dominated by !is_empty()'),
    (r'FileSpec::collision_free_infix_for_rotated_file$', 'unwrap', r'Option::unwrap<std::ffi::OsStr>', 2, 'INV', 'element of a directory listing has a file stem / file name'),
    (r'FileSpec::collision_free_infix_for_rotated_file$', 'unwrap', r'Option::unwrap<usize>', 1, 'INV', 'the sibling filter requires the substring'),
    (r'FileSpec::collision_free_infix_for_rotated_file$', 'assert', r'overflow:Add', 5, 'INV', 'small constants added to an offset'),
    (r'FileSpec::collision_free_infix_for_rotated_file$', 'index', r'String', 1, 'INV',
     'the sibling filter admits only names with four ASCII digits after ".restart-" (guard checked by restart_sibling_guard; F10 fixed)'),
    (r'FileSpec::collision_free_infix_for_rotated_file$', 'unwrap', r'Result::unwrap<usize>', 1, 'INV', 'parse of those four ASCII digits (same guard)'),
    (r'^parameters::file_spec::FileSpec::default_basename$', 'unwrap', r'.*', 1, 'INV', 'argv[0] without file name: environment, outside the quantifier'),
    (r'FileSpec::filter_files$', 'unwrap', r'Option::unwrap<std::ffi::OsStr>', 1, 'INV', 'listing element has a file stem'),
    (r'FileSpec::filter_files$', 'index', r'str', 1, 'INV', '`..end` with end from find() on the same string'),
    (r'^parameters::file_spec::FileSpec::try_from$', 'unwrap', r'.*', 2, 'DOC', 'rustdoc "# Panics"'),
    (r'^primary_writer::std_writer::StdWriter::new$', 'panic', r'.*', 2, 'INV', 'Logger::write_mode stores without_flushing() (R15.2)'),
    (r'buffer_with$', 'tls', r'.*', 2, 'INV', 'LocalKey::with fails only during thread-local destruction: logging from TLS destructors is outside the quantifier'),
    (r'^(threads::start_async_stdwriter|writers::file_log_writer::state::start_(async_fs_writer|sync_flusher|async_fs_flusher))$', 'unwrap', r'JoinHandle', 4, 'RES',
     'documented intent: panic if a helper thread cannot be spawned at start-up'),
    (r'^trc::setup_tracing', 'unwrap', r'.*', 1, 'INV', 'subscriber outlives the closure; trc is declared experimental'),
    (r'^util::handle_error_error$', 'panic', r'.*', 1, 'DOC', 'Logger::panic_if_error_channel_is_broken (opt-out documented)'),
    (r'^util::try_writing_to_error_channel$', 'unwrap', r'Result::unwrap<std::sync::RwLockReadGuard', 1, 'POI', 'error-channel lock'),
    (r'InfixFilter::filter_infix$', 'unwrap', r'Option::unwrap<char>', 2, 'INV', 'len() > 2; second call only after first char == r (1 byte)'),
    (r'RollState::increase_size$|State::initialize_with_rotation$|State::mount_next_linewriter_if_necessary$|numbers::index_for_rcurrent$',
     'assert', r'overflow:Add', 5, 'INV', 'counters: > 4e9 rotations / 16 EiB'),
    (r'numbers::get_highest_index$', 'unwrap', r'Option::unwrap<std::ffi::OsStr>', 1, 'INV', 'listing element has a file stem'),
    (r'numbers::get_highest_index$', 'index', r'str', 1, 'INV', 'only when the fixed part is empty; the Numbrs filter forces first byte r'),
    (r'start_async_fs_writer$', 'unwrap', r'Result::unwrap<std::sync::MutexGuard', 1, 'POI', 'state mutex'),
    (r'timestamps::timestamp_from_ts_infix$', 'unwrap', r'Option::unwrap<chrono::NaiveDateTime>', 1, 'INV', 'and_hms_opt with constant arguments'),
    (r'timestamps::ts_infix_from_path$', 'unwrap', r'Option::unwrap<usize>', 1, 'INV', 'the string was built from that infix'),
    (r'timestamps::ts_infix_from_path$', 'index', r'^str$', 1, 'INV', '`..end` with end from find() on the same string (F9 fixed: no fixed-length slice)'),
    (r'StateHandle::write$', 'unwrap', r'Result::expect<std::sync::MutexGuard', 2, 'POI', 'state mutex'),
    (r'list_and_cleanup::start_cleanup_thread$', 'assert', r'overflow:Mul', 1, 'INV', 'constant stack size 512 * 1024'),
    # class rule (any function): taking a std lock and unwrapping the LockResult fails only on a poisoned lock; poisoning needs a panic
    # while the lock is held, which R10.2 excludes for the log-path locks
    (r'.', 'unwrap', r'^Result::(unwrap|expect)<std::sync::(MutexGuard|RwLockReadGuard|RwLockWriteGuard)<', 99, 'POI', 'lock result: poison only'),
    (r'.', 'unwrap', r'^Result::(unwrap|expect)<.*;E=std::sync::PoisonError<', 99, 'POI', 'a Result whose error type is PoisonError (a lock result passed through a private accessor): poison only'),
]

def norm_what(w):
    """operand type without reference / lifetime decoration: `Option::unwrap<&log::LevelFilter>` and `Option::unwrap<log::LevelFilter>` are one class"""
    return re.sub(r"&('\w+ )?(mut )?", '', w)


def row_label(tr):
    return re.sub(r'[\\^$]', '', tr[0])


LOOP_TRIAGE = {
    # (function regex) -> (reason, structural guard checker name)
    r'BufferWriter as writers::log_writer::LogWriter>::write$': ('eviction loop: a line longer than max_size empties the buffer first, so size + len <= max_size once the queue is empty', 'buffer_guard'),
    r'_serde::de::Visitor<.*>>::visit_map$': ('serde-derive generated map loop, ends with next_key() == None', None),
}


def run(R, ctx):
    f, cg, la = ctx.f, ctx.cg, ctx.locks
    R.rule('R10.1', 'MAY-PANIC-INVENTORY(entries = public surface + spawned threads, triage table)')
    R.rule('R10.2', 'MUST-NOT-HOLD(log-path lock, may-panic site of class other than INV/POI)')
    R.rule('R10.3', 'MUST-NOT-HOLD(non-reentrant lock, USER callback)')
    R.rule('R10.4', 'lock-order graph acyclic')
    R.rule('R10.5', 'blocking recv only in consumer loops')
    R.rule('R10.6', 'WHO-MAY-CALL(RefCell::borrow/borrow_mut) = nobody')
    R.rule('R10.7', 'LOOP-INVENTORY')
    # a join() under the state lock returns only if the joined thread really stops on the stop message it was sent: decision rows of the cleanup
    # thread (shared with R07.6) - a Die taken from the channel by whatever receive ends the thread, Acts are never left unserved
    R.rule('R10.8', 'joined helper thread stops on its stop message (rows of the cleanup thread, shared with R07.6)')
    import c07 as _c07
    _c07.shutdown_rules(Relabel(R, {'R07.6': 'R10.8'}), ctx)
    # whatever the directory contains: cleanup opens (compression) and the start-up code stats the files the listing returns, under the state lock.  The
    # listing keeps REGULAR files only (`is_file`): a FIFO / socket / device node named like a rotated file would make File::open block for ever - the
    # log call hangs holding the lock (whole-function tables of the listing and of the family predicate, shared with R14.2)
    # the triage class INV (`cannot happen because of a check made before`) of the specification text forms is itself checked: every may-panic construct
    # reachable from parse / to_toml / from_toml / Display is dominated by its guard (the is_empty() test before `module_filters[0]`), so that hoisting or
    # reordering the guarded expression is reported (shared with R17.2) - start_with_specfile renders the initial specification at logger start
    import c17 as _c17
    _c17.panics(Relabel(R, {'R17.2': 'R10.1'}), ctx)
    family_predicate_proxy(R, ctx, 'R10.9', 'the listing hands only regular files of the family to code that opens them (shared with R14.2)')

    entries = [b.path for b in pub_api_bodies(f)]
    spawned = [c for a, es in cg.spawn_edges.items() for (c, bb, k) in es]
    reach = cg.reachable(entries + spawned, spawn=True)
    R.stats.setdefault('entries', {})[ctx.cfg] = len(entries)
    R.stats.setdefault('reachable_bodies', {})[ctx.cfg] = len(reach)
    nsites = 0
    sites = []
    for p in sorted(reach):
        b = f.bodies[p]
        if b.promoted is not None or b.doc_hidden or 'validate_logs' in p:
            continue
        for s in P.sites_of(b):
            if s['kind'] == 'assert' and s['what'].startswith('other:'):
                continue        # debug-build pointer checks on Box derefs, not source-level constructs
            nsites += 1
            held = la.may_held(p, s['bb'])
            loglocks = sorted(h for h in held if guard_kind(h) == 'lock' and any(x in h for x in LOGLOCKS))
            sites.append((p, s, loglocks, b))
    # 1. sites in the function (or a closure of the function) their triage row names
    assigned = {i: [] for i in range(len(TRIAGE))}
    unmatched = []
    for site in sites:
        p, s = site[0], site[1]
        what = norm_what(s['what'])
        row = next((i for i, tr in enumerate(TRIAGE) if re.search(tr[0], root_fn(p)) and tr[1] == s['kind'] and re.search(tr[2], what) and len(assigned[i]) < tr[3]), None)
        if row is None:
            unmatched.append(site)
        else:
            assigned[row].append(site)
    # 2. a site of the same kind and operand type that left its triaged function (extracted helper, moved or renamed
    #    function, loop turned into a closure) is the triaged site, not a new one: pair it with a row that lost one
    moved = 0
    for site in unmatched:
        p, s, loglocks, b = site
        what = norm_what(s['what'])
        row = next((i for i, tr in enumerate(TRIAGE) if tr[1] == s['kind'] and tr[2] != r'.*' and re.search(tr[2], what) and len(assigned[i]) < tr[3]
                    and not re.search(tr[0], root_fn(p))), None)
        if row is None:
            R.bad('R10.1', f"{root_fn(p)}|{s['kind']}|{what}", f"new may-panic site in {p}: {s['kind']} ({s['what']}) — reachable from the public surface and not in the triaged inventory"
                  + (f"; executes with {loglocks} held: a panic here poisons the lock and every later log call panics" if loglocks else ''), where=b.loc(s['bb']))
            continue
        assigned[row].append(site)
        moved += 1
    R.stats.setdefault('may_panic_sites_moved', {})[ctx.cfg] = moved
    for row, lst in sorted(assigned.items()):
        tr = TRIAGE[row]
        if not lst:
            continue
        key = tr[6] if len(tr) > 6 else f"{row_label(tr)}|{tr[1]}|{tr[2]}"
        p, s, loglocks, b = lst[0]
        loglocks = sorted({l for x in lst for l in x[2]})
        if tr[4] == 'F':
            R.bad('R10.1', key, f"{p}: {tr[1]} ({s['what']}) can panic: {tr[5]}" + (f"; under {loglocks}" if loglocks else ''), where=b.loc(s['bb']))
        else:
            R.ok('R10.1', key, f"{tr[4]}: {tr[5]}", sample={'fn': p, 'kind': tr[1], 'class': tr[4], 'reason': tr[5], 'locks_held': loglocks, 'sites': len(lst)})
            if loglocks and tr[4] not in ('INV', 'POI', 'GEN'):
                if tr[4] == 'DOC' and p.endswith('handle_error_error'):
                    R.ok('R10.2', key, 'documented opt-in panic (panic_if_error_channel_is_broken)', nontrivial=False)
                else:
                    R.bad('R10.2', key, f"{p}: a {tr[4]}-class panic ({tr[1]}) can happen while {loglocks} is held: the lock is poisoned and later log calls panic", where=b.loc(s['bb']))
            elif loglocks:
                R.ok('R10.2', key, f"under {loglocks}: excluded by invariant / poison only")
    R.stats.setdefault('may_panic_sites', {})[ctx.cfg] = nsites
    # MultiWriter never among the additional writers: who constructs a MultiWriter
    makers = sorted({b2.path for (b2, bb, s) in aggregate_sites(f, r'multi_writer::MultiWriter$')})
    R.check('R10.1', 'MultiWriter-only-in-PrimaryWriter', makers == ['primary_writer::multi_writer::MultiWriter::new'], "MultiWriter is built only by MultiWriter::new",
            f"MultiWriter is constructed in {makers}", where=None)

    R.check('R10.1', 'restart-sibling-guard', restart_sibling_guard(ctx), "the .restart- sibling filter requires four ASCII digits behind the token",
            "collision_free_infix_for_rotated_file slices and parses the four bytes after `.restart-` of a listed file without the sibling filter "
            "having checked that they are four ASCII digits: a foreign file `<infix>.restart-xy.<suffix>` makes the next rotation / start panic under the state lock",
            where='src/parameters/file_spec.rs')
    same, why = restart_same_string(ctx)
    R.check('R10.1', 'restart-number-parsed-in-the-string-the-filter-examined', same,
            "the restart number is looked up in the same path component the sibling filter examined",
            f"collision_free_infix_for_rotated_file: {why} — the filter's guarantee (token followed by four ASCII digits) does not carry over to that string, "
            "so `find(\".restart-\").unwrap()` / the slice / `parse().unwrap()` can panic under the state lock (e.g. a log directory whose own name contains `.restart-`)",
            where='src/parameters/file_spec.rs', witness=why)
    user_callbacks(R, ctx)
    lock_order(R, ctx)
    # R10.5 / R10.6
    # a blocking recv is acceptable only in code that runs on a helper thread of its own and never on a caller's thread
    owners = thread_owners(cg)
    caller_side = cg.reachable(entries, spawn=False)
    for p_, es in cg.ext.items():
        for (n, bb, t) in es:
            if re.search(r'Receiver::<T>::recv$', n):
                R.check('R10.5', f"{root_fn(p_)}|recv", p_ in owners and p_ not in caller_side, "blocking recv on a helper thread's own loop",
                        f"blocking recv() outside the consumer loops in {p_}: the calling thread can hang", where=f.bodies[p_].loc(bb))
            if re.search(r'^std::cell::RefCell::<T>::borrow(_mut)?$', n):
                R.bad('R10.6', f"{root_fn(p_)}|{n.split('::')[-1]}", f"panicking RefCell borrow in {p_} (recursive logging would panic instead of using the fallback)", where=f.bodies[p_].loc(bb))
    R.ok('R10.6', 'no-panicking-borrow', 'only try_borrow_mut is used')
    loops(R, ctx, reach)


def restart_sibling_guard(ctx):
    """discharges the slice / parse().unwrap() of collision_free_infix_for_rotated_file: a filter over the listed siblings (closure or
    helper reached from the function) takes the bytes behind the token with a checked `str::get` and tests them with is_ascii_digit"""
    f, cg = ctx.f, ctx.cg
    b = ctx.body(r'^parameters::file_spec::FileSpec::collision_free_infix_for_rotated_file$')
    scope = [x for x in cg.reachable([b.path], spawn=False) if x in f.bodies and x != b.path and
             (x.startswith(b.path + '::{closure') or only_called_from(cg, root_fn(x), {b.path}))]
    names = {callee_name(t) for x in scope for _, t in f.bodies[x].calls()}
    digit = any(re.search(r'is_ascii_digit$', n) for n in names)
    checked_get = any(re.search(r'str>?::get$', n) for n in names)
    filt = any(re.search(r'Iterator>?::filter$', callee_name(t)) for _, t in b.calls())
    return digit and checked_get and filt


COMPONENT = re.compile(r'^std::path::Path::(file_name|file_stem|extension|parent|file_prefix)$')


def restart_same_string(ctx):
    """the guard of restart_sibling_guard is established on one string (a component of the candidate path); the unwraps it discharges
    operate on a string looked up again after the sort.  Necessary for the guard to carry over: both strings are the SAME component of
    the path (the set of Path component accessors in the provenance of every `str::find` receiver is the same on both sides, and is not
    empty = not the whole path, whose directory part the filter never examined)."""
    f, cg, ip = ctx.f, ctx.cg, ctx.ip
    b = ctx.body(r'^parameters::file_spec::FileSpec::collision_free_infix_for_rotated_file$')
    scope = [b.path] + [x for x in cg.reachable([b.path], spawn=False) if x in f.bodies and x != b.path and
                        (x.startswith(b.path + '::{closure') or only_called_from(cg, root_fn(x), {b.path}))]
    guard_side, parse_side = [], []
    for x in scope:
        xb = f.bodies[x]
        names = {callee_name(t) for _, t in xb.calls()}
        for bb, t in xb.calls():
            if not re.search(r'str>?::find(::<.*>)?$', callee_name(t)):
                continue
            roots = {r_ for (_, r_) in ip.expand(x, ip.prov(x).op_roots(t['args'][0]))}
            comp = sorted({COMPONENT.search(r_[1]).group(1) for r_ in roots if r_[0] == 'call' and COMPONENT.search(r_[1])})
            whole = [r_ for r_ in roots if r_[0] in ('call', 'param') and not (r_[0] == 'call' and COMPONENT.search(r_[1]))]
            entry = (x, xb.blocks[bb].get('line') if isinstance(xb.blocks[bb], dict) else None, comp, bool(whole))
            # the guard side is the `find` whose result feeds the checked get / is_ascii_digit test
            (guard_side if any(re.search(r'is_ascii_digit$|str>?::get(::<.*>)?$', n) for n in names | {callee_name(t2) for y in scope if y.startswith(x + '::{closure') for _, t2 in f.bodies[y].calls()})
             and x != b.path else parse_side).append(entry)
    if guard_side and not parse_side:
        # the number is taken by the very code the filter uses (one helper, no second lookup in the root body): same string by construction
        return True, f"one lookup shared by filter and number ({guard_side[0][0]})"
    if not guard_side:
        raise CheckError(f"R10.1 restart number: guard side {guard_side} / parse side {parse_side} not recognised")
    g = {tuple(e[2]) for e in guard_side}
    if len(g) != 1 or any(e[3] for e in guard_side) or not next(iter(g)):
        raise CheckError(f"R10.1 restart number: the sibling filter does not examine one path component: {guard_side}")
    gc = next(iter(g))
    for e in parse_side:
        if e[3] or tuple(e[2]) != gc:
            return False, (f"the sibling filter examines {'/'.join(gc)}() of the candidate, but the number is then looked up in "
                           f"{('/'.join(e[2]) + '()') if e[2] else ''}{' and ' if e[2] and e[3] else ''}{'the whole path' if e[3] else ''} ({e[0]})")
    return True, f"both sides: {'/'.join(gc)}()"


def user_callbacks(R, ctx):
    f, cg, la = ctx.f, ctx.cg, ctx.locks
    n = 0
    for p_, es in sorted(cg.ext.items()):
        b = f.bodies[p_]
        if b.doc_hidden or 'validate_logs' in p_:
            continue
        for (name, bb, t) in es:
            is_user = name.startswith(cg.USER)
            if name.endswith('ToString>::to_string') and 'std::fmt::Arguments' in (t['callee'].get('self_ty') or ''):
                is_user = True      # Display of the message = user Display implementations
            if not is_user:
                continue
            if p_ in cg.format_fns and not name.startswith(cg.USER):
                continue        # inside a format function: reported once, at the call site of the format function
            what = name.replace(cg.USER + ':', '')
            if what.endswith(('LogWriter::validate_logs', 'LogWriter::max_log_level', 'LogWriter::format', 'AsAny::as_any_ref')):
                continue
            held = sorted(h for h in la.may_held(p_, bb) if guard_kind(h) == 'lock')
            n += 1
            # a deviation is identified by the lock and the kind of callback (the call site may move between helpers)
            key = f"{root_fn(p_)}|{what}" if not held else f"under:{'+'.join(sorted({protected(h) for h in held}))}|{what}"
            R.check('R10.3', key, not held, "no non-reentrant lock held at the callback",
                    f"{p_} calls user code ({what}) while holding {[protected(h) for h in held]}: a callback that logs (e.g. a Display impl) dead-locks or re-enters the same lock",
                    where=b.loc(bb), witness=f"held: {held}")
    if n < 8:
        raise CheckError(f"only {n} user-callback sites found")


def lock_order(R, ctx):
    la = ctx.locks
    edges = {}
    for (p_, bb, acq, held, kind) in la.acquisitions():
        if guard_kind(acq) != 'lock':
            continue
        for h in held:
            if guard_kind(h) != 'lock':
                continue
            a, b_ = protected(h), protected(acq)
            edges.setdefault((a, b_), []).append((p_, bb))
    g = {}
    for (a, b_) in edges:
        g.setdefault(a, set()).add(b_)
    # cycles (incl. self edges)
    cycles = []
    for (a, b_) in edges:
        if a == b_:
            cycles.append([a, a])
    color = {}

    def dfs(u, stack):
        color[u] = 1
        stack.append(u)
        for v in g.get(u, ()):
            if v == u:
                continue
            if color.get(v) == 1:
                cycles.append(stack[stack.index(v):] + [v])
            elif v not in color:
                dfs(v, stack)
        stack.pop()
        color[u] = 2
    for u in list(g):
        if u not in color:
            dfs(u, [])
    BENIGN = {('logger::ErrorChannel', 'logger::ErrorChannel'): "set_error_channel reports a poisoned write lock through eprint_err: only on a poisoned lock, which nothing can cause (no may-panic site under it)"}
    for cyc in cycles:
        key = '->'.join(cyc)
        if len(cyc) == 2 and (cyc[0], cyc[1]) in BENIGN:
            R.ok('R10.4', f"cycle:{key}", BENIGN[(cyc[0], cyc[1])], nontrivial=False)
            continue
        sites = edges.get((cyc[0], cyc[1]), [])
        R.bad('R10.4', f"cycle:{key}", f"lock-order cycle {key}: two threads taking these locks in opposite order dead-lock", where=sites[0][0] if sites else None,
              witness=[f"{a}->{b_} at {s[:3]}" for (a, b_), s in edges.items() if a in cyc and b_ in cyc][:4])
    R.ok('R10.4', 'lock-order', f"{len(edges)} lock-order edges, acyclic apart from triaged poison-only self edges", sample={'edges': sorted(f"{a} -> {b_}" for (a, b_) in edges)})


def loops(R, ctx, reach):
    f = ctx.f
    for p in sorted(reach):
        b = f.bodies[p]
        if b.promoted is not None or b.doc_hidden or 'validate_logs' in p:
            continue
        for l in P.loops_of(b):
            cal = l['callees']
            if any(re.search(r'Iterator>::next$|::next$', c) for c in cal):
                # iterator-driven: the None edge of next leaves the loop
                R.ok('R10.7', f"{root_fn(p)}|loop@iter", 'iterator-driven loop', nontrivial=True)
                continue
            if any(re.search(r'Receiver::<T>::recv(_timeout)?$', c) for c in cal):
                R.ok('R10.7', f"{root_fn(p)}|loop@recv", 'receive/timer-driven thread loop')
                continue
            tri = next(((why, chk) for rx, (why, chk) in LOOP_TRIAGE.items() if re.search(rx, p)), None)
            if tri is None:
                R.bad('R10.7', f"{root_fn(p)}|loop@other", f"loop in {p} (line {l['line']}) is neither iterator- nor receive-driven and not in the triaged loop table: its termination is not argued "
                      f"(calls inside: {[c.split('::')[-1] for c in cal][:6]})", where=b.loc(l['header']))
                continue
            ok = True
            why = tri[0]
            if tri[1] == 'buffer_guard':
                ok, detail = buffer_guard(b, l)
                if not ok:
                    R.bad('R10.7', f"{root_fn(p)}|loop@other", f"eviction loop in {p}: {detail} — with an empty queue and a line longer than max_size the loop never ends (the log call hangs while holding the buffer lock)",
                          where=b.loc(l['header']))
                    continue
            R.ok('R10.7', f"{root_fn(p)}|loop@other", f"triaged: {why}")


def buffer_guard(b, loop):
    """the loop header is guarded: a comparison `len(line) > max_size` whose true edge reaches VecDeque::clear and bypasses the loop"""
    clears = [bb for bb, t in b.calls() if callee_name(t).endswith('VecDeque::<T, A>::clear')]
    if not clears:
        return False, "the guard `line longer than max_size -> clear()` is gone"
    hdr = loop['header']
    # find a switch block S dominating hdr... in fact: S dominates both the clear and the loop header, one edge leads to clear (not entering the loop), the other to the loop
    for s in sorted(b.normal_blocks()):
        t = b.blocks[s]['term']
        if t['k'] != 'switch':
            continue
        succs = b.succ(s)
        if len(succs) != 2:
            continue
        for a_, c_ in ((succs[0], succs[1]), (succs[1], succs[0])):
            ra = C.reachable_from(b, a_, avoid=[hdr])
            if any(cl in ra for cl in clears) and hdr in C.reachable_from(b, c_) and not any(cl in C.reachable_from(b, c_, avoid=[]) and C.dominates(b, c_, cl) for cl in clears):
                # the condition compares a len() with max_size using Gt
                cond_ok = False
                for st in b.blocks[s]['stmts']:
                    if st['k'] == 'assign' and st['rv']['k'] == 'binop' and st['rv']['op'] in ('Gt', 'Ge', 'Lt', 'Le'):
                        cond_ok = True
                if cond_ok and all(x not in loop['blocks'] for x in clears):
                    return True, ''
    return False, "no branch `len > max_size` that clears the buffer instead of entering the loop dominates the loop"
