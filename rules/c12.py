"""C12 — concurrent specification changes end in one consistent specification and gate."""
from rulelib import *
from locks import guard_classes
from report import CheckError

EXPLANATION = ("Decides the lock-scope premises that make (specification, global max level) updates atomic for every "
               "interleaving: R12.1 every call site reaching log::set_max_level inside the function that takes the "
               "specification write lock executes while that RwLockWriteGuard is must-held and after update_from; "
               "R12.2 the level handed to the gate derives from max_level() of the same specification that update_from stores; "
               "R12.3 closed set of callers of the gate; R12.4 no user callback under the write guard. R12.1 also: every path after update_from sets the gate (no conditional update) and the storing function does not read log::max_level(). R12.5 'one specification as a whole': update_from replaces every field (shared with R02.6). R12.6 the gate installed with a specification covers it: max(spec level, every writer's ceiling) (shared with R02.4).")
ASSUMPTIONS = ["RwLock write guards serialise their critical sections (std)",
               "Logger::build runs before the handle is shared (checked: allow-listed entry)"]
NOT_DECIDED = ["which of the concurrently submitted specifications wins", "fairness"]
FLOORS = {'R12.1': 1, 'R12.2': 1, 'R12.3': 1}

SPEC_GUARD = "std::sync::RwLockWriteGuard<'_, log_specification::LogSpecification>"
GATE = lambda n, t: n == 'log::set_max_level'


def run(R, ctx):
    f, cg, la = ctx.f, ctx.cg, ctx.locks
    R.rule('R12.1', 'MUST-HOLD(spec write guard, log::set_max_level) in every function acquiring the spec write lock; update_from dominates the gate')
    R.rule('R12.2', 'PROVENANCE(gate level <= max_level(new_spec param)), update_from consumes the same param')
    R.rule('R12.3', 'WHO-MAY-CALL(log::set_max_level) and entries reaching it outside the locked region')
    R.rule('R12.4', 'MUST-NOT-HOLD(spec write guard, USER callback)')

    # functions acquiring the spec write lock
    W = []
    for b in f.fn_bodies():
        for bb, t in b.calls():
            if callee_name(t) == 'std::sync::RwLock::<T>::write' and SPEC_GUARD in ''.join(guard_classes(t['dest_ty'])):
                W.append((b, bb))
    if not W:
        raise CheckError('no function acquires RwLock<LogSpecification>::write')
    wpaths = {b.path for b, _ in W}
    for b, wbb in W:
        sites = cg.call_sites_reaching(b, GATE)
        if not sites:
            R.bad('R12.1', f"{b.path}|no-gate", f"{b.path} takes the specification write lock but never reaches log::set_max_level: "
                  "the global max level is not recomputed with the new specification", where=b.loc(wbb))
        upd = calls_named(b, r'LogSpecification::update_from$')
        # once the specification is stored, the gate is set on EVERY path to the return: a conditional set (e.g. "only if the level
        # differs from log::max_level() read earlier") decides on a value another thread may have changed in between
        for ubb, _ in upd:
            follows = must_pass_after(b, ubb, [s_[0] for s_ in sites])
            R.check('R12.1', f"{b.path}|gate-after-every-store", follows, "every path after update_from sets the gate",
                    f"{b.path}: a path after update_from returns without setting log's max level (conditional gate update): two concurrent changes can end with "
                    "the specification of one and the gate of the other", where=b.loc(ubb))
        reads = [bb for bb, t in b.calls() if callee_name(t) == 'log::max_level']
        R.check('R12.1', f"{b.path}|no-gate-read", not reads, "the function does not read log::max_level()",
                f"{b.path} reads log::max_level() (at {[b.loc(x) for x in reads][:2]}): a decision based on it is stale as soon as another thread changes the specification",
                where=b.loc(reads[0]) if reads else b.loc())
        for (bb, callee, kind) in sites:
            held = la.must_held_local(b.path, bb)
            ok = SPEC_GUARD in held
            upd_before = any(C.dominates(b, ubb, bb) for ubb, _ in upd)
            R.check('R12.1', f"{b.path}|gate-via:{callee}", ok and upd_before,
                    f"gate call via {callee} executes with the spec write guard held, after update_from",
                    f"call reaching log::set_max_level via {callee} executes "
                    + ("WITHOUT the specification write guard (guard dropped before the call: a concurrent change can interleave between update_from and the gate)" if not ok else "")
                    + ("" if upd_before else " before/without update_from under the same guard"),
                    where=b.loc(bb), witness=f"must-held guards at the call: {sorted(held)}",
                    sample={'fn': b.path, 'site': b.loc(bb), 'must_held': sorted(held), 'update_from_dominates': upd_before})
            # R12.2 provenance of the level
            p = ctx.ip.prov(b.path)
            t = b.blocks[bb]['term']
            lvl_roots = set()
            for a in t['args']:
                lvl_roots |= p.op_roots(a)
            lvl_roots = deep_call_roots(ctx, b, lvl_roots)
            from_max = [r for r in lvl_roots if r[0] == 'call' and r[1].endswith('LogSpecification::max_level')]
            good = False
            spec_param = None
            for r in from_max:
                mt = b.blocks[r[2]]['term']
                rr = p.op_roots(mt['args'][0])
                params = {x[1] for x in rr if x[0] == 'param'}
                for (ubb, ut) in upd:
                    ur = p.op_roots(ut['args'][1])
                    if params & {x[1] for x in ur if x[0] == 'param'}:
                        good = True
                        spec_param = sorted(params)[0]
            # when the gate is called directly (after a repair) the level may be pre-folded with writer ceilings
            R.check('R12.2', f"{b.path}|level-via:{callee}", good,
                    f"level passed towards the gate derives from max_level() of parameter _{spec_param}, which update_from stores",
                    "the level passed towards the gate does not derive from max_level() of the specification that update_from stores",
                    where=b.loc(bb), witness=f"roots: {sorted(map(str, lvl_roots))[:8]}")
        # R12.4: USER callbacks under the write guard
        for bb2, t2 in b.calls():
            held = la.bl[b.path].classes(la.bl[b.path].may_at_term(bb2))
            if SPEC_GUARD not in held:
                continue
            n2 = callee_name(t2)
            if n2 in f.bodies:
                users = cg.reaches_effect(n2, lambda n, t: n.startswith(cg.USER))
            else:
                users = [(b.path, bb2, x) for (x, xb, xt) in cg.ext.get(b.path, []) if xb == bb2 and x.startswith(cg.USER)]
            R.check('R12.4', f"{b.path}|under-guard:{n2}", not users,
                    f"{n2} under the write guard reaches no user callback",
                    f"{n2} is called while the specification write guard is held and reaches user code {users[:2]}: a callback that logs dead-locks on the spec lock",
                    where=b.loc(bb2))

    # R12.3 who may call the gate, and which entries reach it without passing through a locked region
    EXEMPT = {'logger::Logger::build'}  # handle not yet shared: created in build and only returned
    direct = sorted({root_fn(p) for p, es in cg.ext.items() for (n, bb, t) in es if n == 'log::set_max_level'})
    for p in direct:
        # either the function that stores the specification under the write lock (R12.1 decides the lock scope there), or a
        # private helper of the exempt start-up entry (reached from nowhere else)
        okp = p in wpaths or only_called_from(cg, p, EXEMPT)
        R.check('R12.3', f"direct-caller:{p}", okp,
                f"{p} sets the gate " + ("where the specification is stored" if p in wpaths else "only on behalf of Logger::build"),
                f"unexpected direct caller of log::set_max_level: {p} (the gate must only be set where the specification is stored)",
                where=f.bodies[p].loc())
    for e in pub_api_bodies(f):
        if e.path in wpaths:
            continue
        hit = cg.reaches_effect(e.path, GATE, stop=wpaths | EXEMPT)
        if e.path in EXEMPT:
            R.ok('R12.3', f"entry:{e.path}", 'exempt: the handle is created here and not yet shared', nontrivial=False)
            continue
        if hit:
            R.bad('R12.3', f"entry:{e.path}", f"public entry {e.path} reaches log::set_max_level outside the function that holds the specification write lock "
                  f"(chain: {cg.chain(e.path, GATE)})", where=e.loc())
    R.ok('R12.3', 'entries', f"no public entry other than {sorted(EXEMPT)} reaches the gate outside {sorted(wpaths)}")
    # 'one specification as a whole': the store replaces every field of the active specification (shared with R02.6/R05.3)
    R.rule('R12.5', 'update_from replaces every field (shared with R02.6)')
    import c02 as _c02
    _c02.fields(Relabel(R, {'R02.6': 'R12.5'}), ctx)
    # 'a consistent specification AND gate': the gate value computed inside the atomic update covers the specification it installs
    # (max of the specification's level and every additional writer's ceiling; shared with R02.4)
    R.rule('R12.6', 'the gate installed with a specification covers it: max(spec level, writers) (shared with R02.4)')
    _c02.global_gate(Relabel(R, {'R02.4': 'R12.6'}), ctx)

