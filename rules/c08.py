"""C08 — size criterion: rotate exactly when the current file already exceeds the limit."""
from rulelib import *
from report import CheckError
from fdi import FDI, Const, Agg, Sym, Undecided
import table as T

EXPLANATION = ("R08.1 decision table of RollState::rotation_necessary (and of the branch guarding the rotation) equals "
               "rotate <=> force or [Size: current_size > max_size] or [AgeOrSize: size or age] or [Age: age], with operand origin checked; "
               "R08.2 in the record sink the rotation decision precedes write_all, the size is accounted after the successful "
               "write only, with the length of the slice that was written; R08.3 increase_size adds to current_size for Size and "
               "AgeOrSize; R08.4 the counters are reset after the writer swap; R08.5 current_size is seeded from the file length "
               "iff appending, for both size-bearing criteria; R08.6 closed set of writers of current_size. R08.4: the reset follows the writer swap on every path, before any later fallible step. R08.7 one sink call per record, line ending included (emission table shared with R01.1): the rotation decision is per sink call."
               " R08.5 also: in StateHandle::reset nothing opens a log file or reads its length before the old state (whose BufWriter may hold bytes of the same file) has been replaced."
               " R08.8 criterion wiring: the Criterion given to rotate()/o_rotate() reaches the rotation configuration of the state unchanged (shared configuration-wiring tables, rules/cfgwiring.py)."
               " R08.9 (shared with R01.6/R06.4): a rotation switches to ANOTHER file - every timestamp name a rotation opens passes the collision check, so the size counter is never reset while the same file is continued."
               " R08.10 (shared with R09.7): only the record sink and the explicit rotation request ask for the rotation decision.")
ASSUMPTIONS = ["accounted size = bytes handed to write_all (BufWriter/OS semantics are not modelled)",
               "u64 counters do not overflow (16 EiB)"]
NOT_DECIDED = ["accounted size equals on-disk size (external writers, partial failed writes)", "when buffered bytes reach the disk"]
FLOORS = {'R08.1': 6, 'R08.2': 3, 'R08.3': 3, 'R08.4': 1, 'R08.5': 4, 'R08.6': 1}

ROLL = 'writers::file_log_writer::state::RollState'
ACCESSORS = {'year': 'Datelike', 'month': 'Datelike', 'day': 'Datelike', 'hour': 'Timelike', 'minute': 'Timelike', 'second': 'Timelike'}


def classify_rotation_atom(a, v, info, self_name='self'):
    """maps an atom of the rotation decision onto the vocabulary of the oracle"""
    k = info.get('kind')
    if k == 'variant' and T.strip_refs(info.get('of')) == ('in', 'force'):
        return ('trigger', v)           # the trigger as a private enum instead of a bool flag
    if k == 'variant':
        ch = T.field_chain(info['of'])
        if info.get('ty') == ROLL:
            return ('crit', v)
        if info.get('ty') == 'parameters::age::Age':
            return ('age', v)
        return None
    if k == 'ord':
        xa, xb = T.strip_refs(info['a']), T.strip_refs(info['b'])
        ca, cb = T.field_chain(xa), T.field_chain(xb)
        if ca and cb and {ca[-1], cb[-1]} == {'current_size', 'max_size'}:
            rel = v if ca[-1] == 'current_size' else T.flip(v)
            return ('size', rel)   # relation of current_size to max_size
        # accessor comparisons
        if xa[0] == 'call' and xb[0] == 'call' and xa[1] == xb[1]:
            m = re.match(r"^<chrono::DateTime<Tz> as chrono::(Datelike|Timelike)>::(\w+)$", xa[1])
            if m and m.group(2) in ACCESSORS:
                args = [T.strip_refs(xa[2][0]), T.strip_refs(xb[2][0])]
                nows = [x for x in args if x[0] == 'eff' and x[1] == 'chrono::Local::now']
                cre = [x for x in args if T.field_chain(x) and T.field_chain(x)[-1] == 'created_at']
                if len(nows) == 1 and len(cre) == 1:
                    return ('d_' + m.group(2), v != 'eq')
        return None
    if k == 'variant' and T.strip_refs(info.get('of')) == ('in', 'force'):
        return ('trigger', v)           # the trigger as a private enum instead of a bool flag
    if k in ('bool', 'switch'):
        x = T.strip_refs(info.get('x'))
        if x == ('in', 'force'):
            return ('trigger', bool(v) if not isinstance(v, str) else v != '0')
        if isinstance(x, tuple) and x[0] in ('call', 'eff') and x[1].endswith('RollState::rotation_necessary'):
            return ('necessary', bool(v) if not isinstance(v, str) else v != '0')
    return None


def D(env, age):
    order = ['year', 'month', 'day', 'hour', 'minute', 'second']
    upto = {'Day': 3, 'Hour': 4, 'Minute': 5, 'Second': 6}.get(age)
    if upto is None:
        return None
    return T.or3(*[env.get('d_' + f) for f in order[:upto]])


def oracle_rotation(env):
    crit = env.get('crit')
    size = T.rel_to_bool(env.get('size'), 'gt')
    if crit == 'Size':
        return size
    if crit == 'Age':
        return D(env, env.get('age'))
    if crit == 'AgeOrSize':
        return T.or3(size, D(env, env.get('age')))
    return None


def rotation_table(R, ctx, rule, want):
    """decision table of RollState::rotation_necessary; `want` selects the rows reported under this property"""
    f = ctx.f
    I = FDI(f, effects=[r'^chrono::Local::now$', r'^chrono::Utc::now$', r'SystemTime::now$'])
    b = ctx.body(r'^writers::file_log_writer::state::RollState::rotation_necessary$')
    rows = I.run(b.path)
    res = T.compare(rows, classify_rotation_atom, oracle_rotation)
    groups = {}
    for r in rows:
        crit = r.get('variant(self)')
        age = r.get('variant(self.age)')
        groups.setdefault((crit, age), []).append(r)
    bad = {}
    for (r, text, env) in res.mismatches:
        bad.setdefault((r.get('variant(self)'), r.get('variant(self.age)')), []).append((r, text))
    for (r, why) in res.undecided:
        bad.setdefault((r.get('variant(self)'), r.get('variant(self.age)')), []).append((r, 'UNDECIDED: ' + why))
    for (crit, age), rs in sorted(groups.items(), key=str):
        if not want(crit):
            continue
        key = f"rotation_necessary|{crit}|{age}"
        if (crit, age) in bad:
            r0, text = bad[(crit, age)][0]
            R.bad(rule, key, f"rotation decision for criterion {crit}" + (f"({age})" if age else '') + f": {text}",
                  where=b.loc(), witness=[f"row: {r0.cond}", f"{len(bad[(crit, age)])} of {len(rs)} rows deviate"])
        else:
            R.ok(rule, key, f"{len(rs)} rows agree with the documented decision",
                 sample={'criterion': crit, 'age': age, 'rows': len(rs), 'example_row': [f"{a}={v}" for a, v in rs[0].cond][-3:], 'result': repr(rs[0].result)})
    # all three criteria must have been seen
    seen = {c for (c, a) in groups}
    for c in ('Size', 'Age', 'AgeOrSize'):
        if want(c) and c not in seen:
            R.bad(rule, f"rotation_necessary|{c}|missing", f"criterion {c} does not occur in the decision", where=b.loc())
    return rows


def run(R, ctx):
    R.rule('R08.8', 'criterion wiring: the Criterion given to rotate()/o_rotate() reaches the rotation configuration of the state unchanged')
    import cfgwiring
    cfgwiring.config_wiring(R, ctx, 'R08.8', 'C08')
    # a rotation that re-opens the file it has just closed is no rotation: the counters are reset while the records keep going to the file that already
    # exceeds the limit.  Every timestamp name a rotation opens therefore passes the collision check (table shared with R01.6 / R06.4)
    R.rule('R08.9', 'a rotation switches to another file: every timestamp name opened by a rotation passes the collision check (shared with R01.6)')
    import c01 as _c01r
    _c01r.collision_rules(Relabel(R, {'R01.6': 'R08.9'}), ctx)
    # the size criterion is examined when a record arrives, never by a flush / timer (who-may-call rule shared with R09.7)
    R.rule('R08.10', 'WHO-MAY-CALL(rotation decision) = record sink + explicit rotation request (shared with R09.7)')
    import c09 as _c09w
    _c09w.who_triggers_rotation(R, ctx, rule='R08.10')
    f, cg = ctx.f, ctx.cg
    R.rule('R08.1', 'TABLE(rotation decision) for Size and the size part of AgeOrSize; guard of the rotation = force or rotation_necessary')
    R.rule('R08.2', 'ORDER/GUARDED-EFFECT in the record sink: decide -> write_all -> increase_size(len of the written slice) on Ok only')
    R.rule('R08.3', 'TABLE(increase_size): adds the argument to current_size for Size and AgeOrSize, no-op for Age')
    R.rule('R08.4', 'MUST-FOLLOW(writer swap -> reset of the counters) in the rotation function')
    R.rule('R08.5', 'TABLE(RollState::new): current_size <= metadata(path).len() iff append, else 0, for Size and AgeOrSize')
    R.rule('R08.6', 'WHO-MAY-WRITE(current_size)')

    rotation_table(R, ctx, 'R08.1', lambda c: c in ('Size', 'AgeOrSize'))
    mount_guard(R, ctx, 'R08.1')
    sink_rules(R, ctx)
    increase_size_table(R, ctx)
    reset_rules(R, ctx)
    new_table(R, ctx)
    reset_seeding(R, ctx)
    who_writes(R, ctx)
    # the rotation decision is taken per call of the record sink: a record stays whole (and is counted once) only if it reaches the
    # sink in ONE call, line ending included; decided by the emission table (shared with R01.1)
    R.rule('R08.7', 'one sink call per record, line ending included (shared with R01.1)')
    import c01 as _c01
    _c01.emission(R, ctx, 'R08.7', roots=(_c01.FILE_ROOT,), le_pattern='line_ending')


# ---------------------------------------------------------------------------------------------------------
def find_sink(ctx):
    """the record sink: the body that calls write_all on the Box<dyn Write + Send> writer of State"""
    out = []
    for b in ctx.f.fn_bodies():
        for bb, t in b.calls():
            n = callee_name(t)
            if n.endswith('::write_all') and 'Box<dyn std::io::Write + std::marker::Send>' in (t['callee'].get('self_ty') or '') + (t['callee'].get('resolved_self') or '') + ' '.join(t['callee'].get('targs', [])):
                if b.impl_self and b.impl_self.endswith('state::State'):
                    out.append((b, bb))
    if len(out) != 1:
        raise CheckError(f"record sink not found unambiguously: {[(b.path, bb) for b, bb in out]}")
    return out[0]


def sink_trigger_value(ctx):
    """the value the record sink hands to the rotation function as its trigger argument (false / a variant of a private enum)"""
    f = ctx.f
    sb, _ = find_sink(ctx)
    MN = r'State::mount_next_linewriter_if_necessary$'
    rows = FDI(f, effects=[MN], no_inline=[MN, r'State::initialize$', r'util::eprint_err$']).run(sb.path)
    vals = set()
    for r in rows:
        for e in r.effects:
            if re.search(MN, e[0]):
                x = e[2]['x'][1]
                vals.add(x[1] if x[0] == 'const' else x[2] if x[0] == 'agg' else repr(x))
    if len(vals) != 1:
        raise CheckError(f"the record sink passes {sorted(map(str, vals))} as rotation trigger (expected one constant)")
    return next(iter(vals))


def mount_guard(R, ctx, rule):
    """in the rotation function the rotation is guarded by exactly force || rotation_necessary()"""
    f = ctx.f
    b = ctx.body(r'^writers::file_log_writer::state::State::mount_next_linewriter_if_necessary$')
    EFF = [r'state::open_log_file$', r'RollState::rotation_necessary$', r'numbers::index_for_rcurrent$',
           r'timestamps::creation_timestamp_of_currentfile$', r'collision_free_infix_for_rotated_file$', r'^chrono::Local::now$',
           r'timestamps::infix_from_timestamp$', r'numbers::number_infix$', r'reset_size_and_date$', r'remove_or_compress_too_old_logfiles(_impl)?$']
    I = FDI(f, effects=EFF, no_inline=[r'state::open_log_file$', r'RollState::rotation_necessary$', r'numbers::index_for_rcurrent$',
                                       r'timestamps::creation_timestamp_of_currentfile$', r'collision_free_infix_for_rotated_file$',
                                       r'timestamps::infix_from_timestamp$', r'numbers::number_infix$', r'reset_size_and_date$',
                                       r'remove_or_compress_too_old_logfiles(_impl)?$', r'infix_filter$', r'writes_direct$'], loop_k=1)
    rows = I.run(b.path, arg_names=['self', 'force'])
    n_ok = 0
    sink_val = sink_trigger_value(ctx)
    seen_trig = set()
    for r in rows:
        if r.undecided:
            R.bad(rule, f"{b.path}|guard|undecided", f"rotation guard could not be decided: {r.undecided}", where=b.loc())
            return
        env = {}
        for a, v in r.cond:
            c = classify_rotation_atom(a, v, r.atom_info.get(a, {}))
            if c:
                env[c[0]] = c[1]
        rotates = any(not e[0].endswith('rotation_necessary') for e in r.effects)
        active_rot = r.get('variant(self.inner)') == 'Active' and r.get('variant(self.inner.0)') == 'Some'
        # the value the record sink passes means "rotate if the criterion is met"; every other value is an explicit request
        trig = env.get('trigger')
        forced = None if trig is None else (str(trig) != str(sink_val))
        seen_trig.add(forced)
        if not active_rot:
            exp = False
        else:
            exp = T.or3(forced, env.get('necessary'))
        if exp is None or exp != rotates:
            R.bad(rule, f"{b.path}|guard", f"rotation is carried out = {rotates} although trigger={trig} (the record sink passes {sink_val}) rotation_necessary={env.get('necessary')} "
                  f"(documented: rotate iff explicitly requested or the criterion is met, and only with an active rotation state)", where=b.loc(),
                  witness=f"row {r.cond}")
            return
        n_ok += 1
    if not {True, False} <= seen_trig:
        raise CheckError(f"{rule}: the rotation trigger parameter was not recognised on the rows (seen {seen_trig})")
    R.ok(rule, f"{b.path}|guard", f"{n_ok} rows: a new file is opened iff (force or rotation_necessary()) in the active rotating state",
         sample={'rows': n_ok, 'fn': b.path})


def sink_rules(R, ctx):
    f, cg = ctx.f, ctx.cg
    b, wbb = find_sink(ctx)
    wt = b.blocks[wbb]['term']
    # decision dominates the write
    dec = [s[0] for s in cg.call_sites_reaching(b, lambda n, t: False)]  # placeholder (no external effect)
    mounts = [bb for bb, t in b.calls() if callee_name(t).endswith('mount_next_linewriter_if_necessary') or
              'RollState::rotation_necessary' in ' '.join(cg.chain(callee_name(t), lambda n, t2: False) or [])]
    mounts = [bb for bb, t in b.calls() if callee_name(t) in f.bodies and
              'writers::file_log_writer::state::RollState::rotation_necessary' in cg.reachable([callee_name(t)], spawn=False)]
    R.check('R08.2', f"{b.path}|decide-before-write", bool(mounts) and any(C.dominates(b, m, wbb) for m in mounts) and
            not any(C.path_exists(b, wbb, m) for m in mounts),
            "the rotation decision dominates write_all and is never taken after it",
            "write_all in the record sink is not preceded by the rotation decision (a record could be appended to a file that already exceeds the limit)",
            where=b.loc(wbb))
    # the written data is the slice parameter itself
    p = ctx.ip.prov(b.path)
    data_roots = p.op_roots(wt['args'][1])
    params = {r[1] for r in data_roots if r[0] == 'param'}
    sliced = [r for r in data_roots if r[0] in ('call', 'via') and re.search(r'(index|get|split|slice|\.\.|Index)', r[1])]
    R.check('R08.2', f"{b.path}|writes-whole-param", len(params) == 1 and not sliced,
            f"write_all writes parameter _{sorted(params)[0] if params else '?'} unsliced",
            f"the data written is not exactly the buffer parameter (roots {sorted(map(str, data_roots))[:5]})", where=b.loc(wbb))
    # size accounting: on Ok edge only, with len() of the same param
    incs = [(bb, t) for bb, t in b.calls() if callee_name(t).endswith('RollState::increase_size')]
    edges = ok_block_of_call(b, wbb)
    if not incs:
        R.bad('R08.2', f"{b.path}|accounting", "the record sink never accounts the written bytes (increase_size is not called)", where=b.loc(wbb))
    for ibb, it in incs:
        on_ok = any(C.dominates(b, e[0], ibb) for e in edges)
        on_err = any(ibb in C.reachable_from(b, e[1]) for e in edges)
        before = C.path_exists(b, ibb, wbb)
        roots = p.op_roots(it['args'][1])
        for r_ in list(roots):
            if r_[0] == 'call' and r_[1].endswith('::len'):
                roots |= p.op_roots(b.blocks[r_[2]]['term']['args'][0])
        len_of_param = any(r[0] in ('unop',) and r[1] == 'PtrMetadata' for r in roots) or any(r[0] in ('call', 'via') and r[1].endswith('::len') for r in roots)
        same = bool(params & {r[1] for r in roots if r[0] == 'param'})
        consts = [r for r in roots if r[0] == 'const']
        arith = [r for r in roots if r[0] == 'binop']
        R.check('R08.2', f"{b.path}|accounting", on_ok and not on_err and not before and len_of_param and same and not consts and not arith,
                "increase_size(len of the written buffer) only after the successful write",
                "size accounting deviates: " + ', '.join(x for x, c in [("not on the Ok edge of write_all", not on_ok), ("also reachable after a failed write", on_err),
                                                                         ("executed before the write", before), ("argument is not len() of the written buffer", not (len_of_param and same)),
                                                                         ("argument involves a constant/arithmetic", bool(consts or arith))] if c),
                where=b.loc(ibb), witness=f"roots {sorted(map(str, roots))[:6]}")
        # every Ok path with a rotation state accounts: the Some-edge guard is the only skip
        # (checked as: increase_size post-dominates the Ok edge modulo the None edge of the rotation-state test)
    return b


def increase_size_table(R, ctx):
    f = ctx.f
    b = ctx.body(r'^writers::file_log_writer::state::RollState::increase_size$')
    I = FDI(f)
    rows = I.run(b.path)
    seen = set()
    for r in rows:
        crit = r.get('variant(self)')
        seen.add(crit)
        if r.undecided:
            R.bad('R08.3', f"increase_size|{crit}", f"UNDECIDED: {r.undecided}", where=b.loc())
            continue
        # the final value of self.current_size is recorded through the result's environment: inspect the refinement
        final = r.final_self if hasattr(r, 'final_self') else None
    # simpler and robust: structural reading of the MIR — for each variant arm the store into current_size is
    # `current_size = current_size + add` (AddWithOverflow of the field and parameter 2)
    p = ctx.ip.prov(b.path)
    stores = []
    for bb in sorted(b.normal_blocks()):
        for s in b.blocks[bb]['stmts']:
            if s['k'] == 'assign' and s['place']['p']:
                stores.append((bb, s))
    arms = {}
    for r in rows:
        arms.setdefault(r.get('variant(self)'), []).append(r)
    for crit in ('Size', 'AgeOrSize', 'Age'):
        rs = arms.get(crit, [])
        if not rs:
            R.bad('R08.3', f"increase_size|{crit}", f"variant {crit} not handled", where=b.loc())
            continue
        notes = [n for r in rs for n in r.notes if n.startswith('overflow-check')]
        adds = any(('add' in n and 'current_size' in n) for n in notes)
        if crit == 'Age':
            R.check('R08.3', f"increase_size|{crit}", not notes, "no-op for Age", "increase_size changes state for the Age criterion", where=b.loc())
        else:
            R.check('R08.3', f"increase_size|{crit}", adds and len(notes) == 1,
                    f"current_size += add ({notes})", f"increase_size does not add its argument to current_size for {crit} (observed arithmetic: {notes})", where=b.loc(),
                    sample={'criterion': crit, 'arithmetic': notes})


def reset_rules(R, ctx):
    f, cg = ctx.f, ctx.cg
    b = ctx.body(r'^writers::file_log_writer::state::State::mount_next_linewriter_if_necessary$')
    # writer swap = assignment through a &mut Box<dyn Write + Send>
    swaps = []
    for bb in sorted(b.normal_blocks()):
        for s in b.blocks[bb]['stmts']:
            if s['k'] == 'assign' and s['place']['p'] and 'Box<dyn std::io::Write + std::marker::Send>' in b.local_ty(s['place']['l']) \
                    and s['place']['p'][-1]['k'] == 'deref':
                swaps.append(bb)
        t = b.blocks[bb]['term']
    RESET = 'writers::file_log_writer::state::RollState::reset_size_and_date'
    resets = [bb for bb, t in b.calls() if callee_name(t) == RESET or (callee_name(t) in f.bodies and RESET in cg.reachable([callee_name(t)], spawn=False))]
    if not swaps:
        # the swap may be a Drop+assign pair (drop elaboration): look for DROP of (*writer) followed by assignment
        for bb in sorted(b.normal_blocks()):
            t = b.blocks[bb]['term']
            if t['k'] == 'drop' and 'Box<dyn std::io::Write + std::marker::Send>' in t['ty'] and t['place']['p']:
                swaps.append(bb)
    if not swaps:
        raise CheckError('writer swap not found in the rotation function')
    # on EVERY path after the swap - also one that ends with an error of a later step (e.g. a failing cleanup): the new file is
    # mounted at that point, so its counters must be the new file's, or the next record rotates again / never
    ok = bool(resets) and all(must_pass_after(b, s, resets) for s in swaps)
    R.check('R08.4', f"{b.path}|reset-after-swap", ok, "reset_size_and_date follows the writer swap on every path, before any later fallible step",
            "after the writer swap the size/date state is not reset on every path (the new file would inherit the old size and rotate at once, or never)",
            where=b.loc(swaps[0]))
    # the counters are reset only where a NEW file was mounted: re-opening the same path (reopen_output) appends to whatever is
    # there, so a reset there would let the file grow to twice the limit
    callers = sorted({root_fn(a) for (a, bb_, k_) in cg.callers.get(RESET, [])})
    strays = [c for c in callers if not only_called_from(cg, c, {b.path})]
    R.check('R08.4', 'reset-only-at-rotation', not strays, "reset_size_and_date is called only by the rotation function (or its private helpers)",
            f"reset_size_and_date is also called from {strays}: the size of a file that is continued (re-opened, appended to) is forgotten and the file can exceed the limit",
            where=f.bodies[strays[0]].loc() if strays else b.loc())
    # reset stores 0 into current_size for both size-bearing variants
    rb = ctx.body(r'^writers::file_log_writer::state::RollState::reset_size_and_date$')
    zero = {}
    for bb in sorted(rb.normal_blocks()):
        for s in rb.blocks[bb]['stmts']:
            if s['k'] == 'assign' and s['place']['p'] and s['rv']['k'] == 'use' and s['rv']['op']['k'] == 'const':
                # destination is a deref of a local that refers to current_size
                nm = rb.local_name(s['place']['l'])
                if nm == 'current_size' or 'current_size' in place_fields(s['place']):
                    zero[bb] = const_repr(s['rv']['op'])
    I = FDI(f, effects=[r'get_creation_timestamp$'], no_inline=[r'get_creation_timestamp$'])
    rows = I.run(rb.path)
    byv = {}
    for r in rows:
        byv.setdefault(r.get('variant(self)'), []).append(r)
    for crit in ('Size', 'AgeOrSize'):
        R.check('R08.4', f"reset_size_and_date|{crit}", crit in byv and any(v.startswith('0_') for v in zero.values()) and len(zero) >= 2,
                "current_size = 0", f"reset_size_and_date does not zero current_size for {crit}", where=rb.loc())


def new_table(R, ctx):
    f = ctx.f
    b = ctx.body(r'^writers::file_log_writer::state::RollState::new$')
    I = FDI(f, effects=[r'^std::fs::metadata$', r'^std::fs::Metadata::len$', r'get_creation_timestamp$'], no_inline=[r'get_creation_timestamp$'])
    rows = I.run(b.path)
    seen = set()
    for r in rows:
        crit = r.get('variant(criterion)')
        app = r.get('append')
        md = r.get('variant(std::fs::metadata#1(path))') or next((v for a, v in r.cond if a.startswith('variant(std::fs::metadata')), None)
        if r.undecided:
            R.bad('R08.5', f"RollState::new|{crit}|append={app}", f"UNDECIDED: {r.undecided}", where=b.loc())
            continue
        res = r.result
        if md == 'Err':
            ok = isinstance(res, Agg) and res.variant == 'Err'
            R.check('R08.5', f"RollState::new|metadata-error|{crit}", ok, "metadata error is propagated", f"metadata error not propagated: {res!r}", where=b.loc())
            continue
        if crit not in ('Size', 'AgeOrSize'):
            continue
        seen.add((crit, app))
        cur = None
        if isinstance(res, Agg) and res.variant == 'Ok' and res.fields and isinstance(res.fields[0], Agg):
            st = res.fields[0]
            vs = [v for v in f.adts[ROLL]['variants'] if v['name'] == st.variant][0]
            names = [fd['name'] for fd in vs['fields']]
            if st.variant == crit and 'current_size' in names:
                cur = st.fields[names.index('current_size')]
                mx = st.fields[names.index('max_size')]
        if cur is None:
            R.bad('R08.5', f"RollState::new|{crit}|append={app}", f"criterion {crit} does not produce a {crit} state with current_size: {res!r}", where=b.loc())
            continue
        if app is True:
            good = isinstance(cur, Sym) and cur.x[0] in ('call', 'eff') and cur.x[1] == 'std::fs::Metadata::len'
            text = "current_size = metadata(path).len()"
        else:
            good = isinstance(cur, Const) and cur.v == 0
            text = "current_size = 0"
        maxok = isinstance(mx, Sym) and 'criterion' in mx.n
        R.check('R08.5', f"RollState::new|{crit}|append={app}", good and maxok, text,
                f"RollState::new with criterion {crit}, append={app}: current_size = {cur!r}, max_size = {mx!r}; documented: "
                + ("the length of the existing file (content found at start counts)" if app else "0"), where=b.loc(),
                sample={'criterion': crit, 'append': app, 'current_size': repr(cur), 'max_size': repr(mx)})
    for crit in ('Size', 'AgeOrSize'):
        for app in (True, False):
            if (crit, app) not in seen:
                R.bad('R08.5', f"RollState::new|{crit}|append={app}", f"RollState::new has no row on which criterion {crit} with append={app} yields a {crit} state whose current_size is "
                      + ("seeded from the length of the existing file" if app else "0") + " (e.g. the criterion falls into another arm): a restart forgets the bytes already in the current file "
                      "and the file grows beyond the limit", where=b.loc())


def who_writes(R, ctx):
    f = ctx.f
    allowed = {'writers::file_log_writer::state::RollState::new', 'writers::file_log_writer::state::RollState::increase_size',
               'writers::file_log_writer::state::RollState::reset_size_and_date'}
    writers = set()
    for b in f.fn_bodies():
        for bb in sorted(b.normal_blocks()):
            for s in b.blocks[bb]['stmts']:
                if s['k'] != 'assign':
                    continue
                if s['rv']['k'] == 'agg' and s['rv'].get('adt') == ROLL and 'current_size' in s['rv'].get('fields', []):
                    writers.add(b.path)
                if s['place']['p'] and ('current_size' in place_fields(s['place']) or
                                        (b.local_name(s['place']['l']) == 'current_size' and s['place']['p'][-1]['k'] == 'deref')):
                    writers.add(b.path)
                # a &mut to the field handed out
                if s['rv']['k'] == 'ref' and s['rv']['mut'] and 'current_size' in place_fields(s['rv']['place']):
                    writers.add(b.path)
    for w in sorted(writers):
        R.check('R08.6', f"writer:{root_fn(w)}", only_called_from(ctx.cg, root_fn(w), set(allowed)), "expected writer of current_size (or a private helper of one)", f"unexpected function writing current_size: {w}", where=f.bodies[w].loc())
    if not writers:
        raise CheckError('no writer of current_size found')


def reset_seeding(R, ctx, rule='R08.5'):
    """reset() is the one place where two States exist at once.  The size counter is seeded from the file's length when a file is opened for
    appending; while the OLD state is alive its BufWriter may still hold bytes for the very same file, so nothing may open a log file or read
    its length before the old state has been replaced (= dropped = flushed).  Today the new state is built unopened and opens lazily."""
    b = ctx.body(r'^writers::file_log_writer::state_handle::StateHandle::reset$')
    repl = [bb for bb in sorted(b.normal_blocks()) for s in b.blocks[bb]['stmts'] if s['k'] == 'assign' and s['place']['p'] and s['place']['p'][-1]['k'] == 'deref' and
            'state::State' in b.local_ty(s['place']['l'])]
    repl += [bb for bb in sorted(b.normal_blocks()) if b.blocks[bb]['term']['k'] == 'drop' and b.blocks[bb]['term']['place']['p'] and 'state::State' in b.blocks[bb]['term']['ty'] and
             'Guard' not in b.blocks[bb]['term']['ty']]
    repl += [bb for bb, t in b.calls() if re.search(r'^std::mem::(replace|swap)', callee_name(t)) and any('state::State' in (a.get('ty') or '') or True for a in t['args']) and
             'state::State' in ' '.join(t['callee'].get('targs') or [])]
    if not repl:
        raise CheckError(f"{rule}: replacement of the state in StateHandle::reset not found (form not recognised)")
    FORBID = r'^std::fs::OpenOptions::open$|^std::fs::File::(create|create_new|open)$|^std::fs::Metadata::len$|^std::fs::rename$'
    sites = ctx.cg.call_sites_reaching(b, lambda n, t: bool(re.search(FORBID, n)))
    bad = None
    for (bb, callee, kind) in sites:
        if any(C.path_exists(b, bb, r) for r in repl if r != bb):
            bad = f"{b.loc(bb)}: {callee} opens a log file / reads its length while the old state (whose BufWriter may still hold records for the same file) is alive"
            break
    R.check(rule, f"{b.path}|no-open-before-old-state-dropped", not bad, f"{len(sites)} file-opening call site(s) in reset, none before the old state is replaced ({len(repl)} replacement site(s))",
            f"{bad}: with append the size counter is seeded from a length that lacks the old writer's buffered bytes (records are then appended to a file beyond the limit), "
            "and records logged before the reset reach the file after content written through the new writer", where=b.loc())
