"""C13 — brace targets, writer level ceilings and duplication route each record correctly."""
from rulelib import *
from report import CheckError
from fdi import FDI, Const, Agg, Sym, Ref, LEVELS
import table as T

EXPLANATION = ("R13.1 routing table of FlexiLogger::log over brace lists of k<=2 abstract names (each _Default / registered / unknown): "
               "exactly one LogWriter::write per registered name in list order, one report per unknown name without leaving the loop, "
               "default channel iff (not brace or _Default) and the specification enables the record (module path for brace targets) and "
               "the text filter passes, through the line filter if one is set; no condition outside this vocabulary takes part in the "
               "decision; R13.2 every LogWriter in the crate whose max_log_level() returns a configurable field emits only if "
               "record.level() <= that field (5x6 concrete table per writer); R13.3 duplication tables Duplicate x Level (7x5 per stream) of "
               "MultiWriter::write, each stream with its own format function and stream; R13.4 Duplicate<->u8 identity on 0..=6, "
               "adapt_duplication_to_* store into the field the matching region reads; R13.5 enabled() never answers false for a level the "
               "addressed writer accepts."
               " R13.3 also: on a row on which the write to the file writer / additional primary writer failed, both duplication decisions have been taken (a failing primary output does not suppress the duplicates)."
               " R13.7 stream wiring: what a Logger setter stores for one stream (duplication level, format function) is handed by Logger::build to that stream's parameter of the PrimaryWriter constructor and stored in that stream's field of the MultiWriter / passed to that stream's StdWriter."
               " R13.8 ceiling and target wiring: max_level() reaches FileLogWriter::max_log_level(); every log_to_* method selects the documented LogTarget (shared configuration-wiring tables, rules/cfgwiring.py).")
ASSUMPTIONS = ["log::Level/LevelFilter order Off<Error<Warn<Info<Debug<Trace (documented discriminants)", "HashMap::get finds exactly the registered names"]
NOT_DECIDED = ["what a syslog datagram looks like", "terminal capture of print macros", "lists longer than the unrolling bound (same loop body)"]
FLOORS = {'R13.1': 1, 'R13.2': 1, 'R13.3': 2, 'R13.4': 3}

LVLS = ['Error', 'Warn', 'Info', 'Debug', 'Trace']
FILTERS = ['Off', 'Error', 'Warn', 'Info', 'Debug', 'Trace']
DUP_ORACLE = {'None': set(), 'Error': {'Error'}, 'Warn': {'Error', 'Warn'}, 'Info': {'Error', 'Warn', 'Info'},
              'Debug': {'Error', 'Warn', 'Info', 'Debug'}, 'Trace': set(LVLS), 'All': set(LVLS)}


def level_model(L):
    def m(I, st, fr, t, args, name):
        return Agg('log::Level', L, [], ty='log::Level')
    return m


def run(R, ctx):
    R.rule('R13.8', 'ceiling and target wiring: max_level() reaches FileLogWriter::max_log_level(); every log_to_* method selects the documented LogTarget')
    import cfgwiring
    cfgwiring.config_wiring(R, ctx, 'R13.8', 'C13')
    R.rule('R13.1', 'TABLE(routing in FlexiLogger::log), k-unrolled brace list')
    R.rule('R13.2', 'TABLE(level x ceiling) for every ceiling-bearing LogWriter::write')
    R.rule('R13.3', 'TABLE(Duplicate x Level) for the stderr and the stdout region of MultiWriter::write')
    R.rule('R13.4', 'CONST-AGREE(Duplicate <-> u8), field pairing of adapt_duplication_to_*')
    R.rule('R13.5', 'enabled() uses the same (non-strict) ceiling comparison as the writers')
    routing(R, ctx)
    ceilings(R, ctx)
    duplication(R, ctx)
    dup_roundtrip(R, ctx)
    enabled_ceiling(R, ctx)
    # a record addressed to a writer only reaches FlexiLogger::log if log's global max level lets it pass: the gate must take the
    # highest ceiling of all additional writers into account (shared with C02 R02.4)
    R.rule('R13.6', 'global max level >= every additional writer\'s ceiling (shared with R02.4)')
    import c02
    c02.global_gate(_Relabel(R, 'R02.4', 'R13.6'), ctx)
    # `the configured duplication level` of a stream is the one the user set for THAT stream: stream-by-stream wiring of the construction chain
    R.rule('R13.7', 'stream wiring: setter -> Logger field -> build -> PrimaryWriter constructor -> MultiWriter field, stream by stream')
    import wiring
    wiring.wiring(R, ctx, 'R13.7')


class _Relabel:
    def __init__(self, R, frm, to):
        self.R, self.frm, self.to = R, frm, to

    def check(self, rule, *a, **kw):
        return self.R.check(self.to if rule == self.frm else rule, *a, **kw)

    def bad(self, rule, *a, **kw):
        return self.R.bad(self.to if rule == self.frm else rule, *a, **kw)

    def ok(self, rule, *a, **kw):
        return self.R.ok(self.to if rule == self.frm else rule, *a, **kw)


# ------------------------------------------------------------------------------------------------ R13.1
def classify(a, v, info):
    """vocabulary of the routing decision"""
    n = a
    if 'starts_with' in n and "'{'" in n.replace('"', ''):
        return ('brace', v)
    if "'_Default'" in n:
        k = info.get('kind')
        if k == 'ord':
            return ('is_default', v == 'eq')
        if n.split('(')[0].endswith('::ne'):
            return ('is_default', not v)
        return ('is_default', bool(v))
    if re.match(r'^variant\([\w:]*LogWriter::write#\d+\)$', n):
        return ('wres', v)
    if re.match(r'^variant\(std::collections::HashMap::<[^()]*>::get\(', n):
        return ('lookup', v)
    if re.match(r"^variant\(<[^()]*as std::iter::Iterator>::next(\(|#u?\d+\)$)", n):
        return ('next', v)
    if 'FlexiLogger::primary_enabled#' in n:
        return ('enabled', v)
    if n.startswith('variant(') and (re.search(r'text_filter\([^()]*(\([^()]*\))*[^()]*\)\)$', n) or re.search(r'\.textfilter\)$', n)) and 'is_match' not in n:
        return ('tf', v)
    if 'is_match' in n and not n.startswith('variant('):
        return ('match', v)
    if re.match(r'variant\(self\.filter\)$', n):
        return ('linefilter', v)
    if re.match(r'^variant\([\w:]*(LogLineFilter::write|PrimaryWriter::write)#\d+\)$', n):
        return ('pres', v)
    if re.match(r'^variant\((std::result::Result::<T, E>::as_ref\()?&?std::sync::RwLock::<T>::read\(&self\.log_specification\)\)?\)$', n):
        return ('poison', v)
    # parsing of the target text: part of "which names are in the list", not of the routing decision
    if re.search(r"core::str::<impl str>::(get|len|split|strip_prefix|strip_suffix|trim\w*|is_char_boundary)|SliceIndex<str>|ops::Index<.*> for str", n) and \
            not re.search(r'HashMap|is_empty|LogWriter|primary_enabled', n):
        return 'ignore'
    return None


def routing(R, ctx):
    f = ctx.f
    b = ctx.body(r'^<flexi_logger::FlexiLogger as log::Log>::log$')
    EFF = [r'LogWriter::write$', r'util::eprint_msg$', r'util::eprint_err$', r'FlexiLogger::primary_enabled$', r'PrimaryWriter::write$',
           r'LogLineFilter::write$', r'DeferredNow::new$']
    NI = [r'util::eprint_msg$', r'util::eprint_err$', r'FlexiLogger::primary_enabled$', r'PrimaryWriter::write$', r'DeferredNow::new$']
    I = FDI(f, effects=EFF, no_inline=NI, loop_k=ctx.k(2, 3), max_steps=20000, max_rows=200000)
    rows = I.run(b.path)
    problems = []
    shapes = set()
    n = 0
    for r in rows:
        if r.undecided:
            R.bad('R13.1', f"{b.path}|routing", f"UNDECIDED: {r.undecided}", where=b.loc())
            return
        # interleave decisions and effects in execution order
        trace = []
        ei = 0
        effs = r.effects
        unknown = None
        for ci, (a, v) in enumerate(r.cond):
            while ei < len(effs) and effs[ei][2]['ci'] <= ci:
                trace.append(('E', effs[ei]))
                ei += 1
            c = classify(a, v, r.atom_info.get(a, {}))
            if c is None:
                unknown = (a, v)
                break
            if c != 'ignore':
                trace.append(('D', c))
        while ei < len(effs):
            trace.append(('E', effs[ei]))
            ei += 1
        if unknown:
            problems.append(f"the routing depends on a condition outside the documented one: {unknown[0][:160]} = {unknown[1]}")
            continue
        # walk the trace with the documented automaton
        dec = [c for k, c in trace if k == 'D']
        eff_names = [e[0].split('::')[-1] + ('@' + ('primary' if 'primary_writer' in e[1][0] and 'filter' not in e[1][0] else 'other') if e[0].endswith('::write') else '') for k, e in trace if k == 'E']
        exp = ['new']
        d = list(dec)

        def take(kind):
            if d and d[0][0] == kind:
                return d.pop(0)[1]
            return None
        brace = take('brace')
        ok = True
        use_default = False
        elems = []
        if brace is None:
            problems.append("the brace test is missing from the decision")
            continue
        if brace:
            while True:
                nx = take('next')
                if nx is None:
                    ok = False
                    break
                if nx == 'None':
                    break
                isd = take('is_default')
                if isd is None:
                    ok = False
                    break
                if isd:
                    use_default = True
                    elems.append('D')
                    continue
                lk = take('lookup')
                if lk is None:
                    ok = False
                    break
                if lk == 'None':
                    exp.append('eprint_msg')
                    elems.append('U')
                else:
                    exp.append('write@other')
                    elems.append('R')
                    wr = take('wres')
                    if wr == 'Err':
                        exp.append('eprint_err')
                    elif wr is None:
                        ok = False
                        break
            if not ok:
                problems.append(f"decision sequence does not follow the documented loop (next -> _Default? -> lookup -> write): {dec[:8]}")
                continue
        reach_default = (not brace) or use_default
        if reach_default:
            exp.append('primary_enabled')
            en = take('enabled')
            if en is None:
                problems.append("default channel decided without consulting the specification")
                continue
            if en:
                while d and d[0][0] == 'poison':
                    d.pop(0)
                tf = take('tf')
                passes = True
                if tf == 'Some':
                    mt = take('match')
                    passes = bool(mt)
                    if mt is None:
                        problems.append("a text filter is set but the message is not matched against it")
                        continue
                elif tf is None and ctx.has('textfilter'):
                    problems.append("text filter not consulted")
                    continue
                if passes:
                    lf = take('linefilter')
                    if lf is None:
                        problems.append("the record is dropped although the specification enables it and " +
                                        ("no text filter is set" if tf == 'None' else "the text filter matches" if tf == 'Some' else "there is no text filter support") +
                                        " (documented: it is passed on to the line filter or the primary writer)")
                        continue
                    exp.append('write@other' if lf == 'Some' else 'write@primary')
                    pr = take('pres')
                    if pr == 'Err':
                        exp.append('eprint_err')
        if d:
            problems.append(f"decisions after the documented end of the routing: {d[:3]}")
            continue
        if eff_names != exp:
            problems.append(f"list {elems or 'plain target'}: effects {eff_names}, documented {exp}")
            continue
        # argument checks: primary_enabled(level, effective target)
        for k, e in trace:
            if k == 'E' and e[0].endswith('primary_enabled'):
                tgt = e[1][2]
                if brace and 'module_path' not in tgt:
                    problems.append(f"brace target: the specification is asked with {tgt[-80:]} instead of the module path")
                if not brace and 'target' not in tgt:
                    problems.append(f"plain target: the specification is asked with {tgt[-80:]} instead of the target")
                if 'level(' not in e[1][1]:
                    problems.append("the specification is not asked with the record's level")
            if k == 'E' and e[0].endswith('::write') and 'DeferredNow::new#1' not in e[1][1 if 'filter' not in e[1][0] or True else 1]:
                problems.append("a writer is not handed the log call's DeferredNow")
        shapes.add((bool(brace), tuple(elems)))
        n += 1
    need = {(False, ()), (True, ('D',)), (True, ('R',)), (True, ('U',)), (True, ('U', 'R')), (True, ('R', 'D')), (True, ('R', 'R'))}
    missing = need - shapes
    if missing and not problems:
        problems.append(f"list shapes missing from the table: {sorted(missing)}")
    if problems:
        R.bad('R13.1', f"{b.path}|routing", f"routing in log(): {problems[0]}", where=b.loc(), witness=problems[:4])
    else:
        R.ok('R13.1', f"{b.path}|routing", f"{n} rows over {len(shapes)} list shapes agree ({I.cut_rows} longer lists cut at the unrolling bound)",
             sample={'rows': n, 'shapes': sorted(map(str, shapes))[:12], 'cut': I.cut_rows})


# ------------------------------------------------------------------------------------------------ R13.2
def ceiling_field(ctx, impl_self):
    """name of the field max_log_level() returns for this writer, or None (default impl / computed)"""
    f = ctx.f
    for b in f.fn_bodies():
        if b.impl_trait == 'writers::log_writer::LogWriter' and b.impl_self == impl_self and b.path.endswith('::max_log_level'):
            # returns copy (*_1).field ?
            for blk in b.blocks:
                for s in blk['stmts']:
                    if s['k'] == 'assign' and s['place']['l'] == 0 and s['rv']['k'] == 'use' and s['rv']['op']['k'] in ('copy', 'move'):
                        pl = s['rv']['op']['place']
                        if pl['l'] == 1 and place_fields(pl):
                            return place_fields(pl)[-1], b
            return None, b
    return None, None


def ceilings(R, ctx):
    f = ctx.f
    writers = sorted({b.impl_self for b in f.fn_bodies() if b.impl_trait == 'writers::log_writer::LogWriter' and b.impl_self != 'Self'})
    found = 0
    for w in writers:
        field, mb = ceiling_field(ctx, w)
        wb = [b for b in f.fn_bodies() if b.impl_trait == 'writers::log_writer::LogWriter' and b.impl_self == w and b.path.endswith('::write')]
        if not wb:
            continue
        wb = wb[0]
        if field is None:
            R.ok('R13.2', f"{w}|no-configurable-ceiling", "max_log_level() is the default or computed from delegates: out of scope", nontrivial=False)
            continue
        found += 1
        adt = f.adts.get(w)
        names = [fd['name'] for fd in adt['variants'][0]['fields']]
        idx = names.index(field)
        bad = []
        n = 0
        for X in FILTERS:
            def setup(I, st, fr, X=X):
                ref = st.heap[fr.cells[1]]
                I.write_loc(st, ref.cell, [('f', idx, field, 'log::LevelFilter')], Agg('log::LevelFilter', X, [], ty='log::LevelFilter'))
            for L in LVLS:
                I = FDI(f, effects=[r'.*'], inline_depth=0, models={r"^log::Record::<'a>::level$": level_model(L), r"^log::Metadata::<'a>::level$": level_model(L)})
                rows = I.run(wb.path, setup=setup)
                emits = set()
                for r in rows:
                    if r.undecided:
                        R.bad('R13.2', f"{w}|ceiling", f"UNDECIDED: {r.undecided}", where=wb.loc())
                        return
                    names_ = [e[0] for e in r.effects if not re.search(r"::level$|PartialOrd|PartialEq|::max_log_level$", e[0])]
                    emits.add(bool(names_))
                exp = LEVELS[L] <= LEVELS[X]
                if emits != {exp}:
                    bad.append((L, X, sorted(emits)))
                n += 1
        R.check('R13.2', f"{w}|ceiling", not bad, f"{n} (level, ceiling) pairs: write emits iff level <= {field}",
                f"{w}::write ignores its configured maximum level `{field}`: e.g. level {bad[0][0]} with ceiling {bad[0][1]} -> emits={bad[0][2]} "
                f"({len(bad)} of {n} pairs deviate)" if bad else '', where=wb.loc(), sample={'writer': w, 'field': field, 'pairs': n})
    if found == 0:
        raise CheckError('no ceiling-bearing LogWriter found')


# ------------------------------------------------------------------------------------------------ R13.3
def duplication(R, ctx):
    f = ctx.f
    b = ctx.body(r'^<primary_writer::multi_writer::MultiWriter as writers::log_writer::LogWriter>::write$')
    # the duplication settings are read from the two atomics; whichever private getters / newtypes wrap them are inlined, the u8 is
    # turned into a Duplicate by the crate's own From<u8> (identity on 0..=6: R13.4), so a row is identified by the value loaded
    LOAD = r'atomic::Atomic(U8|::<u8>)::load$'
    EFF = [r'util::write_buffered$', r'^std::io::_e?print$', r'^fnptr:', r'LogWriter>::write$', r'LogWriter::write$', LOAD]
    NI = [r'util::write_buffered$', r'LogWriter>::write$', r'util::eprint_err$']
    fb = ctx.body(r'^<logger::Duplicate as std::convert::From<u8>>::from$')
    u8map = {}
    for c_ in range(7):
        rws = FDI(f).run(fb.path, args=[Const(c_, 'u8')])
        if len(rws) == 1 and isinstance(rws[0].result, Agg):
            u8map[str(c_)] = rws[0].result.variant
    if len(u8map) != 7:
        raise CheckError(f"R13.3: From<u8> for Duplicate not evaluable on 0..=6 ({u8map})")
    per = {'stderr': {}, 'stdout': {}}
    problems = []
    for L in LVLS:
        I = FDI(f, effects=EFF, no_inline=NI, models={r"^log::Record::<'a>::level$": level_model(L)}, max_rows=50000, max_steps=20000)
        rows = I.run(b.path)
        for r in rows:
            if r.undecided:
                R.bad('R13.3', f"{b.path}|duplication", f"UNDECIDED: {r.undecided}", where=b.loc())
                return
            de = do = None
            skip = False
            for i_, e in enumerate(r.effects):
                if re.search(LOAD, e[0]):
                    src = r.long(e[1][0])
                    arm = r.get(f"{e[0]}#{i_ + 1}")
                    if arm is None:
                        continue
                    if str(arm) not in u8map:
                        skip = True         # a value outside 0..=6: From<u8> panics (never stored: R13.4)
                        continue
                    if 'stderr' in src:
                        de = u8map[str(arm)]
                    elif 'stdout' in src:
                        do = u8map[str(arm)]
            if skip:
                continue
            # a failing file writer / additional primary writer must not suppress the duplicates: on a row on which such a write returned Err
            # both duplication decisions have been taken (the duplicates are documented to depend on level and setting only)
            wfail = [a for a, v in r.cond if v == 'Err' and re.search(r'LogWriter>?::write#', a) and a.startswith('variant(')]
            done = repr(r.result).replace('$', '').startswith('Result::Ok')
            if done and not wfail and (de is None or do is None):
                problems.insert(0, f"MultiWriter::write completes on a path on which the run-time duplication level of {'stderr' if de is None else 'stdout'} (the atomic that "
                                "adapt_duplication_to_* stores into) is not read: a level set at run time has no effect there, the record is not duplicated whatever its level")
            elif wfail and (de is None or do is None):
                problems.append(f"a failing write to the file writer / primary writer ends MultiWriter::write before the duplication to {'stderr' if de is None else 'stdout'} "
                                "was decided: while the primary output fails, records at or above the duplication level are not duplicated")
            err_eff = [e for e in r.effects if (e[0].endswith('write_buffered') and 'stderr' in e[1][3]) or e[0] == 'std::io::_eprint']
            out_eff = [e for e in r.effects if (e[0].endswith('write_buffered') and 'stdout' in e[1][3]) or e[0] == 'std::io::_print']
            fmts = [e for e in r.effects if e[0].startswith('fnptr:')]
            # rows end early when an earlier step failed with `?`: only judge regions that were reached
            reached_out = do is not None
            if de is not None:
                per['stderr'].setdefault((de, L), set()).add(len(err_eff))
                for e in err_eff:
                    if e[0].endswith('write_buffered') and 'format_for_stderr' not in e[1][0]:
                        problems.append(f"stderr duplicate formatted with {e[1][0]}")
            if reached_out:
                per['stdout'].setdefault((do, L), set()).add(len(out_eff))
                for e in out_eff:
                    if e[0].endswith('write_buffered') and 'format_for_stdout' not in e[1][0]:
                        problems.append(f"stdout duplicate formatted with {e[1][0]}")
            for e in fmts:
                # capture mode: the format pointer must be the stream's own
                pass
    for stream in ('stderr', 'stdout'):
        bad = []
        for dv, lv in [(d, l) for d in DUP_ORACLE for l in LVLS]:
            got = per[stream].get((dv, lv))
            exp = {1} if lv in DUP_ORACLE[dv] else {0}
            if got is None:
                bad.append((dv, lv, 'row missing'))
            elif got != exp:
                bad.append((dv, lv, f"{sorted(got)} duplicate emissions, documented {sorted(exp)}"))
        R.check('R13.3', f"{b.path}|{stream}", not bad and not problems, f"35 (Duplicate, Level) pairs agree for {stream}",
                f"duplication to {stream}: " + (f"Duplicate::{bad[0][0]} with level {bad[0][1]}: {bad[0][2]} ({len(bad)} of 35 pairs deviate)" if bad else problems[0] if problems else ''),
                where=b.loc(), sample={'stream': stream, 'pairs': 35})


# ------------------------------------------------------------------------------------------------ R13.4
def dup_roundtrip(R, ctx):
    f = ctx.f
    b = ctx.body(r'^<logger::Duplicate as std::convert::From<u8>>::from$')
    adt = f.adts['logger::Duplicate']
    bad = []
    for v in adt['variants']:
        k = int(v['discr'])
        I = FDI(f)
        rows = I.run(b.path, args=[Const(k, 'u8')])
        got = {repr(r.result) for r in rows}
        if got != {f"Duplicate::{v['name']}"}:
            bad.append((k, v['name'], sorted(got)))
    R.check('R13.4', 'Duplicate<->u8', not bad and len(adt['variants']) == 7, "From<u8> inverts `as u8` on all 7 variants",
            f"Duplicate::from(u8) does not invert `as u8`: {bad[:2]} (a stored duplication level is read back as another one)", where=b.loc(),
            sample={'variants': [(v['name'], v['discr']) for v in adt['variants']]})
    # field pairing: the setter of a stream stores into the atomic that R13.3 sees loaded for that stream's emission
    # (helpers / newtype methods around the atomic are inlined)
    STORE = r'atomic::Atomic(U8|::<u8>)::store$'
    for stream in ('stderr', 'stdout'):
        fn = f'adapt_duplication_to_{stream}'
        bb_ = ctx.body(rf'^primary_writer::multi_writer::MultiWriter::{fn}$')
        rows = FDI(f, effects=[STORE]).run(bb_.path, arg_names=['self', 'dup'])
        ok = bool(rows)
        for r in rows:
            st_ = [e for e in r.effects if re.search(STORE, e[0])]
            dv = r.get('variant(dup)')
            want = next((str(int(v['discr'])) for v in adt['variants'] if v['name'] == dv), None)
            ok = ok and not r.undecided and len(st_) == 1 and f'duplicate_{stream}' in r.long(st_[0][1][0]) and \
                (r.long(st_[0][1][1]) == want or 'dup' in r.long(st_[0][1][1])) and ('stdout' if stream == 'stderr' else 'stderr') not in r.long(st_[0][1][0])
        R.check('R13.4', f"{fn}|field", ok, f"{fn} stores duplicate_{stream}", f"{fn} does not store its argument into the field duplicate_{stream}", where=bb_.loc())
    mw = ctx.body(r'^<primary_writer::multi_writer::MultiWriter as writers::log_writer::LogWriter>::write$')


# ------------------------------------------------------------------------------------------------ R13.5
def enabled_ceiling(R, ctx):
    f = ctx.f
    b = ctx.body(r'^<flexi_logger::FlexiLogger as log::Log>::enabled$')
    ops = []
    for bb, t in b.calls():
        n = callee_name(t)
        if re.search(r'PartialOrd(<.*>)?(>)?::(lt|le|gt|ge)$', n):
            p = ctx.ip.prov(b.path)
            roots = set()
            for a in t['args']:
                roots |= p.op_roots(a)
            if any(r_[0] == 'call' and r_[1].endswith('LogWriter::max_log_level') for r_ in roots):
                ops.append((bb, n.split('::')[-1]))
    if not ops:
        R.bad('R13.5', f"{b.path}|ceiling-op", "enabled() does not compare the level with the addressed writer's max_log_level()", where=b.loc())
    for bb, op in ops:
        R.check('R13.5', f"{b.path}|ceiling-op", op == 'le',
                "level <= writer.max_log_level()", f"enabled() tests `level {'<' if op == 'lt' else op} writer.max_log_level()`: it answers false for level == ceiling although the "
                "writer accepts that record", where=b.loc(bb))
