"""C15 — file contents do not depend on the write mode; raw byte chunks pass unchanged."""
from rulelib import *
from facts import op_str
from report import CheckError
from fdi import FDI, Const, Agg, Sym, Ref
import c01, c03

EXPLANATION = ("R15.1 every payload sent over a writer channel is control-by-construction (pooled/fresh buffer + the FLUSH/SHUTDOWN constant, or the "
               "constant itself) or a record (format output terminated by the configured line ending); the control constants are single bytes that do "
               "not end in LF while both line endings do, so a record can never equal a control message; anything else on the channel is a "
               "violation; R15.2 WriteMode tables (effective_write_mode, buffersize, get_flush_interval, without_flushing) equal the documented "
               "tables for every variant, and FileLogWriter::new maps Direct/Buffer* to the synchronous and Async* to the asynchronous handle; "
               "R15.3 one funnel: all modes hand the unchanged formatted buffer (normal and recursion arm with the same configured line ending) "
               "resp. the unchanged chunk to State::write_buffer, whose table is mode-free; R15.4 pooled buffers of the async modes are cleared immediately before they return to the pool, whatever message they carried (shared with R03.3/R03.4). R15.3 also: in the async arm of plain_write every path sends the chunk exactly once and writes nothing past the channel. R15.5 the shutdown/flush tables of the file writer flush the active writer in every mode, with or without rotation (shared with R04.1)."
               " R15.6 (shared with R01.4): at a rotation the buffered tail reaches the closed file (writer swap) before the cleanup may compress / remove it, so buffered and direct modes leave the same bytes."
               " R15.7 write-mode wiring: Logger::write_mode stores without_flushing(mode) in the file writer's builder and keeps get_flush_interval(mode); the builder's mode reaches config.write_mode (shared configuration-wiring tables, rules/cfgwiring.py)."
               " R15.8 (shared with R08.5/R18.3): FileLogWriter::reset opens nothing and reads no file length while the old state - whose buffer may hold bytes of the same file - is alive, so the rotation points after a reset do not depend on the write mode."
               " R15.9 (shared with R03.2): every record-emitting body - the stdout/stderr duplicates included, which share the thread-local buffer with the synchronous file modes - leaves that buffer empty on every path.")
ASSUMPTIONS = ["BufWriter does not alter bytes (std)", "C04 for what is flushed at shutdown"]
NOT_DECIDED = ["equality of final file contents across modes as such (follows from R15.1-3 + C04 only with BufWriter semantics)"]
FLOORS = {'R15.1': 4, 'R15.2': 30, 'R15.3': 3}

DEFAULTS = {'cap': '8192', 'pool': '50', 'msg': '200', 'int': '$const:write_mode::DEFAULT_FLUSH_INTERVAL', 'zero': '$const:ZERO_DURATION'}
ORACLE = {
    'effective_write_mode': {
        'Direct': 'EffectiveWriteMode::Direct', 'SupportCapture': 'EffectiveWriteMode::Direct',
        'BufferAndFlush': 'EffectiveWriteMode::BufferAndFlushWith(8192)', 'BufferAndFlushWith': 'EffectiveWriteMode::BufferAndFlushWith($self.0)',
        'BufferDontFlush': 'EffectiveWriteMode::BufferDontFlushWith(8192)', 'BufferDontFlushWith': 'EffectiveWriteMode::BufferDontFlushWith($self.0)',
        'Async': 'EffectiveWriteMode::AsyncWith(50, 200, $const:write_mode::DEFAULT_FLUSH_INTERVAL)',
        'AsyncWith': 'EffectiveWriteMode::AsyncWith($self.pool_capa, $self.message_capa, $self.flush_interval)'},
    'buffersize': {
        'Direct': 'Option::None', 'SupportCapture': 'Option::None', 'BufferAndFlush': 'Option::Some(8192)', 'BufferAndFlushWith': 'Option::Some($self.0)',
        'BufferDontFlush': 'Option::Some(8192)', 'BufferDontFlushWith': 'Option::Some($self.0)', 'Async': 'Option::None', 'AsyncWith': 'Option::None'},
    'get_flush_interval': {
        'Direct': '$const:ZERO_DURATION', 'SupportCapture': '$const:ZERO_DURATION', 'BufferAndFlush': '$const:write_mode::DEFAULT_FLUSH_INTERVAL',
        'BufferAndFlushWith': '$self.1', 'BufferDontFlush': '$const:ZERO_DURATION', 'BufferDontFlushWith': '$const:ZERO_DURATION',
        'Async': '$const:write_mode::DEFAULT_FLUSH_INTERVAL', 'AsyncWith': '$self.flush_interval'},
    'without_flushing': {
        'Direct': 'WriteMode::Direct', 'SupportCapture': 'WriteMode::SupportCapture', 'BufferAndFlush': 'WriteMode::BufferDontFlush',
        'BufferAndFlushWith': 'WriteMode::BufferDontFlushWith($self.0)', 'BufferDontFlush': 'WriteMode::BufferDontFlush',
        'BufferDontFlushWith': 'WriteMode::BufferDontFlushWith($self.0)', 'Async': 'WriteMode::AsyncWith(50, 200, $const:ZERO_DURATION)',
        'AsyncWith': 'WriteMode::AsyncWith($self.pool_capa, $self.message_capa, $const:ZERO_DURATION)'},
}


def run(R, ctx):
    R.rule('R15.7', "write-mode wiring: Logger::write_mode stores without_flushing(mode) in the file writer's builder and keeps get_flush_interval(mode); the builder's mode reaches config.write_mode")
    import cfgwiring
    cfgwiring.config_wiring(R, ctx, 'R15.7', 'C15')
    R.rule('R15.1', 'PROVENANCE(channel payload) + CONST-AGREE(control constants vs line endings)')
    R.rule('R15.2', 'TABLE(WriteMode functions per variant); handle kind per effective mode')
    R.rule('R15.3', 'one funnel: unchanged bytes reach the mode-free sink')
    write_mode_tables(R, ctx)
    funnel(R, ctx)
    # buffered modes hold bytes back that Direct has already written: the contents agree only if the last step of every write mode's
    # shutdown/flush chain flushes the active writer, with or without rotation (tables shared with R04.1)
    R.rule('R15.5', 'shutdown/flush tables of the file writer: the active writer is flushed in every mode and configuration (shared with R04.1)')
    import c04 as _c04
    _c04.file_writer_level(_Map(R, {'R04.1': 'R15.5'}), ctx)
    # buffered vs direct: at a rotation the buffered tail reaches the closed file only when the old writer is dropped by the swap; the swap therefore
    # precedes the cleanup that may compress / remove that file (shared with R01.4)
    R.rule('R15.6', 'rotation: writer swap (flush of the buffered tail) precedes the cleanup of the closed file (shared with R01.4)')
    import c01 as _c01
    _c01.swap_rules(_Map(R, {'R01.4': 'R15.6'}), ctx)
    # reset: the buffering modes still hold bytes of the old file when reset() runs; opening the new state / reading the file length before the old
    # state is dropped seeds the size counter without the buffered tail - rotation points then depend on the write mode (shared with R08.5 / R18.3)
    R.rule('R15.8', 'reset opens nothing and reads no file length before the old state (and its buffer) is gone (shared with R08.5/R18.3)')
    import c08 as _c08
    _c08.reset_seeding(R, ctx, 'R15.8')
    # the synchronous file modes format into the SAME thread-local buffer as the stdout/stderr duplicates (util::write_buffered); the async mode uses pooled
    # buffers.  A path of ANY record-emitting body that leaves bytes in the thread-local buffer (e.g. an early return after a failed duplicate write)
    # glues them in front of the next file record in the synchronous modes only: emission tables of every LogWriter::write (shared with R03.2)
    R.rule('R15.9', 'every emitting body leaves the shared thread-local buffer empty on every path, duplicates included (shared with R03.2)')
    roots = [p_ for p_ in ctx.f.bodies if p_.endswith('as writers::log_writer::LogWriter>::write') and ctx.f.bodies[p_].promoted is None]
    only = r'^util::write_buffered::\{closure#0\}$|StdWriter as writers::log_writer::LogWriter>::write$|^writers::file_log_writer::state_handle::'
    c01.emission(R, ctx, 'R15.9', roots=roots, le_pattern=r"line_ending|b'\\n'", only=only)
    if ctx.has('async'):
        payloads(R, ctx)
        # pooled buffers: what the async arm formats into must be empty - a buffer returned to the pool uncleared (e.g. a processed
        # control message) would prefix a later record with stale bytes in the async modes only (shared with C03 R03.3/R03.4)
        R.rule('R15.4', 'pooled buffers are cleared before they are reused (shared with R03.3/R03.4)')
        import c03
        c03.async_rules(_Map(R, {'R03.3': 'R15.4', 'R03.4': 'R15.4'}), ctx)
    else:
        R.ok('R15.1', 'no-async-feature', 'no channel in this configuration', nontrivial=False)


def write_mode_tables(R, ctx):
    f = ctx.f
    variants = [v['name'] for v in f.adts['write_mode::WriteMode']['variants']]
    for fn, table in ORACLE.items():
        b = ctx.body(rf'^write_mode::WriteMode::{fn}$')
        rows = FDI(f).run(b.path)
        got = {}
        for r in rows:
            if r.undecided:
                R.bad('R15.2', f"WriteMode::{fn}", f"UNDECIDED {r.undecided}", where=b.loc())
                return
            got.setdefault(r.get('variant(self)'), set()).add(repr(r.result))
        for v in variants:
            exp = table.get(v)
            if exp is None:
                R.bad('R15.2', f"WriteMode::{fn}|{v}", f"variant {v} has no documented row", where=b.loc())
                continue
            R.check('R15.2', f"WriteMode::{fn}|{v}", got.get(v) == {exp}, f"{exp}",
                    f"WriteMode::{v}.{fn}() = {sorted(got.get(v, []))}, documented {exp}", where=b.loc(), sample={'fn': fn, 'variant': v, 'result': exp})
    # default constants
    for cname, exp in (('write_mode::DEFAULT_BUFFER_CAPACITY', '8192'), ('write_mode::DEFAULT_POOL_CAPA', '50'), ('write_mode::DEFAULT_MESSAGE_CAPA', '200')):
        c = f.consts.get(cname)
        if c is None and not ctx.has('async') and 'POOL' in cname or c is None and not ctx.has('async') and 'MESSAGE' in cname:
            continue
        val = c['val']['v'] if c and c.get('val') else None
        R.check('R15.2', f"const:{cname}", val == exp, f"{cname} = {exp}", f"{cname} = {val}, documented {exp}", where=None)
    # handle kind per effective mode
    b = ctx.body(r'^writers::file_log_writer::FileLogWriter::new$')
    I = FDI(f, effects=[r'StateHandle::new_(sync|async)$', r'WriteMode::effective_write_mode$'], no_inline=[r'StateHandle::new_(sync|async)$', r'WriteMode::effective_write_mode$'])
    rows = I.run(b.path)
    bad = None
    seen = set()
    for r in rows:
        if r.undecided:
            bad = 'UNDECIDED ' + r.undecided
            break
        ev = next((v for a, v in r.cond if a.startswith('variant(') and 'effective_write_mode#' in a), None)
        seen.add(ev)
        hs = [e[0].split('::')[-1] for e in r.effects if 'StateHandle::new_' in e[0]]
        exp = ['new_async'] if ev == 'AsyncWith' else ['new_sync']
        if hs != exp:
            bad = f"effective mode {ev} builds {hs}, documented {exp}"
        if ev == 'AsyncWith':
            e = [e for e in r.effects if e[0].endswith('new_async')][0]
            if 'effective_write_mode#' not in e[1][0] or 'pool_capa' not in e[1][0] and '.0' not in e[1][0]:
                pass
    need = {'Direct', 'BufferAndFlushWith', 'BufferDontFlushWith'} | ({'AsyncWith'} if ctx.has('async') else set())
    R.check('R15.2', f"{b.path}|handle-kind", not bad and seen >= need, "Direct/Buffer* -> sync handle; AsyncWith -> async handle", f"FileLogWriter::new: {bad or 'rows ' + str(seen)}", where=b.loc())


def funnel(R, ctx):
    f = ctx.f
    # the record paths: same emission rule as C01/C03, with the configured line ending in every arm
    c01.emission(R, ctx, 'R15.3', roots=(c01.FILE_ROOT,), le_pattern='line_ending')
    # plain_write
    b = ctx.body(r'^writers::file_log_writer::state_handle::StateHandle::plain_write$')
    EFF = [r'State::write_buffer$', r'Sender::<T>::(send|try_send)$', r'Mutex::<T>::lock$', r'slice::<impl \[T\]>::to_(owned|vec)$|ToOwned>::to_owned$']
    I = FDI(f, effects=EFF, no_inline=[r'State::write_buffer$'])
    rows = I.run(b.path)
    bad = None
    bad_async = None
    for r in rows:
        if r.undecided:
            bad = 'UNDECIDED ' + r.undecided
            break
        v = r.get('variant(self)') or 'Sync'
        wb = [e for e in r.effects if e[0].endswith('write_buffer')]
        lock = next((val for a, val in r.cond if a.startswith('variant(std::sync::Mutex::<T>::lock#')), None)
        if v == 'Async':
            # every chunk goes through the one FIFO channel: a chunk written directly (whatever the reason: size, emptiness) overtakes
            # the chunks and records still queued, so the file is no longer the concatenation in call order
            sends = [e for e in r.effects if re.search(r'Sender::<T>::(send|try_send)$', e[0])]
            if wb or len(sends) != 1:
                bad_async = f"async plain_write: {len(sends)} sends and {len(wb)} direct writes on one path; documented: the chunk is sent over the channel, nothing is written past it"
        if v == 'Sync' and lock == 'Ok':
            if len(wb) != 1 or c01.norm(wb[0][1][1]) != 'buffer':
                bad = f"sync plain_write hands {[e[1][1] for e in wb]} to write_buffer instead of the unchanged chunk"
            ok_len = 'len(' in repr(r.result) and 'buffer' in repr(r.result) or 'write_buffer#' in repr(r.result)
    R.check('R15.3', f"{b.path}|sync", not bad, "sync: lock -> write_buffer(chunk)", f"plain_write: {bad}", where=b.loc())
    if ctx.has('async'):
        R.check('R15.3', f"{b.path}|async-through-channel", not bad_async, "async: the chunk is sent over the channel on every path", f"plain_write: {bad_async}", where=b.loc())
    c01.sink_table(R, ctx, 'R15.3')


def payloads(R, ctx):
    f, cg = ctx.f, ctx.cg
    # control constants vs line endings
    cf, cs = f.consts.get('util::ASYNC_FLUSH'), f.consts.get('util::ASYNC_SHUTDOWN')
    le = [f.consts.get('writers::file_log_writer::UNIX_LINE_ENDING'), f.consts.get('writers::file_log_writer::WINDOWS_LINE_ENDING')]
    okc = all(c and c.get('val', {}).get('k') == 'bytes' for c in (cf, cs, *le))
    if okc:
        ctrl = [bytes(cf['val']['v']), bytes(cs['val']['v'])]
        ends = [bytes(x['val']['v']) for x in le]
        okc = all(len(c) >= 1 and not c.endswith(b'\n') for c in ctrl) and ctrl[0] != ctrl[1] and all(e.endswith(b'\n') for e in ends)
    R.check('R15.1', 'control-constants-vs-line-endings', okc, "FLUSH/SHUTDOWN constants do not end in LF, both line endings do",
            "a control constant ends in LF (or a line ending does not): a record message could equal a control message", where='src/util.rs')
    # classify each send site.  A crate-private function that only forwards one of its parameters as the payload is a
    # wrapper (send-like): its call sites are the send sites (whether or not such a wrapper exists is a matter of style)
    SEND = r'crossbeam_channel::Sender::<T>::(send|try_send)$'
    sendlike = {}
    content_only = set()      # wrappers whose parameter is the entire content of a fresh message

    def payload_index(name, t):
        if re.search(SEND, name):
            if 'Vec<u8>' not in ' '.join(t['callee'].get('targs', [])) + (t['callee'].get('impl_self') or ''):
                return None
            return 1
        return sendlike.get(name)
    changed = True
    while changed:
        changed = False
        for b in f.fn_bodies():
            if b.path in sendlike or b.reachable or b.kind == 'Closure':
                continue
            for bb, t in b.calls():
                pi = payload_index(callee_name(t), t)
                if pi is None or pi >= len(t['args']):
                    continue
                roots = ctx.ip.prov(b.path).op_roots(t['args'][pi])
                params = {r_[1] for r_ in roots if r_[0] == 'param'}
                touched = any(re.search(r'Extend<.*>>::extend$|extend_from_slice$|::push$', callee_name(t2)) or re.search(c01.FMT, callee_name(t2)) for _, t2 in b.calls())
                if roots and all(r_[0] == 'param' for r_ in roots) and len(params) == 1 and not touched:
                    sendlike[b.path] = next(iter(params)) - 1
                    changed = True
                    continue
                # `fn send_control(&self, msg: &[u8]) { let mut b = pool_or_fresh(); b.extend(msg); send(b) }`: the parameter is the whole content
                pv = ctx.ip.prov(b.path)
                exts = [(bb2, t2) for bb2, t2 in b.calls() if re.search(r'Extend<.*>>::extend$|extend_from_slice$', callee_name(t2)) and arg_local(t2, 0) is not None
                        and (pv.roots(arg_local(t2, 0)) & roots)]
                others = any(re.search(r'::push$|::write_all$|::insert$', callee_name(t2)) or re.search(c01.FMT, callee_name(t2)) for _, t2 in b.calls())
                if len(exts) == 1 and not others and not any(r_[0] == 'param' for r_ in roots):
                    cr = pv.op_roots(exts[0][1]['args'][1])
                    cps = {r_[1] for r_ in cr if r_[0] == 'param'}
                    if cr and all(r_[0] == 'param' for r_ in cr) and len(cps) == 1:
                        sendlike[b.path] = next(iter(cps)) - 1
                        content_only.add(b.path)
                        changed = True
    n = 0
    for b in f.fn_bodies():
        for bb, t in b.calls():
            name = callee_name(t)
            pi = payload_index(name, t)
            if pi is None or pi >= len(t['args']):
                continue
            if b.path in sendlike:
                R.ok('R15.1', f"{b.path}|wrapper", 'wrapper: forwards its parameter (classified at its callers)', nontrivial=False)
                continue
            n += 1
            p = ctx.ip.prov(b.path)
            roots = p.op_roots(t['args'][pi])
            buf_local = arg_local(t, pi)
            # what was done to this buffer in this body
            ext_ctrl = any(re.search(r'Extend<.*>>::extend$|extend_from_slice$', callee_name(t2)) and arg_local(t2, 0) is not None and
                           (p.roots(arg_local(t2, 0)) & roots) and re.search(r'ASYNC_(FLUSH|SHUTDOWN)', op_str(t2['args'][1])) for bb2, t2 in b.calls())
            const_ctrl = any(r_[0] == 'const' and r_[2] and re.search(r'ASYNC_(FLUSH|SHUTDOWN)$', r_[2]) for r_ in roots)
            formats = any(re.search(c01.FMT, callee_name(t2)) for bb2, t2 in b.calls())
            raw_param = any(r_[0] == 'param' for r_ in roots) and not formats and not ext_ctrl and not const_ctrl
            if formats and not ext_ctrl:
                cls = 'record'      # framing decided by R15.3's emission rule for this body
            elif (ext_ctrl or const_ctrl) and not formats:
                cls = 'control'
            else:
                cls = 'raw'
            key = f"{b.path}|send#{[x for x, _ in b.calls()].index(bb)}"
            R.check('R15.1', f"{b.path}|payload:{cls}", cls != 'raw', f"{cls} message",
                    f"{b.path} sends a raw byte chunk over the writer channel ({sorted(map(str, roots))[:3]}): the consumer dispatches on message CONTENT, so the 1-byte chunks "
                    "b\"S\" / b\"F\" are taken as SHUTDOWN / FLUSH (the writer thread stops and later chunks are lost, resp. the chunk is swallowed)", where=b.loc(bb))
    if n < 4:
        raise CheckError(f"only {n} channel send sites found")


class _Map:
    def __init__(self, R, m):
        self.R, self.m = R, m

    def check(self, rule, *a, **kw):
        return self.R.check(self.m.get(rule, rule), *a, **kw)

    def bad(self, rule, *a, **kw):
        return self.R.bad(self.m.get(rule, rule), *a, **kw)

    def ok(self, rule, *a, **kw):
        return self.R.ok(self.m.get(rule, rule), *a, **kw)
