"""C06 — restarting a logger never destroys or reorders earlier runs' records."""
from rulelib import *
from facts import op_str
from report import CheckError
from fdi import FDI, Const, Agg, Sym, Ref
import c02
import table as T
import c01, c09

EXPLANATION = ("R06.1 open-flag table of the log-file open: write, create, append = config.append, truncate = not config.append; R06.2 the start index is "
               "derived from plain and compressed files with the number filter; R06.3 start table per naming (NumbersDirect: none -> 0, append -> "
               "highest, else highest + 1; rCURRENT namings rotate a left-over current file iff not appending; direct timestamp namings continue the "
               "latest file iff appending, otherwise a collision-checked new name); R06.4 collision test table: plain name iff neither the plain nor "
               "the .gz file nor a .restart sibling exists, else `.restart-` + (highest sibling number + 1 | 0); R06.5 rotate flags: not config.append "
               "at start, constant true at rotation; R06.6 = R01.5/R01.3 (index advances iff renamed, rename before create); R06.7 each naming lists "
               "with its own infix predicate. R06.8 the listing that start index, restart numbers and the latest file are taken from recognises exactly the family (shared with R14.2). R06.2 also: the number is cut behind the LAST `_r` of the stem; R06.3 also: at start the current file is looked for under rCURRENT (Timestamps) resp. the CONFIGURED current infix (TimestampsCustomFormat)."
               " R06.3 also: every helper that names or parses a file at start is given the InfixFormat stored in the naming state. R06.1 also: the path handed back by open_log_file (stored in the active state) is the very path that was opened. R06.9 (shared with R07.2): the original of a compressed file is removed only after its .gz was completely written in the same step, and the encoder's sink cannot swallow a failing write."
               " R06.10 append wiring: append()/o_append() on Logger and FileLogWriterBuilder reach config.append unchanged (setter tables, Logger mirrors the builder, try_build_state copies the field) (shared configuration-wiring tables, rules/cfgwiring.py)."
               " R06.11 (shared with R16.7): on every row of the builder create_dir_all(spec directory) succeeded and is_dir held before State::new - the error-tolerant start-up listing therefore sees what earlier runs left."
               " R06.8 also: the InfixFilter tables per variant (shared with R14.2) - a narrower or wider predicate changes which earlier files a restart recognises.")
ASSUMPTIONS = ["OpenOptions flag semantics (std)", "lexicographic maximum of the .restart siblings is the highest number (4 digits)"]
NOT_DECIDED = ["preservation of contents over arbitrary run sequences and directory states", "same-second behaviour beyond the collision test", "cleanup interplay (C07)"]
FLOORS = {'R06.1': 1, 'R06.3': 6, 'R06.4': 8, 'R06.5': 2}


def run(R, ctx):
    R.rule('R06.10', 'append wiring: append()/o_append() on Logger and FileLogWriterBuilder reach config.append unchanged (setter tables, Logger mirrors the builder, try_build_state copies the field)')
    import cfgwiring
    cfgwiring.config_wiring(R, ctx, 'R06.10', 'C06')
    R.rule('R06.1', 'TABLE(open flags)')
    R.rule('R06.2', 'PROVENANCE(start index <= listing of plain + gz files with the number filter)')
    R.rule('R06.3', 'TABLE(start state per naming and append flag)')
    R.rule('R06.4', 'TABLE(collision test)')
    R.rule('R06.5', 'PROVENANCE(rotate flags)')
    R.rule('R06.6', 'index advances iff rename succeeded; rename before create (shared with C01)')
    R.rule('R06.7', 'SIBLINGS: listing predicate per naming scheme')
    open_flags(R, ctx)
    start_index(R, ctx)
    start_table(R, ctx)
    format_agreement(R, ctx)
    if ctx.has('compress'):
        # the cleanup that runs at every start must not destroy earlier runs' records: a rotated file is removed only after its complete .gz
        # was written in the same step (shared with R07.2)
        R.rule('R06.9', 'compression at (re)start: the original is removed only after its .gz was completely written in this step (shared with R07.2)')
        import c07 as _c07
        _c07.classification(_Fwd(R, 'R06.9', want=('R07.2',)), ctx)
    collision_table(R, ctx)
    c01.collision_rules(_As(R, 'R06.4'), ctx)      # every timestamp name that is opened with truncation / renamed to passes the collision test
    c01.index_table(_As(R, 'R06.6'), ctx)
    c01.order_rules(_As(R, 'R06.6'), ctx)
    listing_predicates(R, ctx)
    # every start-up listing (highest number, latest timestamp, collision test) stands on the infix predicates: their tables per variant are part of what
    # a restart sees of the earlier runs (tables shared with R14.2)
    import c14 as _c14i
    _c14i.infix_tables(Relabel(R, {'R14.2': 'R06.8'}), ctx)
    # every start decides from a LISTING of the log directory what earlier runs left behind; the listing tolerates read_dir errors (empty result), so the
    # directory must have been created and verified before the state is built - on every row of the builder (shared with R16.7)
    R.rule('R06.11', 'the log directory is created and verified before any state is built: the start-up listing can see the earlier runs (shared with R16.7)')
    import c16 as _c16
    _c16.directory(Relabel(R, {'R16.7': 'R06.11'}), ctx)
    timestamp_parse_total(R, ctx, rule='R06.7')
    family_predicate_proxy(R, ctx, 'R06.8', 'the listing that start index, restart numbers and the latest file are taken from recognises exactly the family (shared with R14.2)')

class _As:
    def __init__(self, R, to):
        self.R, self.to = R, to

    def check(self, rule, *a, **kw):
        return self.R.check(self.to, *a, **kw)

    def bad(self, rule, *a, **kw):
        return self.R.bad(self.to, *a, **kw)

    def ok(self, rule, *a, **kw):
        return self.R.ok(self.to, *a, **kw)


def open_flags(R, ctx, rule='R06.1'):
    f = ctx.f
    b = ctx.body(r'^writers::file_log_writer::state::open_log_file$')
    EFF = [r'^std::fs::OpenOptions::\w+$', r'FileSpec::as_pathbuf$', r'create_symlink_if_possible$', r'BufWriter::<W>::with_capacity$', r'WriteMode::buffersize$', r'^std::io::_print$']
    I = FDI(f, effects=EFF, no_inline=[r'FileSpec::as_pathbuf$', r'create_symlink_if_possible$', r'WriteMode::buffersize$'])
    rows = I.run(b.path)
    seen = set()
    bad = None
    n_ret = 0
    for r in rows:
        if r.undecided:
            R.bad(rule, f"{b.path}|flags", f"UNDECIDED {r.undecided}", where=b.loc())
            return
        app = r.get('config.append')
        flags = {}
        for e in r.effects:
            n_ = e[0].split('::')[-1]
            if e[0].startswith('std::fs::OpenOptions::') and n_ not in ('new', 'open'):
                flags[n_] = e[1][1]
        opened = [e for e in r.effects if e[0] == 'std::fs::OpenOptions::open']
        if not opened:
            continue
        seen.add(app)
        exp_app = {True: 'True', False: 'False', None: 'config.append'}[app]
        exp_tr = {True: 'False', False: 'True'}.get(app)
        if flags.get('write') != 'True' or flags.get('create') != 'True':
            bad = f"write/create flags are {flags.get('write')}/{flags.get('create')}"
        elif flags.get('append') not in (exp_app, 'config.append'):
            bad = f"append flag is {flags.get('append')} for config.append={app}"
        elif 'truncate' not in flags or (exp_tr is not None and flags['truncate'] != exp_tr):
            bad = f"truncate flag is {flags.get('truncate')} for config.append={app}; documented: truncate = not append (with append the earlier records must stay, without append a non-rotated file is documented to be truncated)"
        elif 'create_new' in flags:
            bad = "create_new would make every restart fail"
        path = r.long(opened[0][1][1])
        if 'as_pathbuf' not in path or 'config.file_spec' not in path:
            bad = f"the opened path is {path[:100]}, not as_pathbuf of the configured spec"
        # the path handed back (stored in the active state: reopen_output, the symlink and existing_log_files use it) is the very path that was
        # opened - not a resolved / absolute / otherwise rewritten variant of it
        if isinstance(r.result, Agg) and r.result.variant == 'Ok' and r.result.fields and isinstance(r.result.fields[0], Agg):
            sel = ok_payload_selectors(f, b, {'path': r'PathBuf$'})['path']
            pay = r.result.fields[0]
            if sel.isdigit():
                pv = pay.fields[int(sel)]
            else:
                names = [fd['name'] for fd in f.adts[pay.adt]['variants'][0]['fields']]
                pv = pay.fields[names.index(sel)]
            n_ret += 1
            given = re.sub(r'[&$*]|\.clone\(\)|<[^<>]*as std::clone::Clone>::clone', '', repr(pv))
            opened_p = re.sub(r'[&$*]', '', opened[0][1][1])
            if not re.fullmatch(r'[\w:<> ,]*as_pathbuf#\d+', given.strip('()')) or given.strip('()') != opened_p.strip('()'):
                bad = f"the path returned for the opened file is {given[:120]}, the path opened is {opened_p[:80]}: the stored path of the active state is not the configured path " \
                      "(reopen_output re-creates the file somewhere else once a directory link is re-pointed; the listing and the symlink disagree with the configured name)"
    if not bad and not n_ret:
        raise CheckError(f"{rule}: Ok payload of open_log_file not recognised")
    R.check(rule, f"{b.path}|flags", not bad and seen >= {True, False}, "write, create, append = config.append, truncate = !config.append",
            f"open_log_file: {bad or 'append flag not examined: rows ' + str(seen)}", where=b.loc(), sample={'rows': len(rows)})


def start_index(R, ctx):
    f = ctx.f
    b = ctx.body(r'^writers::file_log_writer::state::numbers::get_highest_index$')
    p = ctx.ip.prov(b.path)
    calls = [(bb, t) for bb, t in b.calls() if callee_name(t).endswith('list_of_log_and_compressed_files')]
    ok = len(calls) == 1
    numbrs = False
    if ok:
        a = calls[0][1]['args'][1]
        numbrs = 'Numbrs' in ' '.join(map(str, p.op_roots(a))) or any(
            s['k'] == 'assign' and s['rv']['k'] == 'agg' and s['rv'].get('variant') == 'Numbrs' for blk in b.blocks for s in blk['stmts']) or \
            any('Numbrs' in repr(x) for x in [ctx.f.bodies.get(b.path + '::promoted[0]') and ctx.f.bodies[b.path + '::promoted[0]'].pretty()])
    R.check('R06.2', f"{b.path}|lists-plain-and-gz", ok and numbrs, "iterates list_of_log_and_compressed_files(spec, Numbrs)",
            "get_highest_index does not derive the index from the listing of plain and compressed files with the number filter", where=b.loc())
    # the number is parsed from the stem text up to the first '.': the stem of `x_r00003.log.gz` is `x_r00003.log`.
    # Scope: the function, its closures and the crate-local helpers it reaches (the listing excluded), so that an
    # extracted helper or a filter_map closure is the same computation.
    LIST = r'list_of_log_and_compressed_files$'
    scope = [x for x in ctx.cg.reachable([b.path], spawn=False, stop={q for q in f.bodies if re.search(LIST, q)}) if x in f.bodies and not re.search(LIST, x)]
    parses = []
    cut = True
    CUTTER = r"::(split|split_once|find|strip_suffix|trim_end_matches|split_terminator)$|Split<.*>.*::next$"
    for q in sorted(scope):
        qb = f.bodies[q]
        for bb, t in qb.calls():
            if callee_name(t) != 'core::str::<impl str>::parse':
                continue
            parses.append((q, bb))
            this_cut = False
            for (rp, r_) in ctx.ip.expand(q, ctx.ip.prov(q).op_roots(t['args'][0])):
                if r_[0] in ('call', 'via') and re.search(CUTTER, r_[1]):
                    tt = f.bodies[rp].blocks[r_[2]]['term']
                    if any("'.'" in op_str(a_) or '"."' in op_str(a_) for a_ in tt['args']):
                        this_cut = True
                    # the split itself may iterate a Split value created earlier with the '.' pattern
                    for (rp2, r2) in ctx.ip.expand(rp, ctx.ip.prov(rp).op_roots(tt['args'][0])):
                        if r2[0] in ('call', 'via') and re.search(CUTTER, r2[1]):
                            t2 = f.bodies[rp2].blocks[r2[2]]['term']
                            if any("'.'" in op_str(a_) or '"."' in op_str(a_) for a_ in t2['args']):
                                this_cut = True
            cut = cut and this_cut
    # the index is the text behind the LAST `_r` of the stem: a basename or discriminant may itself contain `_r` (`web_runner_r00003`)
    first_occ = []
    for q in sorted(scope):
        for bb, t in f.bodies[q].calls():
            if re.search(r"str>?::(split_once|split|find|splitn|split_terminator)$", callee_name(t)) and any('_r' in op_str(a_) for a_ in t['args'][1:]):
                first_occ.append((q, callee_name(t).split('::')[-1], bb))
    R.check('R06.2', f"{b.path}|number-after-last-_r", not first_occ, "the number is cut behind the last `_r` (rsplit / rfind / rsplit_once)",
            f"get_highest_index cuts the stem at the FIRST `_r` ({[x[1] for x in first_occ]}): with `_r` inside the basename or discriminant the remainder does not parse, the highest "
            "index counts as 0 and a restart numbers from 1 again - rCURRENT is renamed onto / the new file truncates an earlier run's file", where=b.loc())
    R.check('R06.2', f"{b.path}|number-up-to-first-dot", bool(parses) and cut, "the parsed text is cut at the first '.'",
            "get_highest_index parses the number from the whole remainder of the file stem: for a compressed file `x_r00003.log.gz` the stem is `x_r00003.log`, `00003.log` does not parse "
            "and counts as 0 - after a restart with only compressed files the numbering restarts below them and a later compression overwrites an existing .gz", where=b.loc())
    highest_is_maximum(R, ctx, b)
    lb = ctx.body(r'^writers::file_log_writer::state::list_and_cleanup::list_of_log_and_compressed_files$')
    I = FDI(f, effects=[r'existing_log_files$'], no_inline=[r'existing_log_files$'])
    rows = I.run(lb.path)
    ok2 = len(rows) == 1 and len(rows[0].effects) == 1
    if ok2:
        x = rows[0].effects[0][2]['x'][3]
        sel = rows[0].effects[0][1][3]
        ok2 = rows[0].effects[0][1][1] == 'True' and 'LogfileSelector(True,False,True,' in sel.replace(' ', '')
    R.check('R06.2', f"{lb.path}|selector", ok2, "rotation = true, selector = plain + compressed, no current file",
            f"list_of_log_and_compressed_files no longer selects plain AND compressed files ({rows[0].effects[0][1] if rows and rows[0].effects else '?'}): with only .gz files left a restart would reuse their numbers",
            where=lb.loc())


def highest_is_maximum(R, ctx, b, rule='R06.2'):
    """the highest index is the MAXIMUM over ALL listed files, decided on the rows of get_highest_index: the iteration over the listing runs to its end
    (no first hit), and the number of every listed file that parses is an operand of the result.  The listing is `plain files, then .gz files`, each
    part sorted on its own - it is not sorted by number, and after an interrupted cleanup pass a .gz can carry a higher number than every plain file"""
    f = ctx.f
    PARSE = r'core::str::<impl str>::parse$'
    LIST = r'list_of_log_and_compressed_files$'
    OUTER = r'^<std::vec::IntoIter<T, A> as std::iter::Iterator>::next$|^<std::slice::Iter<.*> as std::iter::Iterator>::next$'
    I = FDI(f, effects=[r'as std::iter::Iterator>::next$', PARSE, LIST], loop_k=2, no_inline=[PARSE, LIST], max_steps=40000, max_rows=20000)
    bad = None
    n = n2 = 0
    for r in I.run(b.path):
        if r.undecided:
            raise CheckError(f"{rule} get_highest_index: UNDECIDED {r.undecided}")
        nx = [e for e in r.effects if e[0].split('::')[-1] == 'next']
        # the outermost loop's iterator is the one asked first; its later next() calls have the same iterator expression (modulo the call counter)
        key = lambda e: re.sub(r"[#'](u?\d+)", '', r.long(e[1][0]))
        outer = [e for e in nx if key(e) == key(nx[0])] if nx else []
        if not outer or not re.search(OUTER, outer[0][0]):
            raise CheckError(f"{rule} get_highest_index: iteration over the listing not recognised")
        n += 1
        res = r.long(repr(r.result))
        if r.get(f"variant({outer[-1][0]}#{outer[-1][2].get('n')})") != 'None':
            bad = (f"returns `{res[:60]}` after {len(outer)} listed file(s) without looking at the rest: first hit instead of the maximum (the listing is plain files then .gz "
                   "files, not sorted by number)")
            continue
        oks = [e for e in r.effects if re.search(PARSE, e[0]) and r.get(f"variant({e[0]}#{e[2].get('n')})") == 'Ok']
        if len(oks) >= 2:
            n2 += 1
        miss = [e for e in oks if f"parse#{e[2].get('n')}" not in res]
        if miss:
            bad = f"with {len(oks)} numbered files listed the result `{res[:70]}` does not take the number of every file into account"
        elif re.search(r'\bmin\b', res):
            bad = "uses min"
        elif oks and not res.startswith('Option::Some'):
            bad = f"returns `{res[:40]}` although numbered files are listed"
    if not bad and (n < 3 or n2 < 1):
        raise CheckError(f"{rule} get_highest_index: form not recognised ({n} rows, {n2} with two numbered files)")
    R.check(rule, f"{b.path}|maximum-over-all-listed-files", not bad, f"{n} rows: the listing is iterated to its end and every parsed number is an operand of the result",
            f"get_highest_index {bad}: a restart numbers below an existing (compressed) file - rCURRENT is renamed onto / a later compression overwrites an earlier file", where=b.loc())


def start_table(R, ctx, restart_sibling_clause=True):
    f = ctx.f
    b = ctx.body(r'::State::initialize_with_rotation$')
    rows = c01.init_rows(ctx)
    per = {}
    for r in rows:
        if r.undecided:
            R.bad('R06.3', f"{b.path}|start", f"UNDECIDED {r.undecided}", where=b.loc())
            return
        nm = r.get('variant(rotate_config.naming)')
        cur = r.get('variant(rotate_config.naming.current_infix)')
        app = r.get('self.config.append')
        names = [e[0].split('::')[-1] for e in r.effects]
        key = (nm, cur if nm == 'TimestampsCustomFormat' else None)
        per.setdefault(key, []).append((app, r, names))
    f28 = set()
    need = [('Numbers', None), ('NumbersDirect', None), ('Timestamps', None), ('TimestampsDirect', None), ('TimestampsCustomFormat', 'Some'), ('TimestampsCustomFormat', 'None')]
    for key in need:
        lst = per.get(key, [])
        bad = None
        if not lst:
            bad = 'naming missing from the table'
        for (app, r, names) in lst:
            nm = key[0]
            if nm == 'NumbersDirect':
                hi = next((v for a, v in r.cond if a.startswith('variant(') and 'get_highest_index#' in a), None)
                ni = [e for e in r.effects if e[0].endswith('number_infix')]
                if not ni:
                    continue
                arg = ni[0][1][0]
                if hi == 'None':
                    exp = '0'
                elif app is True:
                    exp = r'^[\w:]*get_highest_index#\d+\.0$'
                else:
                    exp = r'^\(1\+[\w:]*get_highest_index#\d+\.0\)$'
                if not re.match(exp if exp != '0' else r'^0$', arg):
                    bad = f"highest={hi}, append={app}: start index {arg}; documented: " + ('0' if hi == 'None' else 'highest' if app else 'highest + 1')
                if app is None and hi == 'Some':
                    bad = "the append flag is not examined"
            elif nm in ('Numbers', 'Timestamps') or key == ('TimestampsCustomFormat', 'Some'):
                fn_ = 'index_for_rcurrent' if nm == 'Numbers' else 'creation_timestamp_of_currentfile'
                c = [e for e in r.effects if e[0].endswith(fn_)]
                if not c:
                    bad = f"{fn_} is not called"
                    continue
                flag = c01.rotate_flag_arg(ctx, c[0])
                given = eff_arg(f, c[0], 'o_index_for_rcurrent', r'^std::option::Option<u32>$') if nm == 'Numbers' else eff_arg(f, c[0], 'o_date_for_rotated_file', r'^std::option::Option<&')
                # rotate flag = !config.append (as a decided boolean)
                if app is None or flag != str(not app):
                    bad = f"left-over current file: rotate flag is {flag} for append={app}; documented: rotate iff not appending"
                if 'None' not in given:
                    bad = f"start-up passes {given} instead of None (index / date must come from the directory)"
                if nm != 'Numbers':
                    infix = eff_arg(f, c[0], 'current_infix', r'^&str$')
                    # the current file that is looked for at start is the one this naming writes to: the constant rCURRENT for
                    # Timestamps, the CONFIGURED current infix for TimestampsCustomFormat
                    if nm == 'TimestampsCustomFormat' and 'current_infix' not in infix:
                        bad = f"start with a custom current infix looks for the current file with infix {infix} instead of the configured one: the previous run's current file is not " \
                              "rotated but truncated by the open that follows (its records are lost)"
                    if nm == 'Timestamps' and 'rCURRENT' not in infix:
                        bad = f"start with Naming::Timestamps looks for the current file with infix {infix} instead of rCURRENT"
                    op = [e for e in r.effects if e[0].endswith('open_log_file')]
                    if op and c01.norm(infix).replace('&', '') not in r.long(op[0][1][1]).replace('&', '') and 'rCURRENT' not in infix:
                        bad = "the file opened is not the one with the current infix"
            else:   # direct timestamp namings
                lt = [e for e in r.effects if e[0].endswith('latest_timestamp_file')]
                if not lt:
                    bad = "latest_timestamp_file is not consulted"
                    continue
                flag = eff_arg(f, lt[0], 'rotate', r'^bool$')
                if app is None or flag != str(not app):
                    bad = f"latest_timestamp_file rotate flag is {flag} for append={app}; documented: continue the latest file iff appending"
                # F28: when appending, the file that is continued is named from the PARSED timestamp of the newest file only: a
                # `.restart-NNNN` part of that file's name is lost, so the base file of that second is re-opened although newer
                # restart siblings exist
                op = [e for e in r.effects if e[0].endswith('open_log_file')]
                if app is True and op:
                    infix = r.long(op[0][1][1])
                    if 'latest_timestamp_file#' in infix and 'infix_from_timestamp' in infix and 'collision_free' not in infix and 'restart' not in infix:
                        f28.add(nm)
        R.check('R06.3', f"{b.path}|start|{key[0]}|{key[1]}", not bad, f"{len(lst)} rows agree", f"start with naming {key[0]}" + (f"(current_infix {key[1]})" if key[1] else '') + f": {bad}",
                where=b.loc(), sample={'naming': key, 'rows': len(lst)})
    if not restart_sibling_clause:
        pass        # a matter of C06 / C11 (which file of the newest second is continued), not of the sharing property
    elif f28:
        R.bad('R06.3', 'direct-timestamp-append-ignores-restart-siblings',
              f"start with append and direct timestamp naming ({sorted(f28)}): the file continued is named infix_from_timestamp(latest_timestamp_file(..)) - the parsed timestamp of the newest "
              "file only, so the base file `<ts>` of that second is re-opened although newer `<ts>.restart-NNNN` siblings exist: the new records are appended to a file that sorts "
              "before files holding later records (or, after cleanup removed the base file, into a re-created file that the start-up cleanup then deletes)", where=b.loc())
    else:
        R.ok('R06.3', 'direct-timestamp-append-ignores-restart-siblings', 'the continued file is not re-derived from the parsed timestamp alone')
    # R06.5 rotation-time flags are the constant true (from the rotation table)
    rb = ctx.body(r'::State::mount_next_linewriter_if_necessary$')
    n = 0
    bad = None
    for r in c09.mount_rows(ctx):
        for e in r.effects:
            if e[0].endswith('index_for_rcurrent'):
                n += 1
                a_flag, a_idx = c01.rotate_flag_arg(ctx, e), eff_arg(f, e, 'o_index_for_rcurrent', r'^std::option::Option<u32>$')
                if a_flag != 'True' or 'Some' not in a_idx:
                    bad = f"index_for_rcurrent({a_idx}, {a_flag}) at rotation; documented (Some(stored index), true)"
            if e[0].endswith('creation_timestamp_of_currentfile'):
                n += 1
                if eff_arg(f, e, 'rotate_rcurrent', r'^bool$') != 'True':
                    bad = f"creation_timestamp_of_currentfile rotate flag {eff_arg(f, e, 'rotate_rcurrent', r'^bool$')} at rotation"
    R.check('R06.5', f"{rb.path}|rotate-flags", not bad and n >= 2, f"{n} rotation-time calls with rotate = true and the stored index", f"rotation: {bad}", where=rb.loc())
    # latest_timestamp_file: rotate -> now; else newest parsable listed timestamp, else now
    lb = ctx.body(r'::timestamps::latest_timestamp_file$')
    # rotate = true: the clock, nothing listed
    I = FDI(f, effects=[r'^chrono::Local::now$', r'FileSpec::list_of_files$'], no_inline=[r'FileSpec::list_of_files$', r'ts_infix_from_path$', r'timestamp_from_ts_infix$'], loop_k=1, max_steps=20000)
    okl, why, nrot = True, '', 0
    for r in I.run(lb.path, arg_names=['config', 'rotate', 'fmt']):
        if r.undecided:
            raise CheckError(f"R06.5 latest_timestamp_file: UNDECIDED {r.undecided}")
        if r.get('rotate') is True:
            nrot += 1
            names = [e[0].split('::')[-1] for e in r.effects]
            if names != ['now'] or 'now#1' not in repr(r.result):
                okl, why = False, f"rotate=true: {names} -> {r.result!r}"
    # rotate = false: the newest parsable listed timestamp, the clock only if there is none (any form: reduce, max, running maximum)
    TS, TI, NOW = r'timestamp_from_ts_infix$', r'ts_infix_from_path$', r'^chrono::Local::now$'

    def elem_of(x, r):
        ks = T.eff_indices(x, c02.NEXT)
        return next(iter(ks)) if len(ks) == 1 else None

    def counts(k, r):
        for a, v in r.cond:
            info = r.atom_info.get(a, {})
            if info.get('kind') == 'variant' and T.eff_indices(info['of'], TS) and k in T.eff_indices(info['of'], c02.NEXT):
                return v == 'Ok'
        return False

    def accept(a, v, info, r):
        if a == 'rotate':
            return True
        return info.get('kind') == 'variant' and bool(T.eff_indices(info['of'], TS))
    if okl:
        okl, why, nn = c02.max_over_all(ctx, lb, ['config', 'rotate', 'fmt'], [TS, TI, NOW, r'FileSpec::list_of_files$'],
                                        base=lambda x: bool(T.eff_indices(x, NOW)) and not T.eff_indices(x, TS),
                                        elem=lambda x, k: bool(T.eff_indices(x, TS)),
                                        elem_of=elem_of, source=lambda x: bool(T.eff_indices(x, r'FileSpec::list_of_files$')), need_base=True,
                                        counts=counts, accept_atom=accept, row_ok=lambda r: r.get('rotate') is False, rule='R06.5')
    R.check('R06.5', f"{lb.path}|table", okl and nrot >= 1, "rotate -> now; else the newest parsable listed timestamp (or now when there is none)", f"latest_timestamp_file: {why}", where=lb.loc())


def collision_table(R, ctx):
    f = ctx.f
    b = ctx.body(r'^parameters::file_spec::FileSpec::collision_free_infix_for_rotated_file$')
    EFF = [r'Path::exists$', r'FileSpec::list_of_files$', r'FileSpec::as_pathbuf$', r'PathBuf::set_extension$', r'::sort\w*$', r'Vec::<T, A>::pop$', r'core::str::<impl str>::parse$',
           r'Vec::<T, A>::len$', r'::collect$', r'fmt::format$', r'Iterator::(max|min|last|count)\w*$']
    I = FDI(f, effects=EFF, no_inline=[r'FileSpec::list_of_files$', r'FileSpec::as_pathbuf$'], no_models=[r'Iterator>?::(max|min)$'])
    rows = I.run(b.path, arg_names=['self', 'infix'])
    n = 0
    for r in rows:
        if r.undecided:
            R.bad('R06.4', f"{b.path}|table", f"UNDECIDED {r.undecided}", where=b.loc())
            return
        ex = [(a, v) for a, v in r.cond if a.startswith('std::path::Path::exists#')]
        sib_empty = next((v for a, v in r.cond if 'is_empty(' in a and 'collect#' in a), None)
        # `match siblings.iter().max() { None => .., Some(latest) => .. }` examines the same fact
        mx = next((v for a, v in r.cond if a.startswith('variant(') and re.search(r'Iterator>?::max#', a) and 'collect#' in r.long(a)), None)
        # any other reduction over the listed files (max_by / last / reduce on an iterator chain without an intermediate vector) examines the siblings too, but
        # in a form these rows do not interpret: not a deviation, the check says that it cannot decide this form
        other_red = [a for a, v in r.cond if re.search(r'Iterator>?::(max_by|max_by_key|last|reduce|fold|min_by|min_by_key)#', a) and 'list_of_files#' in r.long(a)]
        if mx is None and other_red:
            red_name = re.search(r'Iterator>?::(\w+)#', other_red[0]).group(1)
            raise CheckError(f"R06.4: the restart siblings are examined through {red_name}() on an iterator chain - form not recognised by the collision table")
        if mx is not None:
            if sib_empty is not None and sib_empty != (mx == 'None'):
                continue            # infeasible: is_empty() and max() of the same vector disagree
            sib_empty = (mx == 'None')
        # `sort(); match siblings.pop() { None => 0, Some(highest) => .. }`: pop() of the same (only sorted) vector examines emptiness too
        pp = next((v for a, v in r.cond if a.startswith('variant(') and re.search(r'Vec::<T, A>::pop#\d+\)$', a)), None)
        if pp is not None:
            if sib_empty is not None and sib_empty != (pp == 'None'):
                continue            # infeasible: is_empty() and pop() of the same vector disagree
            sib_empty = (pp == 'None')
        sfx = r.get('variant(self.o_suffix)')
        key = f"suffix={sfx}|exists={[v for a, v in ex]}|siblings_empty={sib_empty}"
        res = r.long(repr(r.result))
        exists_eff = [e for e in r.effects if e[0].endswith('Path::exists')]
        problems = []
        # operands of the existence tests
        if exists_eff:
            p0 = r.long(exists_eff[0][1][0])
            if 'as_pathbuf' not in p0 or 'infix' not in p0:
                problems.append("the first existence test is not on as_pathbuf(Some(infix))")
        if len(exists_eff) > 1:
            se = [e for e in r.effects if e[0].endswith('set_extension')]
            if not se or ".gz'" not in se[0][1][1] or c01.norm(exists_eff[1][1][0]).split('#')[0] != c01.norm(se[0][1][0]).split('#')[0]:
                problems.append("the second existence test is not on the same path with `.gz` appended to the suffix")
        any_exists = any(v is True for a, v in ex)
        all_examined = any_exists or len(ex) == 2
        collision = any_exists or (sib_empty is False)
        lists = [e for e in r.effects if e[0].endswith('list_of_files')]
        if sib_empty is None and not any_exists:
            problems.append("the .restart siblings are not examined")
        if not any_exists and len(ex) < 2:
            problems.append("only one of plain / .gz existence is examined")
        if len(lists) != 2 or not any("'gz'" in e[1][2] for e in lists) or not all('Equls' in e[1][1] and 'infix' in e[1][1] for e in lists):
            problems.append("the siblings are not listed for both the configured suffix and gz with the exact infix")
        plain = re.fullmatch(r"\$<T as std::string::ToString>::to_string\(&infix\)", res) is not None
        if not collision:
            if not plain:
                problems.append(f"no collision but the result is {res[:80]}")
        else:
            if plain or '.restart-' not in res:
                problems.append("a collision exists but the infix is returned unchanged: the existing rotated file would be overwritten")
            elif sib_empty is True or sib_empty is None and False:
                if 'new_display(&0)' not in res:
                    problems.append("first restart suffix is not 0")
            elif sib_empty is False:
                names = [e[0].split('::')[-1] for e in r.effects]
                m_ = re.search(r"new_display\(&\(1\+[\w:<> ]*parse#(\d+)", res)
                if not m_:
                    problems.append("with existing .restart siblings the next number is not `parsed number of a sibling + 1` "
                                    f"({re.search(r'new_display[(]&(.{0,60})', res).group(1) if re.search(r'new_display[(]&(.{0,60})', res) else res[-80:]})")
                else:
                    pe = r.effects[int(m_.group(1)) - 1]
                    src = r.long(pe[1][0])
                    by_sort = 'pop#' in src and any(n_.startswith('sort') for n_ in names) and names.index([n_ for n_ in names if n_.startswith('sort')][0]) < names.index('pop')
                    by_max = re.search(r'Iterator>?::max#\d+\(', src) is not None and 'collect#' in src
                    if not (by_sort or by_max):
                        problems.append("the parsed sibling is not the maximum (sort then pop, or max()) of the .restart siblings")
                    if ".restart-'" not in src:
                        problems.append("the number is not taken from the text after `.restart-`")
        n += 1
        R.check('R06.4', f"{b.path}|{key}", not problems, "agrees with the documented collision test", f"collision test [{key}]: {problems[0] if problems else ''}", where=b.loc(),
                sample={'row': key, 'result': res[:70]})
    if n < 8:
        raise CheckError(f"collision table has only {n} rows")


def listing_predicates(R, ctx, rule='R06.7', filter_clause=True):
    f = ctx.f
    # every list_of_files / list_of_log_and_compressed_files call on behalf of a naming scheme: which filter?
    b = ctx.body(r'::timestamps::latest_timestamp_file$')
    p = ctx.ip.prov(b.path)
    nsites = 0
    for x, bb, t in calls_with_closures(f, b):
        if not callee_name(t).endswith('FileSpec::list_of_files'):
            continue
        nsites += 1
        px = ctx.ip.prov(x.path)
        if filter_clause:
            agg = [s['rv'].get('variant') for blk in b.blocks for s in blk['stmts'] if s['k'] == 'assign' and s['rv']['k'] == 'agg' and 'InfixFilter' in s['rv'].get('adt', '')]
            promoted = [s['rv'].get('variant') for y in f.bodies.values() if y.owner == b.path and y.promoted is not None for blk in y.blocks for s in blk['stmts']
                        if s['k'] == 'assign' and s['rv']['k'] == 'agg' and 'InfixFilter' in s['rv'].get('adt', '')]
            uses_ts = 'Timstmps' in agg + promoted
            R.check(rule, f"{b.path}|filter", uses_ts, "lists with Timstmps(format)",
                    "latest_timestamp_file lists the earlier files with the constant number filter (InfixFilter::Numbrs) instead of the timestamp filter of the configured format: "
                    "with a custom format not starting with `r`+digit and append, the earlier file is never continued", where=x.loc(bb))
        # the suffix of the family is part of the predicate: the listing that decides which file a restart continues is asked for the configured
        # suffix (a `None` skips the suffix test: a foreign `app_r2099-01-01_00-00-00.txt` would set the timestamp the restarted logger continues with)
        roots = {r_ for (_q, r_) in ctx.ip.expand(x.path, px.op_roots(t['args'][2]))} | set(px.op_roots(t['args'][2]))
        from_cfg = any(r_[0] in ('call', 'via') and re.search(r'FileSpec::get_suffix$|FileLogWriterConfig::suffix$', r_[1]) for r_ in roots)
        R.check(rule, f"{b.path}|suffix", from_cfg, "the listing is asked for the configured suffix",
                f"latest_timestamp_file lists without the configured suffix ({sorted(map(str, roots))[:3]}): files of any extension with a timestamp-like infix are taken for earlier "
                "log files and decide which file a restart with append continues", where=x.loc(bb))
    if nsites < 1:
        raise CheckError(f"{rule}: the listing in latest_timestamp_file was not found")
    # the same for EVERY listing of the family in the crate: the suffix handed to FileSpec::list_of_files is the configured one (a field / getter of the
    # file spec) or the constant `gz` of the compressed twins - never None or another constant
    nall = 0
    for x in f.fn_bodies():
        if root_fn(x.path) == b.path or x.promoted is not None:
            continue
        for bb, t in x.calls():
            if not callee_name(t).endswith('FileSpec::list_of_files'):
                continue
            nall += 1
            px = ctx.ip.prov(x.path)
            roots = set(px.op_roots(t['args'][2]))
            txt = ' '.join(map(str, roots))
            # `self.o_suffix.as_deref()`: the receiver of the adaptor is the suffix field of the file spec
            field_ok = False
            for r_ in roots:
                if r_[0] == 'via' and isinstance(r_[2], int):
                    blk = x.blocks[r_[2]]
                    ops = [a_ for a_ in blk['term'].get('args', []) if a_['k'] in ('copy', 'move')]
                    if any('o_suffix' in place_fields(a_['place']) for a_ in ops) or \
                            any(s_['k'] == 'assign' and s_['rv']['k'] == 'ref' and 'o_suffix' in place_fields(s_['rv']['place']) for bl_ in x.blocks for s_ in bl_['stmts']):
                        field_ok = True
            okc = (bool(re.search(r"get_suffix|FileLogWriterConfig::suffix|'gz'|\"gz\"", txt)) or field_ok) and 'Option::None' not in txt
            R.check(rule, f"{root_fn(x.path)}|suffix-of-listing", okc, "family listing asked for the configured suffix / gz",
                    f"{x.path} lists the family with suffix {sorted(map(str, roots))[:3]}: neither the configured suffix nor `gz`, so files of other extensions count as log files",
                    where=x.loc(bb))
    if nall < 2:
        raise CheckError(f"{rule}: only {nall} further call sites of FileSpec::list_of_files found")


def timestamp_parse_total(R, ctx, rule='R14.2'):
    """the reader of file-name timestamps accepts every infix the writer can produce: the naive time parsed from the name is mapped to a local time with a
    TOTAL choice for ambiguous local times (`earliest` / `latest`).  `single()` (or an unwrap of it) rejects every time in the hour that repeats when
    daylight saving ends: files rotated in that hour fail the family predicate - cleanup never counts, compresses or removes them, a restart does not
    continue them."""
    f = ctx.f
    b = ctx.body(r'::timestamps::timestamp_from_ts_infix$')
    picks = []
    for x, bb, t in calls_with_closures(f, b):
        m = re.search(r'LocalResult::<T>::(single|earliest|latest|unwrap)$', callee_name(t))
        if m:
            picks.append((m.group(1), x.loc(bb)))
    for q in ctx.cg.reachable([b.path], spawn=False):
        if q in f.bodies and q != b.path and not q.startswith(b.path + '::'):
            for bb, t in f.bodies[q].calls():
                m = re.search(r'LocalResult::<T>::(single|earliest|latest|unwrap)$', callee_name(t))
                if m:
                    picks.append((m.group(1), f.bodies[q].loc(bb)))
    if not picks:
        raise CheckError(f"{rule}: conversion of the parsed file-name timestamp to local time not recognised in timestamp_from_ts_infix")
    partial = [p_ for p_ in picks if p_[0] in ('single', 'unwrap')]
    R.check(rule, f"{b.path}|ambiguous-local-times-accepted", not partial, f"{len(picks)} conversions, all with earliest()/latest()",
            f"timestamp_from_ts_infix maps the parsed time to local time with LocalResult::{partial[0][0] if partial else ''}(): a timestamp inside the hour that repeats when daylight "
            "saving ends is rejected, so files rotated in that hour are not recognised as log files (never cleaned up, never continued)", where=partial[0][1] if partial else b.loc())


def format_agreement(R, ctx, rule='R06.3'):
    """one timestamp format per logger: at start, every helper that derives or parses a file-name timestamp (the left-over current file that is
    rotated away, the latest file that is continued, the first direct file) is given the SAME InfixFormat that is stored in the naming state -
    the stored one names every later rotation and selects the family in listings and cleanup."""
    from fdi import Agg
    f = ctx.f
    b = ctx.body(r'::State::initialize_with_rotation$')

    def walk(v):
        if isinstance(v, Agg):
            yield v
            for x in v.fields:
                yield from walk(x)

    norm = lambda s: re.sub(r'[&$*]', '', str(s))
    bad = None
    n = 0
    for r in c01.init_rows(ctx):
        if r.undecided or not (isinstance(r.result, Agg) and r.result.variant == 'Ok'):
            continue
        nm = r.get('variant(rotate_config.naming)')
        if not nm or not nm.startswith('Timestamps'):
            continue
        ns = [a for a in walk(r.result) if str(a.adt).endswith('NamingState')]
        if len(ns) != 1:
            raise CheckError(f"{rule}: naming state not found in the value returned by {b.path} (form not recognised)")
        flds = [fl['name'] for v in f.adts[ns[0].adt]['variants'] if v['name'] == ns[0].variant for fl in v['fields']]
        idx = [i for i, fl in enumerate(flds) if fl == 'infix_format']
        if not idx:
            idx = [i for v in f.adts[ns[0].adt]['variants'] if v['name'] == ns[0].variant for i, fl in enumerate(v['fields']) if 'InfixFormat' in fl['ty']]
        if len(idx) != 1:
            raise CheckError(f"{rule}: format field of the naming state not found")
        stored = norm(repr(ns[0].fields[idx[0]]))
        for e in r.effects:
            cb = f.bodies.get(e[0])
            if cb is None:
                continue
            pi = [i for i, l in enumerate(cb.locals[1:cb.arg_count + 1]) if 'InfixFormat' in l['ty']]
            if len(pi) != 1 or pi[0] >= len(e[1]):
                continue
            n += 1
            given = norm(e[1][pi[0]])
            if given != stored:
                cur = r.get('variant(rotate_config.naming.current_infix)')
                bad = f"start with naming {nm}" + (f"(current_infix {cur})" if nm == 'TimestampsCustomFormat' else '') + f": {e[0].split('::')[-1]} is given the format {given}, " \
                      f"the naming state stores {stored}: files named at start do not carry the format that later rotations, the listing and the cleanup use"
    R.check(rule, f"{b.path}|one-timestamp-format", not bad and n >= 4, f"{n} format arguments at start agree with the stored format", f"{bad}", where=b.loc())


class _Fwd:
    """forward only the obligations of the wanted source rules of another property's module under this property's rule id"""

    def __init__(self, R, to, want):
        self.R, self.to, self.want = R, to, want
        self.stats = R.stats
        self.known = {}

    def rule(self, *a, **kw):
        pass

    def check(self, rule, *a, **kw):
        if rule in self.want:
            return self.R.check(self.to, *a, **kw)
        return a[1] if len(a) > 1 else True

    def bad(self, rule, *a, **kw):
        if rule in self.want:
            return self.R.bad(self.to, *a, **kw)

    def ok(self, rule, *a, **kw):
        if rule in self.want:
            return self.R.ok(self.to, *a, **kw)
