"""C02 — a record is written iff the active specification (and text filter) enables it."""
from rulelib import *
from report import CheckError
from fdi import FDI, Const, Agg, Sym, Ref
import table as T
import c13, c05

EXPLANATION = ("R02.1 the matcher LogSpecification::enabled is a first-match decision list over the module filters in vector order (k<=2 abstract "
               "elements): entry without name or with target.starts_with(name) decides `level <= its level_filter`, no match -> false, operand "
               "origins checked; R02.2 longest name first: the one function sorting module filters uses a stable slice sort ordering by descending name length (comparator, Reverse key or reverse(); default "
               "entry = length 0), and every value stored into `module_filters` comes from that function, another specification, or a vector of "
               "at most one element; R02.3 gate order of FlexiLogger::log (shared with R13.1): default channel iff (not brace or _Default) and "
               "enabled(level, effective target) and (no text filter or it matches the Display of the message), then line filter or primary "
               "writer; R02.4 global max level = max(spec.max_level(), every additional writer's max_log_level()) on build and on every change; "
               "R02.5 enabled() never under-approximates log(); R02.6 update_from copies every field (a stale text filter would keep filtering). R02.7 specification and gate change together under the specification write lock (C12's rules R12.1-R12.4 shared)."
               " R02.8 (shared with R17.1/R17.3): parse() stores module names verbatim (split/trim/copy only) and takes every level from parse_level_filter.")
ASSUMPTIONS = ["str::starts_with / regex semantics (std, regex)", "log::Level/LevelFilter documented order", "specifications name each module at most once (quantifier)"]
NOT_DECIDED = ["regex semantics", "string semantics of starts_with", "specifications naming a module twice"]
FLOORS = {'R02.1': 1, 'R02.2': 6, 'R02.3': 1, 'R02.4': 3, 'R02.5': 1, 'R02.6': 1}


def run(R, ctx):
    R.rule('R02.1', 'TABLE(matcher as first-match decision list), k-unrolled')
    R.rule('R02.2', 'stable descending sort by name length on every constructor of module_filters')
    R.rule('R02.3', 'TABLE(gate order in log())')
    R.rule('R02.4', 'global max level is the max over specification and all writers; set on build and on change')
    R.rule('R02.5', 'enabled() >= log()')
    R.rule('R02.6', 'FIELD-COMPLETENESS(update_from)')
    matcher(R, ctx)
    sorting(R, ctx)
    gate_order(R, ctx)
    global_gate(R, ctx)
    enabled_vs_log(R, ctx)
    fields(R, ctx)
    # the specification and log's global max level change together: a record the active specification enables is not dropped by the
    # facade because a concurrent change left the gate of another specification behind (shared with C12 R12.1-R12.4)
    R.rule('R02.7', 'specification and gate are updated together under the specification write lock (shared with R12.1-R12.4)')
    # the specification that decides is the one the user wrote: parse() stores module names verbatim (prefix matching against targets) and takes
    # levels from the one recogniser (shared with R17.1 / R17.3)
    R.rule('R02.8', 'parse stores names verbatim and levels through parse_level_filter (shared with R17.1/R17.3)')
    import c17 as _c17
    _c17.parse_shape(Relabel(R, {'R17.1': 'R02.8', 'R17.3': 'R02.8'}), ctx)
    import c12
    c12.run(Relabel(R, {'R12.1': 'R02.7', 'R12.2': 'R02.7', 'R12.3': 'R02.7', 'R12.4': 'R02.7', 'R12.5': 'R02.6'}), ctx)


# ------------------------------------------------------------------------------------------------ R02.1
NEXT = r"as std::iter::(DoubleEnded)?Iterator>::next(_back)?$"


def matcher(R, ctx):
    """The matcher as a first-match decision list.  Atoms are classified by what they examine (list position, name option,
    prefix test, level comparison), whatever the syntactic form (for/match, iter().find(), any()); atoms outside the
    documented decision are don't-cares: the result must equal the documented one whatever their value."""
    f = ctx.f
    b = ctx.body(r'^log_specification::LogSpecification::enabled$')
    I = FDI(f, effects=[NEXT], loop_k=ctx.k(2, 4))
    rows = I.run(b.path, arg_names=['self', 'level', 'writing_module'])
    problems = []
    shapes = set()
    skipped = 0
    for r in rows:
        if r.undecided:
            R.bad('R02.1', f"{b.path}|matcher", f"UNDECIDED: {r.undecided}", where=b.loc())
            return
        nexts = [e for e in r.effects if re.search(NEXT, e[0])]
        for e in nexts:
            src = e[2]['x'][0]
            if 'module_filters' not in T.fields_in(src) or 'self' not in T.inputs_in(src) or re.search(r'next_back|::rev\b|Rev<', e[0] + repr(src)):
                problems.append("the matcher does not iterate self.module_filters forward, in vector order")
        pos_of = {e[2]['n']: i for i, e in enumerate(nexts)}
        el = {}
        foreign = []

        def elem_of(x):
            ks = T.eff_indices(x, NEXT) & set(pos_of)
            return pos_of[next(iter(ks))] if len(ks) == 1 else None
        for a, v in r.cond:
            info = r.atom_info.get(a, {})
            kind = info.get('kind')
            x = info.get('x') if kind != 'variant' else info.get('of')
            if kind == 'variant':
                xs = T.strip_refs(x)
                if isinstance(xs, tuple) and xs[0] == 'eff' and xs[2] in pos_of:
                    el.setdefault(pos_of[xs[2]], {})['present'] = (v == 'Some')
                    continue
                k = elem_of(x)
                xs = T.strip_refs(x)
                if k is not None and isinstance(xs, tuple) and xs[0] == 'call' and re.search(r'str>?::strip_prefix$', xs[1]) and len(xs[2]) >= 2 and \
                        T.is_input(xs[2][0], 'writing_module') and 'module_name' in T.fields_in(xs[2][1]):
                    el.setdefault(k, {})['prefix'] = (v == 'Some')
                    continue
                if k is not None and isinstance(xs, tuple) and xs[0] == 'field' and xs[2] == 'module_name':
                    el.setdefault(k, {})['named'] = (v == 'Some')
                    continue
            elif kind == 'ord':
                xa, xb = info.get('a'), info.get('b')
                for (p_, q_, fl) in ((xa, xb, False), (xb, xa, True)):
                    k = elem_of(q_)
                    if T.is_input(p_, 'level') and k is not None and 'level_filter' in T.fields_in(q_):
                        rel = T.flip(v) if fl else v
                        el.setdefault(k, {})['le'] = T.rel_to_bool(rel, 'le')
                        break
                else:
                    foreign.append((a, v, (xa, xb)))
                continue
            elif isinstance(x, tuple) and x[0] == 'call' and re.search(r'str>?::starts_with$', x[1]) and len(x[2]) >= 2:
                k = elem_of(x[2][1])
                if T.is_input(x[2][0], 'writing_module') and k is not None and 'module_name' in T.fields_in(x[2][1]):
                    el.setdefault(k, {})['prefix'] = bool(v)
                    continue
            if isinstance(x, tuple) and 'writing_module' in T.inputs_in(x) and 'module_name' in T.fields_in(x) and elem_of(x) is not None:
                problems.append(f"the test relating the writing module to a filter's name is not `writing_module.starts_with(name)`: {a[:160]}")
            foreign.append((a, v, x))
        # documented decision
        exp, shape, determined = None, [], False
        for i in range(len(nexts) + 1):
            e = el.get(i, {})
            if e.get('present') is False:
                exp, determined = False, True
                shape.append('end')
                break
            if e.get('present') is None or e.get('named') is None:
                break
            if e['named'] is False:
                exp, determined = e.get('le'), e.get('le') is not None
                shape.append('default')
                break
            if e.get('prefix') is None:
                break
            if e['prefix']:
                exp, determined = e.get('le'), e.get('le') is not None
                shape.append('match')
                break
            shape.append('nomatch')
        got = r.result.v if isinstance(r.result, Const) else repr(r.result)
        if not determined:
            # the code decided without examining what the documented decision depends on.  If nothing it examined is
            # related to the filter list, the decision is wrong for some list; otherwise the row is not comparable.
            related = [x for (_, _, x) in foreign if 'module_filters' in T.fields_in(x) or T.eff_indices(x, NEXT)]
            if related:
                skipped += 1
                continue
            problems.append(f"filters {shape + ['...']}: the matcher returns {got} without examining "
                            f"{'the level against the deciding filter' if shape and shape[-1] in ('default', 'match') else 'the (next) filter'}"
                            + (f" (it examines {foreign[0][0][:100]} = {foreign[0][1]})" if foreign else ''))
            continue
        if got != exp:
            problems.append(f"filters {shape}: matcher returns {got}, documented {exp} (first matching filter decides with level <= filter level; none -> false)"
                            + (f" [when {foreign[0][0][:80]} = {foreign[0][1]}]" if foreign else ''))
            continue
        shapes.add(tuple(shape))
    need = {('end',), ('default',), ('match',), ('nomatch', 'end'), ('nomatch', 'match'), ('nomatch', 'default')}
    if problems:
        R.bad('R02.1', f"{b.path}|matcher", f"matcher: {problems[0]}", where=b.loc(), witness=problems[:4])
    elif need - shapes:
        raise CheckError(f"R02.1: the matcher's form is not recognised: filter-list shapes {sorted(need - shapes)} not found among {len(rows)} rows ({skipped} not comparable)")
    else:
        R.ok('R02.1', f"{b.path}|matcher", f"{len(rows)} rows over {len(shapes)} filter-list shapes agree ({I.cut_rows} longer lists cut, {skipped} rows not comparable)",
             sample={'rows': len(rows), 'shapes': sorted(map(str, shapes))})


# ------------------------------------------------------------------------------------------------ R02.2
STABLE_SORTS = r'slice::<impl \[T\]>::(sort|sort_by|sort_by_key|sort_by_cached_key)$'


def sort_fn(ctx):
    """the function that sorts a vector of module filters (whatever it is called: trait method, free function)"""
    f = ctx.f
    c = [b for b in f.fn_bodies() if b.kind != 'Closure' and any(re.search(r'slice::<impl \[T\]>::sort\w*$', callee_name(t)) and
                                                                  'ModuleFilter' in ' '.join(t['callee'].get('targs', []) or []) for _, t in b.calls())]
    if len(c) != 1:
        raise CheckError(f"R02.2: {len(c)} functions sorting a vector of ModuleFilter found (expected the one sort function): {[x.path for x in c]}")
    return c[0]


def _name_len(x, params):
    """x = length of the module name of one of the comparator's parameters (0 for the default entry)?  -> ('len', param) | ('const', n) | None"""
    x = T.strip_refs(x)
    if isinstance(x, tuple) and x[0] == 'const' and isinstance(x[1], int):
        return ('const', x[1])
    if isinstance(x, tuple) and x[0] == 'call' and re.search(r'(String|str>?)::len$', x[1].replace('fn:', '')) and len(x[2]) == 1:
        arg = x[2][0]
        ins = T.inputs_in(arg) & set(params)
        if len(ins) == 1 and 'module_name' in T.fields_in(arg):
            return ('len', next(iter(ins)))
    return None


def sorting(R, ctx):
    f, cg = ctx.f, ctx.cg
    b = sort_fn(ctx)
    sorts = [(bb, callee_name(t), t) for bb, t in b.calls() if re.search(r'::sort\w*$', callee_name(t))]
    stable = len(sorts) == 1 and re.search(STABLE_SORTS, sorts[0][1]) is not None
    R.check('R02.2', 'level_sort|stable', stable, "one stable slice sort",
            f"level_sort uses {[s[1] for s in sorts]} instead of a stable slice sort: filters of equal name length (e.g. the same module twice, or the builder's map order) "
            "lose their relative order", where=b.loc())
    clo = [x for x in f.fn_bodies() if x.kind == 'Closure' and x.path.startswith(b.path + '::') and x.path.count('{closure') == 1]
    okc = False
    why = 'comparator / key closure not found'
    if len(clo) == 1 and len(sorts) == 1:
        by_key = bool(re.search(r'sort_by(_cached)?_key$', sorts[0][1]))
        names = ['env', 'a'] if by_key else ['env', 'a', 'b']
        rows = FDI(f).run(clo[0].path, arg_names=names)
        okc = True
        seen = set()
        for r in rows:
            if r.undecided:
                R.bad('R02.2', 'level_sort|descending-by-length', f"UNDECIDED: {r.undecided}", where=b.loc())
                return
            named = {}
            for a_, v_ in r.cond:
                info = r.atom_info.get(a_, {})
                if info.get('kind') == 'variant' and 'module_name' in T.fields_in(info['of']):
                    ins = T.inputs_in(info['of']) & {'a', 'b'}
                    if len(ins) == 1:
                        named[next(iter(ins))] = (v_ == 'Some')

            def want(p_):
                return ('len', p_) if named.get(p_) else ('const', 0)
            res = r.result
            x = I_x(res)
            if by_key:
                # key must order longer names first: Reverse(len)
                if isinstance(res, Agg) and res.adt.endswith('cmp::Reverse') and res.fields and _name_len(I_x(res.fields[0]), names) == want('a'):
                    seen.add(named.get('a'))
                    continue
                okc, why = False, f"the sort key is not Reverse(length of the name, 0 for the default entry): {res!r}"[:300]
                break
            rev = False
            if isinstance(x, tuple) and x[0] == 'call' and re.search(r'Ordering::reverse$', x[1]) and x[2]:
                rev, x = True, T.strip_refs(x[2][0])
            if not (isinstance(x, tuple) and x[0] == 'call' and re.search(r'(Ord for usize>|<usize as std::cmp::Ord>|Ord)::cmp$', x[1]) and len(x[2]) == 2):
                okc, why = False, f"comparator is not usize::cmp of the two name lengths ({res!r})"[:300]
                break
            l, rr = _name_len(x[2][0], names), _name_len(x[2][1], names)
            first, second = ('a', 'b') if rev else ('b', 'a')
            if not (l == want(first) and rr == want(second)):
                okc, why = False, f"comparator is not cmp(len(b), len(a)) with length 0 for the default entry: {'reverse of ' if rev else ''}cmp({l}, {rr}) for named={named}"
                break
            seen.add((named.get('a'), named.get('b')))
        if okc and len(seen) != (2 if by_key else 4):
            raise CheckError(f"R02.2: comparator form not recognised: cases {sorted(map(str, seen))}")
    elif len(sorts) == 1 and sorts[0][1].endswith('::sort'):
        why = 'plain sort() orders by the derived Ord of ModuleFilter, not by name length'
    R.check('R02.2', 'level_sort|descending-by-length', okc, "longest name first, default entry (length 0) last",
            f"level_sort's order is not `longest name first, default last`: {why}", where=b.loc())
    # every value stored into module_filters
    def src_ok(body, op):
        p = ctx.ip.prov(body.path)
        roots = p.op_roots(op)
        for r_ in roots:
            if r_[0] == 'call' and (r_[1] == b.path or (r_[1] in f.bodies and b.path in cg.reachable([r_[1]], spawn=False) and 'ModuleFilter' in (f.bodies[r_[1]].sig or ''))):
                return True, 'level_sort'
        if any(r_[0] == 'param' for r_ in roots) and body.path.endswith('update_from'):
            return True, 'other specification'
        fps = p.field_paths(op['place']['l']) if op['k'] in ('copy', 'move') else set()
        if any(fp[-1] == 'module_filters' for fp in fps):
            return True, 'other specification'
        names = {r_[1] for r_ in roots if r_[0] in ('call', 'via')}
        if any(re.search(r'Vec::<T>::new$|as std::default::Default>::default$', n_) for n_ in names):
            # an empty vector - unless it is filled afterwards in this body
            news = {r_ for r_ in roots if r_[0] == 'call' and re.search(r'Vec::<T>::new$', r_[1])}
            grown = False
            for bb_, t_ in body.calls():
                if re.search(r'Vec::<T(, A)?>::(push|insert|extend_from_slice|append|extend)$|as std::iter::Extend<.*>>::extend$', callee_name(t_)):
                    if p.op_roots(t_['args'][0]) & news:
                        grown = True
            if not grown:
                return True, 'empty vector'
        if any(re.search(r'slice::<impl \[T\]>::into_vec$|Box::<T>::new$|box_new|box_assume_init_into_vec', n_) for n_ in names) or any(r_[0] == 'agg' and r_[1].endswith('ModuleFilter::ModuleFilter') for r_ in roots):
            # vec![one element]
            arrs = [s for blk in body.blocks for s in blk['stmts'] if s['k'] == 'assign' and s['rv']['k'] == 'agg' and s['rv'].get('ak') == 'array']
            if all(len(s['rv']['ops']) <= 1 for s in arrs) and arrs:
                return True, 'one-element vector'
        return False, sorted(map(str, roots))[:4]
    n = 0
    for (b2, bb, s) in aggregate_sites(f, r'^log_specification::LogSpecification$'):
        i = s['rv']['fields'].index('module_filters')
        ok, how = src_ok(b2, s['rv']['ops'][i])
        n += 1
        R.check('R02.2', f"{b2.path}|module_filters", ok, f"module_filters <= {how}",
                f"{b2.path} builds a LogSpecification whose module_filters are not sorted by level_sort ({how}): a shorter module name listed earlier would win over the longest match",
                where=b2.loc(bb))
    for (b2, bb, s) in field_store_sites(f, 'module_filters'):
        if not b2.impl_self or 'LogSpecification' not in (b2.impl_self or ''):
            continue
        rv = s['rv']
        op = rv.get('op') if rv['k'] == 'use' else None
        ok, how = src_ok(b2, op) if op else (False, 'not a plain move')
        n += 1
        R.check('R02.2', f"{b2.path}|module_filters=", ok, f"module_filters <= {how}", f"{b2.path} stores unsorted module_filters ({how})", where=b2.loc(bb))
    # Default: derived -> empty
    if n < 6:
        raise CheckError(f"only {n} constructor sites of module_filters found")


# ------------------------------------------------------------------------------------------------ R02.3
def gate_order(R, ctx):
    # the routing table of C13 contains the complete gate order; re-run it under this property's rule id
    class Proxy:
        def __init__(self, R):
            self.R = R

        def bad(self, rule, key, text, **kw):
            self.R.bad('R02.3', key, text, **kw)

        def ok(self, rule, key, text, **kw):
            self.R.ok('R02.3', key, text, **kw)
    c13.routing(Proxy(R), ctx)
    # the text the filter sees is the Display rendering of the message
    if ctx.has('textfilter'):
        b = ctx.body(r'^<flexi_logger::FlexiLogger as log::Log>::log$')
        okm = False
        nmatch = 0
        for x in with_closures(ctx.f, b):       # the test may live in log() itself or in a closure of it
            for bb, t in x.calls():
                if callee_name(t) == 'regex::Regex::is_match':
                    nmatch += 1
                    p = ctx.ip.prov(x.path)
                    roots = p.op_roots(t['args'][1])
                    okm = any(r_[0] in ('call', 'via') and r_[1].endswith('ToString>::to_string') for r_ in roots)
                    args_ok = False
                    for r_ in roots:
                        if r_[0] in ('call', 'via') and r_[1].endswith('ToString>::to_string'):
                            tt = x.blocks[r_[2]]['term']
                            rr = {q for (_, q) in ctx.ip.expand(x.path, p.op_roots(tt['args'][0]))}
                            args_ok = any(q[0] == 'call' and q[1].endswith("Record::<'a>::args") for q in rr)
                    okm = okm and args_ok
        if nmatch == 0:
            raise CheckError('R02.3: no Regex::is_match call in FlexiLogger::log (text filter test not found)')
        R.check('R02.3', 'text-filter-input', okm, "is_match(record.args().to_string())",
                "the text filter is not applied to the Display rendering of record.args()", where=b.loc())


# ------------------------------------------------------------------------------------------------ R02.4
def global_gate(R, ctx):
    f, cg = ctx.f, ctx.cg
    GATE = lambda n, t: n == 'log::set_max_level'
    b = ctx.body(r'^logger::Logger::build$')
    sites = [s[0] for s in cg.call_sites_reaching(b, GATE)]
    ok = bool(sites) and must_pass(b, sites, avoid=try_break_blocks(b))
    R.check('R02.4', f"{b.path}|sets-gate", ok, "every non-error path of build sets the global max level",
            "Logger::build has a successful path that does not set log's global max level (records would be dropped by the facade before reaching the logger)", where=b.loc())
    p = ctx.ip.prov(b.path)
    for bb in sites:
        t = b.blocks[bb]['term']
        roots = set()
        for a in t['args']:
            roots |= p.op_roots(a)
        okl = any(r_[0] == 'call' and r_[1].endswith('LogSpecification::max_level') for r_ in roots)
        R.check('R02.4', f"{b.path}|level-from-spec", okl, "level <= spec.max_level()", f"the level set by build does not derive from the specification's max_level() ({sorted(map(str, roots))[:4]})", where=b.loc(bb))
    # the fold over the writers
    fold = None
    store = 'logger_handle::WritersHandle::set_new_spec'
    for x in f.fn_bodies():
        # the function (method or free function) that asks the writers, used where the specification is stored
        if x.kind != 'Closure' and x.path.startswith('logger_handle::') and x.path in cg.reachable([store], spawn=False) and \
                any(callee_name(t).endswith('LogWriter::max_log_level') for (_, _, t) in calls_with_closures(f, x)):
            fold = x
    MLL = r'LogWriter::max_log_level$'
    # parameters by type: the level is the LevelFilter parameter, the other one carries the writers
    an = ['level' if 'LevelFilter' in l['ty'] else 'self' for l in fold.locals[1:fold.arg_count + 1]]
    if an.count('level') != 1:
        raise CheckError(f"R02.4: {fold.path} has {an.count('level')} LevelFilter parameters")
    ok, why, n = max_over_all(ctx, fold, an, [MLL],
                              base=lambda x: T.is_input(x, 'level'),
                              elem=lambda x, k: T.eff_indices(x, MLL) and len(T.eff_indices(x, NEXT)) <= 1,
                              elem_of=lambda x, r: _writer_elem(x, r, MLL), source=lambda x: 'self' in T.inputs_in(x))
    R.check('R02.4', f"{fold.path}|max-over-all-writers", ok, f"max(given level, max_log_level() of every writer) on {n} rows",
            f"the global level is not max(spec level, every writer's max_log_level()): {why}", where=fold.loc())
    # used on build and on change: at every call of log::set_max_level the level derives from the fold over the writers
    ngate = 0
    for x in f.fn_bodies():
        for bb, t in x.calls():
            if callee_name(t) != 'log::set_max_level':
                continue
            ngate += 1
            roots = {r_ for (_, r_) in ctx.ip.expand(x.path, ctx.ip.prov(x.path).op_roots(t['args'][0]))}
            okc = any(r_[0] in ('call', 'via') and r_[1] == fold.path for r_ in roots)
            R.check('R02.4', f"{root_fn(x.path)}|uses-fold", okc, "the level set derives from the fold over the writers",
                    f"{x.path} sets the global level without the writers' levels ({sorted(map(str, roots))[:3]})", where=x.loc(bb))
    if ngate < 1:
        raise CheckError(f"no call site of log::set_max_level found")
    mb = ctx.body(r'^log_specification::LogSpecification::max_level$')
    ok, why, n = max_over_all(ctx, mb, ['self'], [],
                              base=lambda x: x == ('agg', 'log::LevelFilter', 'Off', ()),
                              elem=lambda x, k: 'level_filter' in T.fields_in(x),
                              elem_of=lambda x, r: next(iter(T.eff_indices(x, NEXT)), None), source='module_filters', need_base=True)
    R.check('R02.4', f"{mb.path}", ok, f"max over the level_filter fields, Off for the empty list ({n} rows)",
            f"LogSpecification::max_level is not the maximum of the filters' levels (Off when empty): {why}", where=mb.loc())


def _writer_elem(x, r, MLL):
    """which list element does the max_log_level() result x belong to: the next#k its receiver derives from"""
    ks = T.eff_indices(x, MLL)
    if len(ks) != 1:
        return None
    e = r.effects[next(iter(ks)) - 1]
    nx = set()
    for a in e[2]['x']:
        nx |= T.eff_indices(a, NEXT)
    return next(iter(nx)) if len(nx) == 1 else None


def max_over_all(ctx, body, arg_names, effects, base, elem, elem_of, source, need_base=False, counts=None, accept_atom=None, row_ok=None, no_inline=None, rule='R02.4'):
    """the function's result is the maximum of a base value and one value per element of a collection, whatever the form:
    a loop with std::cmp::max, fold, map().max().unwrap_or(base) (leaves of nested max calls; leaves equal to the base are
    neutral), or a running maximum kept by comparisons (`if v > max { max = v }`: the ordering atoms decided on the row
    must place every candidate below the value returned)."""
    I = FDI(ctx.f, effects=[NEXT] + list(effects), loop_k=2, no_inline=effects if no_inline is None else no_inline, max_steps=20000)
    rows = I.run(body.path, arg_names=arg_names)
    n = 0
    lens = set()
    src_ok = source if callable(source) else (lambda x: source in T.fields_in(x))
    for r in rows:
        if r.undecided:
            raise CheckError(f"{rule} {body.path}: UNDECIDED {r.undecided}")
        if row_ok is not None and not row_ok(r):
            continue
        nexts = [e for e in r.effects if re.search(NEXT, e[0])]
        for e in nexts:
            if not src_ok(e[2]['x'][0]):
                return False, f"iterates {r.long(e[1][0])[:80]} instead of the expected collection", n
        present = []
        rel = []
        for a, v in r.cond:
            info = r.atom_info.get(a, {})
            if info.get('kind') == 'variant':
                xs = T.strip_refs(info['of'])
                if isinstance(xs, tuple) and xs[0] == 'eff' and re.search(NEXT, xs[1]):
                    if v == 'Some':
                        present.append(xs[2])
                    continue
            if info.get('kind') == 'ord':
                rel.append((T.strip_refs(info['a']), T.strip_refs(info['b']), v))
                continue
            if accept_atom is not None and accept_atom(a, v, info, r):
                continue
            return False, f"the result depends on a condition besides the length of the collection: {a[:100]} = {v}", n
        # a maximum needs the whole collection: the iteration must have run to its end (the last next() returned None)
        outcomes = [v for a, v in r.cond if r.atom_info.get(a, {}).get('kind') == 'variant' and isinstance(T.strip_refs(r.atom_info[a]['of']), tuple)
                    and T.strip_refs(r.atom_info[a]['of'])[0] == 'eff' and re.search(NEXT, T.strip_refs(r.atom_info[a]['of'])[1])]
        if outcomes and outcomes[-1] != 'None':
            return False, f"the result ({r.long(repr(r.result))[:80]}) is returned after {len(outcomes)} element(s) without examining the rest of the collection (first match instead of maximum)", n
        if counts is not None:
            present = [k for k in present if counts(k, r)]
        leaves = [T.strip_refs(l) for l in T.max_leaves(I_x(r.result))]
        got_base = [l for l in leaves if base(l)]
        rest = [l for l in leaves if not base(l)]
        covered = set()
        for l in rest:
            k = elem_of(l, r) if elem(l, None) else None
            if k is None:
                return False, f"unexpected operand of the maximum: {str(l)[:120]}", n
            covered.add(k)
        if rel:
            # running maximum: a <= b edges from the decided comparisons, reflexive-transitive closure
            le = set()
            exprs = {repr(l): l for l in leaves}
            for (xa, xb, v) in rel:
                exprs[repr(xa)], exprs[repr(xb)] = xa, xb
                if v in ('lt', 'eq'):
                    le.add((repr(xa), repr(xb)))
                if v in ('gt', 'eq'):
                    le.add((repr(xb), repr(xa)))
            for e_ in exprs:
                le.add((e_, e_))
            for m_ in exprs:
                for x_ in exprs:
                    for y_ in exprs:
                        if (x_, m_) in le and (m_, y_) in le:
                            le.add((x_, y_))
            below = lambda e_: any((e_, repr(l)) in le for l in leaves)
            for e_, x_ in exprs.items():
                if base(x_):
                    if below(e_):
                        got_base.append(x_)
                elif elem(x_, None):
                    k = elem_of(x_, r)
                    if k is not None and below(e_):
                        covered.add(k)
                else:
                    return False, f"the result depends on a comparison with something that is neither the base nor an element's value: {str(x_)[:100]}", n
        if covered != set(present):
            return False, f"with {len(present)} element(s) the result covers {len(covered)} of them (result {r.long(repr(r.result))[:120]})", n
        if (need_base and not present and not got_base) or (not need_base and not got_base):
            return False, f"the base value is not part of the result for {len(present)} element(s)", n
        if re.search(r"\bmin\b", repr(I_x(r.result))):
            return False, "uses min", n
        lens.add(len(present))
        n += 1
    if not {0, 1, 2} <= lens:
        raise CheckError(f"{rule} {body.path}: form not recognised (collection lengths seen: {sorted(lens)})")
    return True, '', n


def I_x(v):
    """structured expression of a row result"""
    if isinstance(v, Const):
        return ('const', v.v)
    if isinstance(v, Sym):
        return v.x
    if isinstance(v, Agg):
        return ('agg', v.adt, v.variant, tuple(I_x(y) for y in v.fields))
    return ('unknown',)


def op_str_all(b):
    from facts import op_str, rv_str
    out = []
    for blk in b.blocks:
        for s in blk['stmts']:
            if s['k'] == 'assign':
                out.append(rv_str(s['rv']))
        t = blk['term']
        if t['k'] == 'call':
            out += [op_str(a) for a in t['args']]
    return out


# ------------------------------------------------------------------------------------------------ R02.5
def enabled_vs_log(R, ctx):
    c13.enabled_ceiling(_Rename(R, 'R13.5', 'R02.5'), ctx)
    f = ctx.f
    b = ctx.body(r'^<flexi_logger::FlexiLogger as log::Log>::enabled$')
    EFF = [r'FlexiLogger::primary_enabled$', r'LogWriter::max_log_level$', r'util::eprint_msg$']
    I = FDI(f, effects=EFF, no_inline=[r'FlexiLogger::primary_enabled$', r'util::eprint_msg$'], loop_k=2, max_steps=8000)
    rows = I.run(b.path)
    brace_text = 0
    for r in rows:
        if r.undecided:
            R.bad('R02.5', f"{b.path}|table", f"UNDECIDED: {r.undecided}", where=b.loc())
            return
        brace = next((v for a, v in r.cond if 'starts_with' in a and "'{'" in a.replace('"', '')), None)
        pe = [e for e in r.effects if e[0].endswith('primary_enabled')]
        if brace and pe and 'module_path' not in pe[0][1][2] and 'target' in pe[0][1][2]:
            brace_text += 1
    if brace_text:
        R.bad('R02.5', f"{b.path}|brace-target-matched-as-module",
              "for a brace target enabled() asks the specification with the target text (\"{W,_Default}\") while log() asks with the record's module path: "
              "a module enabled above the default level yields enabled() == false although the record is written (log::Metadata carries no module path)",
              where=b.loc(), witness=f"{brace_text} rows")
    else:
        R.ok('R02.5', f"{b.path}|brace-target-matched-as-module", "enabled() does not match the brace text against module names")


class _Rename:
    def __init__(self, R, frm, to):
        self.R, self.frm, self.to = R, frm, to

    def check(self, rule, *a, **kw):
        return self.R.check(self.to if rule == self.frm else rule, *a, **kw)

    def bad(self, rule, *a, **kw):
        return self.R.bad(self.to if rule == self.frm else rule, *a, **kw)

    def ok(self, rule, *a, **kw):
        return self.R.ok(self.to if rule == self.frm else rule, *a, **kw)


# ------------------------------------------------------------------------------------------------ R02.6
def fields(R, ctx):
    f = ctx.f
    b = ctx.body(r'^log_specification::LogSpecification::update_from$')
    adt = f.adts['log_specification::LogSpecification']
    names = [fd['name'] for fd in adt['variants'][0]['fields']]
    p = ctx.ip.prov(b.path)
    for fd in names:
        ok = False
        for bb in sorted(b.normal_blocks()):
            for s in b.blocks[bb]['stmts']:
                if s['k'] == 'assign' and s['place']['l'] == 1 and place_fields(s['place']) == [fd] and s['rv']['k'] == 'use' and s['rv']['op']['k'] in ('move', 'copy'):
                    src = s['rv']['op']['place']
                    same = (src['l'] == 2 and place_fields(src) == [fd]) or ('param2', fd) in p.field_paths(src['l'])
                    if same and must_pass(b, [bb]):
                        ok = True
                if s['k'] == 'assign' and s['place']['l'] == 1 and not place_fields(s['place']) and s['place']['p'] and s['rv']['k'] == 'use' and \
                        s['rv']['op']['k'] in ('move', 'copy') and s['rv']['op']['place']['l'] == 2 and not s['rv']['op']['place']['p']:
                    ok = True
        R.check('R02.6', f"update_from|{fd}", ok, f"self.{fd} = other.{fd} on every path",
                f"update_from does not unconditionally replace `{fd}`: after a change the old {fd} keeps filtering", where=b.loc())
