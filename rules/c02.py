"""C02 — a record is written iff the active specification (and text filter) enables it."""
from rulelib import *
from report import CheckError
from fdi import FDI, Const, Agg, Sym, Ref
import table as T
import c13, c05

EXPLANATION = ("R02.1 the matcher LogSpecification::enabled is a first-match decision list over the module filters in vector order (k<=2 abstract "
               "elements): entry without name or with target.starts_with(name) decides `level <= its level_filter`, no match -> false, operand "
               "origins checked; R02.2 longest name first: level_sort is the stable slice::sort_by with comparator cmp(len(b), len(a)) (default "
               "entry = length 0), and every value stored into `module_filters` comes from level_sort, another specification, or a vector of "
               "at most one element; R02.3 gate order of FlexiLogger::log (shared with R13.1): default channel iff (not brace or _Default) and "
               "enabled(level, effective target) and (no text filter or it matches the Display of the message), then line filter or primary "
               "writer; R02.4 global max level = max(spec.max_level(), every additional writer's max_log_level()) on build and on every change; "
               "R02.5 enabled() never under-approximates log(); R02.6 update_from copies every field (a stale text filter would keep filtering).")
ASSUMPTIONS = ["str::starts_with / regex semantics (std, regex)", "log::Level/LevelFilter documented order", "specifications name each module at most once (quantifier)"]
NOT_DECIDED = ["regex semantics", "string semantics of starts_with", "specifications naming a module twice"]
FLOORS = {'R02.1': 1, 'R02.2': 6, 'R02.3': 1, 'R02.4': 3, 'R02.5': 1, 'R02.6': 1}


def run(R, ctx):
    R.rule('R02.1', 'TABLE(matcher as first-match decision list), k-unrolled')
    R.rule('R02.2', 'stable descending sort by name length on every constructor of module_filters')
    R.rule('R02.3', 'TABLE(gate order in log())')
    R.rule('R02.4', 'global max level is the max over specification and all writers; set on build and on change')
    R.rule('R02.5', 'enabled() >= log()')
    R.rule('R02.6', 'FIELD-COMPLETENESS(update_from)')
    matcher(R, ctx)
    sorting(R, ctx)
    gate_order(R, ctx)
    global_gate(R, ctx)
    enabled_vs_log(R, ctx)
    fields(R, ctx)


# ------------------------------------------------------------------------------------------------ R02.1
def matcher(R, ctx):
    f = ctx.f
    b = ctx.body(r'^log_specification::LogSpecification::enabled$')
    NEXT = r"slice::Iter<.*> as std::iter::Iterator>::next$"
    I = FDI(f, effects=[NEXT], loop_k=ctx.k(2, 4))
    rows = I.run(b.path)
    problems = []
    shapes = set()
    for r in rows:
        if r.undecided:
            R.bad('R02.1', f"{b.path}|matcher", f"UNDECIDED: {r.undecided}", where=b.loc())
            return
        d = list(r.cond)
        exp = None
        shape = []
        ok = True
        k = 0
        while d:
            a, v = d.pop(0)
            info = r.atom_info.get(a, {})
            if not (a.startswith('variant(') and re.search(NEXT.replace('$', ''), a) and a.endswith(f"next#{k + 1})")):
                problems.append(f"unexpected condition {a[:120]} = {v} (documented: iterate the filters in order)")
                ok = False
                break
            k += 1
            # iteration source must be self.module_filters, forward
            if 'module_filters' not in repr(info.get('of')) or re.search(r'::rev|next_back|Rev<', repr(info.get('of'))):
                problems.append("the matcher does not iterate self.module_filters forward")
                ok = False
                break
            if v == 'None':
                exp = False
                shape.append('end')
                break
            el = f"*{a[len('variant('):-1]}.0"
            if not d:
                ok = False
                break
            a2, v2 = d.pop(0)
            if a2 != f"variant({el}.module_name)":
                problems.append(f"element {k}: the module name option is not examined first ({a2[:100]})")
                ok = False
                break
            decides = False
            if v2 == 'None':
                decides = True
                shape.append('default')
            else:
                if not d:
                    ok = False
                    break
                a3, v3 = d.pop(0)
                x = r.atom_info.get(a3, {}).get('x')
                good = isinstance(x, tuple) and x[0] == 'call' and x[1] == 'core::str::<impl str>::starts_with' and \
                    T.strip_refs(x[2][0]) == ('in', 'writing_module') and \
                    "'module_name'" in repr(x[2][1]) and f"next\", {k}" in repr(x[2][1]).replace("next', ", 'next", ')
                if not good:
                    problems.append(f"element {k}: the prefix test is not `writing_module.starts_with(<that filter's name>)` but {a3[:150]}")
                    ok = False
                    break
                decides = bool(v3)
                shape.append('match' if decides else 'nomatch')
            if decides:
                if not d:
                    ok = False
                    break
                a4, v4 = d.pop(0)
                info4 = r.atom_info.get(a4, {})
                lvl_ok = info4.get('kind') == 'ord' and {repr(T.strip_refs(info4['a'])), repr(T.strip_refs(info4['b']))} >= {repr(('in', 'level'))}
                other = info4.get('b') if T.strip_refs(info4.get('a')) == ('in', 'level') else info4.get('a')
                flt_ok = other is not None and "'level_filter'" in repr(other) and f"next\", {k}" in repr(other).replace("next', ", 'next", ')
                if not (lvl_ok and flt_ok):
                    problems.append(f"element {k}: the deciding comparison is not between the level and that filter's level_filter: {a4[:150]}")
                    ok = False
                    break
                rel = v4 if T.strip_refs(info4['a']) == ('in', 'level') else T.flip(v4)
                exp = T.rel_to_bool(rel, 'le')
                if d:
                    problems.append(f"conditions examined after the deciding filter: {d[0][0][:100]}")
                    ok = False
                break
        if not ok:
            continue
        got = r.result.v if isinstance(r.result, Const) else repr(r.result)
        if exp is None or got != exp:
            problems.append(f"filters {shape}: matcher returns {got}, documented {exp} (first matching filter decides with level <= filter level; none -> false)")
            continue
        shapes.add(tuple(shape))
    need = {('end',), ('default',), ('match',), ('nomatch', 'end'), ('nomatch', 'match'), ('nomatch', 'default')}
    if not problems and need - shapes:
        problems.append(f"filter-list shapes missing from the table: {sorted(need - shapes)}")
    if problems:
        R.bad('R02.1', f"{b.path}|matcher", f"matcher: {problems[0]}", where=b.loc(), witness=problems[:4])
    else:
        R.ok('R02.1', f"{b.path}|matcher", f"{len(rows)} rows over {len(shapes)} filter-list shapes agree ({I.cut_rows} longer lists cut)",
             sample={'rows': len(rows), 'shapes': sorted(map(str, shapes))})


# ------------------------------------------------------------------------------------------------ R02.2
def sorting(R, ctx):
    f, cg = ctx.f, ctx.cg
    b = ctx.body(r'as log_specification::LevelSort>::level_sort$')
    sorts = [(bb, callee_name(t)) for bb, t in b.calls() if re.search(r'::sort\w*$', callee_name(t))]
    stable = len(sorts) == 1 and re.search(r'slice::<impl \[T\]>::sort_by$', sorts[0][1]) is not None
    R.check('R02.2', 'level_sort|stable', stable, "the stable slice::sort_by",
            f"level_sort uses {[s[1] for s in sorts]} instead of the stable slice::sort_by: filters of equal name length (e.g. the same module twice, or the builder's map order) "
            "lose their relative order", where=b.loc())
    clo = [x for x in f.fn_bodies() if x.kind == 'Closure' and x.path.startswith(b.path + '::')]
    okc = False
    why = 'comparator closure not found'
    if len(clo) == 1:
        rows = FDI(f).run(clo[0].path)
        okc = True
        for r in rows:
            x = getattr(r.result, 'x', None)
            if r.undecided or not (isinstance(x, tuple) and x[0] == 'call' and re.search(r'Ord for usize>::cmp$|<usize as std::cmp::Ord>::cmp$', x[1])):
                okc, why = False, f"comparator is not usize::cmp of the two name lengths ({r.result!r})"
                break
            l, rr = repr(x[2][0]), repr(x[2][1])
            an, bn = r.get('variant(a.module_name)'), r.get('variant(b.module_name)')
            lok = ("'b.module_name'" in l and 'String::len' in l) if bn == 'Some' else l == repr(('ref', ('const', 0)))
            rok = ("'a.module_name'" in rr and 'String::len' in rr) if an == 'Some' else rr == repr(('ref', ('const', 0)))
            if not (lok and rok):
                okc, why = False, f"comparator is not cmp(len(b), len(a)) with length 0 for the default entry: cmp({l[:80]}, {rr[:80]})"
                break
        if okc and len(rows) != 4:
            okc, why = False, f"{len(rows)} comparator rows instead of 4"
    R.check('R02.2', 'level_sort|descending-by-length', okc, "comparator = cmp(len(b.name or 0), len(a.name or 0))",
            f"level_sort's order is not `longest name first, default last`: {why}", where=b.loc())
    # every value stored into module_filters
    def src_ok(body, op):
        p = ctx.ip.prov(body.path)
        roots = p.op_roots(op)
        for r_ in roots:
            if r_[0] == 'call' and (r_[1].endswith('level_sort') or r_[1].endswith('into_vec_module_filter')):
                return True, 'level_sort'
        if any(r_[0] == 'param' for r_ in roots) and body.path.endswith('update_from'):
            return True, 'other specification'
        fps = p.field_paths(op['place']['l']) if op['k'] in ('copy', 'move') else set()
        if any(fp[-1] == 'module_filters' for fp in fps):
            return True, 'other specification'
        names = {r_[1] for r_ in roots if r_[0] in ('call', 'via')}
        if any(re.search(r'Vec::<T>::new$|as std::default::Default>::default$', n_) for n_ in names):
            # an empty vector - unless it is filled afterwards in this body
            news = {r_ for r_ in roots if r_[0] == 'call' and re.search(r'Vec::<T>::new$', r_[1])}
            grown = False
            for bb_, t_ in body.calls():
                if re.search(r'Vec::<T(, A)?>::(push|insert|extend_from_slice|append|extend)$|as std::iter::Extend<.*>>::extend$', callee_name(t_)):
                    if p.op_roots(t_['args'][0]) & news:
                        grown = True
            if not grown:
                return True, 'empty vector'
        if any(re.search(r'slice::<impl \[T\]>::into_vec$|Box::<T>::new$|box_new|box_assume_init_into_vec', n_) for n_ in names) or any(r_[0] == 'agg' and r_[1].endswith('ModuleFilter::ModuleFilter') for r_ in roots):
            # vec![one element]
            arrs = [s for blk in body.blocks for s in blk['stmts'] if s['k'] == 'assign' and s['rv']['k'] == 'agg' and s['rv'].get('ak') == 'array']
            if all(len(s['rv']['ops']) <= 1 for s in arrs) and arrs:
                return True, 'one-element vector'
        return False, sorted(map(str, roots))[:4]
    n = 0
    for (b2, bb, s) in aggregate_sites(f, r'^log_specification::LogSpecification$'):
        i = s['rv']['fields'].index('module_filters')
        ok, how = src_ok(b2, s['rv']['ops'][i])
        n += 1
        R.check('R02.2', f"{b2.path}|module_filters", ok, f"module_filters <= {how}",
                f"{b2.path} builds a LogSpecification whose module_filters are not sorted by level_sort ({how}): a shorter module name listed earlier would win over the longest match",
                where=b2.loc(bb))
    for (b2, bb, s) in field_store_sites(f, 'module_filters'):
        if not b2.impl_self or 'LogSpecification' not in (b2.impl_self or ''):
            continue
        rv = s['rv']
        op = rv.get('op') if rv['k'] == 'use' else None
        ok, how = src_ok(b2, op) if op else (False, 'not a plain move')
        n += 1
        R.check('R02.2', f"{b2.path}|module_filters=", ok, f"module_filters <= {how}", f"{b2.path} stores unsorted module_filters ({how})", where=b2.loc(bb))
    # Default: derived -> empty
    if n < 6:
        raise CheckError(f"only {n} constructor sites of module_filters found")


# ------------------------------------------------------------------------------------------------ R02.3
def gate_order(R, ctx):
    # the routing table of C13 contains the complete gate order; re-run it under this property's rule id
    class Proxy:
        def __init__(self, R):
            self.R = R

        def bad(self, rule, key, text, **kw):
            self.R.bad('R02.3', key, text, **kw)

        def ok(self, rule, key, text, **kw):
            self.R.ok('R02.3', key, text, **kw)
    c13.routing(Proxy(R), ctx)
    # the text the filter sees is the Display rendering of the message
    if ctx.has('textfilter'):
        b = ctx.body(r'^<flexi_logger::FlexiLogger as log::Log>::log$')
        clos = [x for x in ctx.f.fn_bodies() if x.kind == 'Closure' and x.path.startswith(b.path + '::')]
        okm = False
        for x in clos:
            for bb, t in x.calls():
                if callee_name(t) == 'regex::Regex::is_match':
                    p = ctx.ip.prov(x.path)
                    roots = p.op_roots(t['args'][1])
                    okm = any(r_[0] in ('call', 'via') and r_[1].endswith('ToString>::to_string') for r_ in roots)
                    args_ok = False
                    for r_ in roots:
                        if r_[0] in ('call', 'via') and r_[1].endswith('ToString>::to_string'):
                            tt = x.blocks[r_[2]]['term']
                            rr = p.op_roots(tt['args'][0])
                            args_ok = any(q[0] == 'call' and q[1].endswith("Record::<'a>::args") for q in rr)
                    okm = okm and args_ok
        R.check('R02.3', 'text-filter-input', okm, "is_match(record.args().to_string())",
                "the text filter is not applied to the Display rendering of record.args()", where=b.loc())


# ------------------------------------------------------------------------------------------------ R02.4
def global_gate(R, ctx):
    f, cg = ctx.f, ctx.cg
    GATE = lambda n, t: n == 'log::set_max_level'
    b = ctx.body(r'^logger::Logger::build$')
    sites = [s[0] for s in cg.call_sites_reaching(b, GATE)]
    ok = bool(sites) and must_pass(b, sites, avoid=try_break_blocks(b))
    R.check('R02.4', f"{b.path}|sets-gate", ok, "every non-error path of build sets the global max level",
            "Logger::build has a successful path that does not set log's global max level (records would be dropped by the facade before reaching the logger)", where=b.loc())
    p = ctx.ip.prov(b.path)
    for bb in sites:
        t = b.blocks[bb]['term']
        roots = set()
        for a in t['args']:
            roots |= p.op_roots(a)
        okl = any(r_[0] == 'call' and r_[1].endswith('LogSpecification::max_level') for r_ in roots)
        R.check('R02.4', f"{b.path}|level-from-spec", okl, "level <= spec.max_level()", f"the level set by build does not derive from the specification's max_level() ({sorted(map(str, roots))[:4]})", where=b.loc(bb))
    # the fold over the writers
    fold = None
    for x in f.fn_bodies():
        if x.path.startswith('logger_handle::WritersHandle::') and any(callee_name(t).endswith('LogWriter::max_log_level') for bb, t in x.calls()):
            fold = x
    if fold is None:
        R.bad('R02.4', 'writers-fold', "no function of WritersHandle folds the writers' max_log_level() into the global level: a writer accepting more than the specification would never see its records", where=None)
        return
    maxs = [(bb, callee_name(t)) for bb, t in fold.calls() if re.search(r'^std::cmp::(max|min)$|::(max|min)$', callee_name(t)) and 'max_log_level' not in callee_name(t)]
    is_max = len(maxs) == 1 and maxs[0][1] == 'std::cmp::max'
    # loop over values() without early exit: the only way out of the loop is the None edge of next
    nexts = [bb for bb, t in fold.calls() if re.search(r'as std::iter::Iterator>::next$', callee_name(t))]
    vals = [bb for bb, t in fold.calls() if re.search(r'HashMap::<K, V, S(, A)?>::values$', callee_name(t))]
    loop_ok = len(nexts) == 1 and len(vals) == 1
    if loop_ok:
        nb = fold.blocks[nexts[0]]['term']['target']
        tt = fold.blocks[nb]['term']
        loop_ok = tt['k'] == 'switch'
        if loop_ok:
            some = C.switch_edge_blocks(fold, nb, 1)
            body_blocks = C.reachable_from(fold, some, avoid=[nexts[0]])
            exits = [x for x in body_blocks if fold.blocks[x]['term']['k'] == 'return']
            loop_ok = not exits and nexts[0] in C.reachable_after(fold, some)
            mx_in = all(bb in body_blocks for bb, n_ in maxs)
            loop_ok = loop_ok and mx_in
    pf = ctx.ip.prov(fold.path)
    acc_ok = False
    if is_max:
        t = fold.blocks[maxs[0][0]]['term']
        r0 = pf.op_roots(t['args'][0]) | pf.op_roots(t['args'][1])
        acc_ok = any(r_[0] == 'param' and r_[1] == 2 for r_ in r0) and any(r_[0] == 'call' and r_[1].endswith('max_log_level') for r_ in r0)
    R.check('R02.4', f"{fold.path}|max-over-all-writers", is_max and loop_ok and acc_ok,
            "fold with std::cmp::max over every element of other_writers.values()",
            f"the global level is not max(spec level, every writer's max_log_level()): combinator {[m[1] for m in maxs]}, loop over all writers without early exit: {loop_ok}, "
            f"accumulates the given level: {acc_ok}", where=fold.loc())
    # used on build and on change
    for user in ('logger_handle::WritersHandle::reconfigure', 'logger_handle::WritersHandle::set_new_spec'):
        ub = f.bodies.get(user)
        okc = ub is not None and fold.path in cg.reachable([user], spawn=False)
        R.check('R02.4', f"{user}|uses-fold", okc, "uses the fold over the writers", f"{user} sets the global level without the writers' levels", where=ub.loc() if ub else None)
    mb = ctx.body(r'^log_specification::LogSpecification::max_level$')
    names = [callee_name(t) for bb, t in mb.calls()]
    okm = any(re.search(r'Iterator>?::max$', n_) for n_ in names) and not any(re.search(r'Iterator>?::min$', n_) for n_ in names)
    off = any('Off' in s_ for s_ in op_str_all(mb))
    clo = [x for x in f.fn_bodies() if x.kind == 'Closure' and x.path.startswith(mb.path + '::')]
    fld = any('level_filter' in place_fields(s['rv']['op']['place']) for x in clo for blk in x.blocks for s in blk['stmts']
              if s['k'] == 'assign' and s['rv']['k'] == 'use' and s['rv']['op']['k'] in ('copy', 'move'))
    R.check('R02.4', f"{mb.path}", okm and off and fld, "max over the level_filter fields, Off for the empty list",
            "LogSpecification::max_level is not the maximum of the filters' levels (Off when empty)", where=mb.loc())


def op_str_all(b):
    from facts import op_str, rv_str
    out = []
    for blk in b.blocks:
        for s in blk['stmts']:
            if s['k'] == 'assign':
                out.append(rv_str(s['rv']))
        t = blk['term']
        if t['k'] == 'call':
            out += [op_str(a) for a in t['args']]
    return out


# ------------------------------------------------------------------------------------------------ R02.5
def enabled_vs_log(R, ctx):
    c13.enabled_ceiling(_Rename(R, 'R13.5', 'R02.5'), ctx)
    f = ctx.f
    b = ctx.body(r'^<flexi_logger::FlexiLogger as log::Log>::enabled$')
    EFF = [r'FlexiLogger::primary_enabled$', r'LogWriter::max_log_level$', r'util::eprint_msg$']
    I = FDI(f, effects=EFF, no_inline=[r'FlexiLogger::primary_enabled$', r'util::eprint_msg$'], loop_k=2, max_steps=8000)
    rows = I.run(b.path)
    brace_text = 0
    for r in rows:
        if r.undecided:
            R.bad('R02.5', f"{b.path}|table", f"UNDECIDED: {r.undecided}", where=b.loc())
            return
        brace = next((v for a, v in r.cond if 'starts_with' in a and "'{'" in a.replace('"', '')), None)
        pe = [e for e in r.effects if e[0].endswith('primary_enabled')]
        if brace and pe and 'module_path' not in pe[0][1][2] and 'target' in pe[0][1][2]:
            brace_text += 1
    if brace_text:
        R.bad('R02.5', f"{b.path}|brace-target-matched-as-module",
              "for a brace target enabled() asks the specification with the target text (\"{W,_Default}\") while log() asks with the record's module path: "
              "a module enabled above the default level yields enabled() == false although the record is written (log::Metadata carries no module path)",
              where=b.loc(), witness=f"{brace_text} rows")
    else:
        R.ok('R02.5', f"{b.path}|brace-target-matched-as-module", "enabled() does not match the brace text against module names")


class _Rename:
    def __init__(self, R, frm, to):
        self.R, self.frm, self.to = R, frm, to

    def check(self, rule, *a, **kw):
        return self.R.check(self.to if rule == self.frm else rule, *a, **kw)

    def bad(self, rule, *a, **kw):
        return self.R.bad(self.to if rule == self.frm else rule, *a, **kw)

    def ok(self, rule, *a, **kw):
        return self.R.ok(self.to if rule == self.frm else rule, *a, **kw)


# ------------------------------------------------------------------------------------------------ R02.6
def fields(R, ctx):
    f = ctx.f
    b = ctx.body(r'^log_specification::LogSpecification::update_from$')
    adt = f.adts['log_specification::LogSpecification']
    names = [fd['name'] for fd in adt['variants'][0]['fields']]
    p = ctx.ip.prov(b.path)
    for fd in names:
        ok = False
        for bb in sorted(b.normal_blocks()):
            for s in b.blocks[bb]['stmts']:
                if s['k'] == 'assign' and s['place']['l'] == 1 and place_fields(s['place']) == [fd] and s['rv']['k'] == 'use' and s['rv']['op']['k'] in ('move', 'copy'):
                    src = s['rv']['op']['place']
                    same = (src['l'] == 2 and place_fields(src) == [fd]) or ('param2', fd) in p.field_paths(src['l'])
                    if same and must_pass(b, [bb]):
                        ok = True
                if s['k'] == 'assign' and s['place']['l'] == 1 and not place_fields(s['place']) and s['place']['p'] and s['rv']['k'] == 'use' and \
                        s['rv']['op']['k'] in ('move', 'copy') and s['rv']['op']['place']['l'] == 2 and not s['rv']['op']['place']['p']:
                    ok = True
        R.check('R02.6', f"update_from|{fd}", ok, f"self.{fd} = other.{fd} on every path",
                f"update_from does not unconditionally replace `{fd}`: after a change the old {fd} keeps filtering", where=b.loc())
