"""C14 — files outside the logger's naming pattern are never touched and never disturb it."""
from rulelib import *
from report import CheckError
import table as T
from fdi import FDI, Const, Agg, Sym, Ref
from callgraph import effect_class

EXPLANATION = ("R14.1 every destructive file-system effect (remove_file, rename, File::create, write-opens, symlink) takes a path whose provenance is "
               "FileSpec::as_pathbuf, an element of a *filtered* listing, the path stored in the active state, the configured symlink, the error-channel "
               "file or the specfile parameter (never an element of the unfiltered directory listing, never a literal); R14.2 the family predicate has "
               "all documented conjuncts, each decided on whole-function tables of the listing and of filter_files (per listed element: kept iff every conjunct holds; closures, named helpers or a loop give the same rows): regular file; file name starts with the fixed part; suffix = "
               "extension compared for equality with the requested suffix; the stem continues after the fixed part with the `_` separator; the "
               "non-empty text up to the first `.` is handed to the infix predicate; the infix predicates evaluated on sample infixes; R14.3 "
               "destructive effects are confined to the file-log-writer state modules (plus the two listed append/create_new exceptions). R14.2 also: writer/reader agreement on the suffix (F27), the timestamp predicate parses the WHOLE infix (no remainder), no dot-cut before the fixed part is stripped."
               " R14.4 (shared with R06.4): the name-collision test examines exactly the own candidates (plain, .gz, family restart siblings), not a coarser listing a near miss can enter."
               " R14.5 (shared with R07.4/R07.5): every cleanup path - start-up, synchronous, background thread - filters with the naming state's own infix filter and direct flag, so no path takes files of another pattern for its own."
               " R14.5 also: the start-up listing of latest_timestamp_file is asked for the configured suffix. R14.2 also: the file-name timestamp reader maps ambiguous local times with a total choice (earliest/latest), so every name the writer produces is recognised."
               " R14.6 (shared with R06.2): the start index of number naming is derived from the filtered listing of the family (plain and .gz files, number filter), so near-miss names of foreign files cannot move the numbering.")
ASSUMPTIONS = ["Path::extension / file_stem / str::strip_prefix semantics (std)", "numbering/timestamp derivation from the filtered listing is C06's subject"]
NOT_DECIDED = ["that foreign files change nothing about numbering and timestamps for every name set (value dependent)", "metadata preservation"]
FLOORS = {'R14.1': 10, 'R14.2': 6, 'R14.3': 8}

DESTRUCTIVE = {'FS_REMOVE': [0], 'FS_RENAME': [0, 1], 'FS_CREATE': [0], 'FS_OPEN': [1], 'FS_SYMLINK': [1]}
ALLOWED_SOURCES = re.compile(r'FileSpec::as_pathbuf$|list_and_cleanup::list_of_log_and_compressed_files$|FileSpec::filter_files$|FileSpec::list_of_files$|'
                             r'timestamps::path_for_rotated_file_from_timestamp$|list_and_cleanup::existing_log_files$')
FORBIDDEN_SOURCES = re.compile(r'read_dir_related_files$|^std::fs::read_dir$|DirEntry::path$')
# the state module and every (also new) sub-module file below it
OWNERS = re.compile(r'^src/writers/file_log_writer/state(\.rs$|/)')
OWNER_EXCEPTIONS = {('src/util.rs', 'FS_OPEN'): 'error-channel file, create+append only', ('src/logger.rs', 'FS_OPEN'): 'specfile, create_new only',
                    ('src/logger.rs', 'FS_MKDIR'): 'parent folder of the specfile'}


def run(R, ctx):
    R.rule('R14.1', 'PROVENANCE(destructive FS effect <= as_pathbuf | filtered listing | stored path | configured link/file)')
    R.rule('R14.2', 'CONJUNCT-LIST(family predicate), tables of the filter closures')
    R.rule('R14.3', 'WHO-MAY-CALL(destructive FS effects) = file-log-writer state modules')
    provenance(R, ctx)
    predicate(R, ctx)
    ownership(R, ctx)
    # foreign files never disturb the naming: a name collision is decided by the existence of exactly the logger's own candidates (plain, .gz,
    # .restart siblings of the family) - not by a coarser listing a near miss can enter (shared with R06.4)
    R.rule('R14.4', 'collision test examines exactly the own candidates: plain, .gz and family restart siblings (shared with R06.4)')
    import c06 as _c06
    _c06.collision_table(Relabel(R, {'R06.4': 'R14.4'}), ctx)
    # every cleanup path (start-up, synchronous, background thread) must select its candidates with the naming state's OWN infix filter (for a custom
    # timestamp format: that format) and the naming's own direct flag: a path that derives a coarser / different filter itself takes foreign files
    # for its own and deletes or compresses them (shared with R07.4 / R07.5)
    R.rule('R14.5', 'every cleanup path filters with the naming state\'s own infix filter and direct flag (shared with R07.4/R07.5)')
    import c07 as _c07
    RR = Relabel(R, {'R07.4': 'R14.5', 'R07.5': 'R14.5'})
    _c07.cleanup_flag_provenance(RR, ctx)
    # the start-up listing that decides which file a restart continues is asked for the configured suffix, and the timestamp reader accepts every
    # infix the writer produces (shared with R06.7)
    _c06.listing_predicates(R, ctx, rule='R14.5', filter_clause=False)
    _c06.timestamp_parse_total(R, ctx, rule='R14.2')
    # foreign files never disturb the numbering: the start index is derived from the FILTERED listing of the family (plain + .gz, number filter) only,
    # never from the raw directory scan with a parse of its own (start index rules shared with R06.2)
    R.rule('R14.6', 'the start index is derived from the filtered family listing only (shared with R06.2)')
    _c06.start_index(Relabel(R, {'R06.2': 'R14.6'}), ctx)
    _c07.cleanup_filter_provenance(RR, ctx)


def origin(ctx, body, op, depth=0, seen=None):
    """(ok, reasons) for a path operand"""
    if seen is None:
        seen = set()
    p = ctx.ip.prov(body.path)
    roots = p.op_roots(op)
    bad = []
    good = []
    for r_ in roots:
        if r_[0] == 'call':
            if ALLOWED_SOURCES.search(r_[1]):
                good.append(r_[1].split('::')[-1])
            elif FORBIDDEN_SOURCES.search(r_[1]):
                bad.append(f"unfiltered listing ({r_[1].split('::')[-1]})")
            elif r_[1] in ctx.f.bodies:
                # a crate function: its return value must itself be well-derived
                cb = ctx.f.bodies[r_[1]]
                key = ('ret', cb.path)
                if key in seen or depth > 4:
                    continue
                seen.add(key)
                ok2, why2 = origin_local(ctx, cb, 0, depth + 1, seen)
                seen.discard(key)       # `seen` guards against cycles only: a second operand with the same origin is resolved again
                (good if ok2 else bad).append(f"{r_[1].split('::')[-1]}() -> {why2}")
            elif r_[1] == 'std::sync::RwLock::<T>::read' and body.file == 'src/util.rs':
                good.append('configured error-channel file')
            elif re.search(r'^std::path::PathBuf::(new)$|^std::env::|^std::fs::canonicalize', r_[1]):
                bad.append(f"path from {r_[1]}")
        elif r_[0] == 'const' and isinstance(r_[1], str) and r_[1].startswith('"'):
            # literal used as (part of) a path: only extensions are expected
            if not re.search(r'gz|ShortLivingTempFileForReOpen', r_[1]):
                bad.append(f"literal {r_[1]}")
        elif r_[0] == 'param':
            i = r_[1]
            fps = {fp for fp in p.field_paths(op['place']['l']) if fp[0] == f'param{i}'} if op['k'] in ('copy', 'move') else set()
            field_ok = None
            for fp in fps:
                tail = fp[1:]
                if tail[:1] == ('inner',) or 'o_create_symlink' in tail or tail[:2] == ('config', 'o_create_symlink'):
                    field_ok = 'stored path / configured symlink'
                if tail and tail[0] == 'config' and 'file_spec' in tail:
                    field_ok = None
            if field_ok:
                good.append(field_ok)
                continue
            callers = [(a, bb, k) for (a, bb, k) in ctx.cg.callers.get(body.path, []) if bb is not None and k in ('direct', 'dyn', 'closure-arg')]
            if body.kind == 'Closure' or not callers or depth > 3:
                if body.is_pub or body.reachable:
                    good.append(f"parameter _{i} of public {body.path.split('::')[-1]} (user-chosen file)")
                elif body.kind == 'Closure' and i == 2:
                    # element handed to a filter/map closure: the iterated collection
                    good.append('closure element')
                else:
                    good.append(f"parameter _{i}")
                continue
            for (a, bb, k) in callers:
                ab = ctx.f.bodies[a]
                t = ab.blocks[bb]['term']
                if k != 'direct' or len(t['args']) < i:
                    continue
                key = (a, bb, i)
                if key in seen:
                    continue
                seen.add(key)
                ok2, why2 = origin(ctx, ab, t['args'][i - 1], depth + 1, seen)
                seen.discard(key)
                (good if ok2 else bad).append(f"via {a.split('::')[-1]}: {why2}")
    if bad:
        return False, '; '.join(bad)
    if not good:
        return False, f"no recognised origin (roots {sorted(map(str, roots))[:4]})"
    return True, ', '.join(sorted(set(good)))[:160]


def origin_local(ctx, body, local, depth, seen):
    return origin(ctx, body, {'k': 'copy', 'place': {'l': local, 'p': []}}, depth, seen)


def provenance(R, ctx):
    f, cg = ctx.f, ctx.cg
    n = 0
    for b in f.fn_bodies():
        if b.doc_hidden or 'validate_logs' in b.path:
            continue
        for bb, t in b.calls():
            name = callee_name(t)
            ec = effect_class(name)
            if ec not in DESTRUCTIVE:
                continue
            if ec == 'FS_OPEN':
                # only write-capable opens: the OpenOptions chain contains write/append/create/truncate
                p = ctx.ip.prov(b.path)
                roots = p.op_roots(t['args'][0])
                if not any(r_[0] in ('via', 'call') and re.search(r'OpenOptions::(write|append|create|create_new|truncate)$', r_[1]) for r_ in roots):
                    continue
            for ai in DESTRUCTIVE[ec]:
                if ai >= len(t['args']):
                    continue
                ok, why = origin(ctx, b, t['args'][ai])
                n += 1
                R.check('R14.1', f"{b.path}|{name.split('::')[-1]}|arg{ai}", ok, f"path <= {why}",
                        f"{b.path}: the path handed to {name} does not derive from the logger's own naming ({why}): a file outside the family can be "
                        f"{'removed' if ec == 'FS_REMOVE' else 'renamed/overwritten' if ec == 'FS_RENAME' else 'created/truncated'}", where=b.loc(bb), sample={'fn': b.path, 'effect': name, 'origin': why})
    if n < 8:
        raise CheckError(f"only {n} destructive effect arguments found")


# ------------------------------------------------------------------------------------------------ R14.2
def closure_of(ctx, parent, pred):
    out = [x for x in ctx.f.fn_bodies() if x.kind == 'Closure' and x.path.startswith(parent + '::{closure') and x.path.count('{closure') == 1 and pred(x)]
    return out


def predicate(R, ctx):
    f = ctx.f
    rd = 'parameters::file_spec::FileSpec::read_dir_related_files'
    ff = 'parameters::file_spec::FileSpec::filter_files'
    listing_table(R, ctx, rd)
    family_table(R, ctx, ff)
    suffix_agreement(R, ctx)
    whole_infix_parse(R, ctx)
    infix_tables(R, ctx)


def whole_infix_parse(R, ctx, rule='R14.2'):
    """the timestamp predicate accepts an infix only if the WHOLE infix is a timestamp of the configured format: a parser that
    ignores a remainder (`parse_and_remainder`) accepts `<ts>-backup`, `<ts> (copy)`, `<ts>_old` - foreign files next to the logger's"""
    f = ctx.f
    b = ctx.body(r'^writers::file_log_writer::state::timestamps::timestamp_from_ts_infix$')
    names = [callee_name(t) for (_, _, t) in calls_with_closures(f, b)]
    rem = [n for n in names if re.search(r'parse_and_remainder$', n)]
    full = [n for n in names if re.search(r'(NaiveDateTime|NaiveDate|DateTime<.*>)::parse_from_str$', n)]
    R.check(rule, 'infix:Timstmps|whole-infix', bool(full) and not rem, "parsed with parse_from_str (no remainder allowed)",
            f"timestamp_from_ts_infix parses with {sorted(set(x.split('::')[-1] for x in rem)) or 'no chrono parser'} and ignores what follows the timestamp: a foreign file whose infix merely STARTS "
            "with a timestamp is listed, cleaned up and (direct naming with append) continued as if it were the logger's", where=b.loc())


def suffix_agreement(R, ctx, rule='R14.2'):
    """writer / reader agreement on the suffix: names are assembled by appending the configured suffix verbatim, the family predicate
    compares Path::extension() - the text after the LAST dot - with that suffix.  Unless a setter restricts the suffix to dot-free
    text, a suffix like `log.txt` is never matched: the logger's own files are not recognised (F27)."""
    f = ctx.f
    setters = [b for b in f.fn_bodies() if re.search(r'^parameters::file_spec::FileSpec::(o_suffix|suffix|try_from)$', b.path)]
    validated = any(re.search(r"str>?::(contains|find|split|rsplit|rfind|chars|bytes)$|char::is_alphanumeric$", callee_name(t)) and b.path.endswith('o_suffix')
                    for b in setters for (_, _, t) in calls_with_closures(f, b))
    ff = f.bodies['parameters::file_spec::FileSpec::filter_files']
    by_extension = any(callee_name(t) == 'std::path::Path::extension' for (_, _, t) in calls_with_closures(f, ff)) or \
        any(callee_name(t) == 'std::path::Path::extension' for q in ctx.cg.reachable([ff.path], spawn=False) if q in f.bodies and only_called_from(ctx.cg, root_fn(q), {ff.path})
            for _, t in f.bodies[q].calls())
    if by_extension and not validated:
        R.bad(rule, 'suffix-containing-a-dot-never-matches',
              "FileSpec::o_suffix stores any text, as_pathbuf appends it verbatim, but filter_files compares it with Path::extension() (the text after the LAST dot): "
              "with a suffix such as `log.txt` no file of the logger's own family is recognised - existing_log_files is empty, cleanup removes nothing, a restart "
              "numbers from r00000 again and renames over earlier files", where=ff.loc())
    else:
        R.ok(rule, 'suffix-containing-a-dot-never-matches', 'suffix restricted by its setter, or not compared through Path::extension')


def listing_table(R, ctx, rd):
    """read_dir_related_files as a whole: a directory entry is listed iff it is a regular file whose file name starts with the
    fixed name part (closures, named helpers or a loop - the rows are the same)"""
    import fdi_iter
    f = ctx.f
    b = f.bodies[rd]
    NEXTRX = r'as std::iter::Iterator>::next$'
    EFF = [r'FileSpec::fixed_name_part$', r'^std::fs::read_dir$', NEXTRX]
    I = FDI(f, effects=EFF, no_inline=EFF[:1], models=fdi_iter.vec_models(), loop_k=1, max_steps=30000)
    rows = I.run(rd, arg_names=['self'])
    bad = {}
    n = kept_rows = 0
    for r in rows:
        if r.undecided:
            raise CheckError(f"R14.2 listing table UNDECIDED: {r.undecided}")
        present = [v for a, v in r.cond if r.atom_info.get(a, {}).get('kind') == 'variant' and isinstance(T.strip_refs(r.atom_info[a]['of']), tuple)
                   and T.strip_refs(r.atom_info[a]['of'])[0] == 'eff' and re.search(NEXTRX, T.strip_refs(r.atom_info[a]['of'])[1])]
        if present.count('Some') != 1:
            continue
        if not (isinstance(r.result, Agg) and r.result.adt == 'vec'):
            raise CheckError(f"R14.2 listing table: result is not a list value ({r.result!r})")
        kept = len(r.result.fields) == 1
        v = {'is_file': None, 'name': None, 'prefix': None}
        for a, val in r.cond:
            info = r.atom_info.get(a, {})
            x = info.get('x') if info.get('kind') != 'variant' else info.get('of')
            xs = T.strip_refs(x)
            if not (isinstance(xs, tuple) and xs[0] == 'call'):
                continue
            if xs[1] == 'std::path::Path::is_file' and T.eff_indices(xs, NEXTRX):
                v['is_file'] = bool(val)
            elif info.get('kind') == 'variant' and xs[1] == 'std::path::Path::file_name' and T.eff_indices(xs, NEXTRX):
                v['name'] = (val == 'Some')
            elif re.search(r'str>?::starts_with$', xs[1]) and len(xs[2]) >= 2 and 'file_name' in repr(xs[2][0]) and T.eff_indices(xs[2][0], NEXTRX) and \
                    T.eff_indices(xs[2][1], r'fixed_name_part$') and not T.eff_indices(xs[2][0], r'fixed_name_part$'):
                v['prefix'] = bool(val)
        conj = {'regular-file': v['is_file'], 'fixed-part-prefix': T.and3(v['name'], True if v['name'] is False else v['prefix'])}
        if v['name'] is False:
            conj['fixed-part-prefix'] = False
        exp = T.and3(*conj.values())
        n += 1
        if kept:
            kept_rows += 1
            if not T.eff_indices(_x(r.result.fields[0]), NEXTRX):
                bad.setdefault('regular-file', "the path listed is not the path of the directory entry")
            for c, val in conj.items():
                if val is not True:
                    bad.setdefault(c, {'regular-file': "the listing no longer keeps regular files only (a sub-directory named like a log file would be treated as one)",
                                       'fixed-part-prefix': "the listing does not require the file name to start with the fixed name part"}[c])
        elif exp is True:
            bad.setdefault('fixed-part-prefix', "an entry satisfying both conjuncts is not listed")
    if not bad and (kept_rows < 1 or n < 3):
        raise CheckError(f"R14.2 listing table: form not recognised ({n} one-entry rows, {kept_rows} accepting)")
    for c in ('regular-file', 'fixed-part-prefix'):
        R.check('R14.2', f"conjunct:{c}", c not in bad, f"holds on {n} one-entry rows ({kept_rows} accepting)", f"directory listing: {bad.get(c)}", where=b.loc(), sample={'rows': n})


def family_table(R, ctx, ff):
    """filter_files as a whole: for one listed element, it is kept iff every documented conjunct holds.  The table is the same for a
    chain of Iterator::filter closures ending in collect() and for a `for` loop with `continue`/push (vec models); conjuncts are
    recognised by what their atoms examine, atoms outside the documented predicate are don't-cares."""
    import fdi_iter
    f = ctx.f
    b = f.bodies[ff]
    EFF = [r'InfixFilter::filter_infix$', r'FileSpec::fixed_name_part$']
    NEXTRX = r'as std::iter::Iterator>::next$'
    I = FDI(f, effects=EFF + [NEXTRX], no_inline=EFF, models=fdi_iter.vec_models(), loop_k=1, max_steps=30000)
    rows = I.run(ff, arg_names=['self', 'files', 'infix_filter', 'o_suffix'])
    CONJ = ['suffix-equals-extension', 'stem-starts-with-fixed-part', 'separator', 'non-empty-infix', 'infix-predicate']
    bad = {}
    n = kept_rows = 0

    def flag(c, why):
        bad.setdefault(c, why)
    for r in rows:
        if r.undecided:
            raise CheckError(f"R14.2 family table UNDECIDED: {r.undecided}")
        present = [v for a, v in r.cond if r.atom_info.get(a, {}).get('kind') == 'variant' and isinstance(T.strip_refs(r.atom_info[a]['of']), tuple)
                   and T.strip_refs(r.atom_info[a]['of'])[0] == 'eff' and re.search(NEXTRX, T.strip_refs(r.atom_info[a]['of'])[1])]
        if present.count('Some') != 1:
            continue
        if not (isinstance(r.result, Agg) and r.result.adt == 'vec'):
            raise CheckError(f"R14.2 family table: result is not a list value ({r.result!r})")
        kept = len(r.result.fields) == 1
        if kept and not T.eff_indices(_x(r.result.fields[0]), NEXTRX):
            flag('infix-predicate', "the element kept is not the listed element")
        v = {'sfx': None, 'ext': None, 'eq': None, 'fixed_empty': None, 'pre': None, 'sep': None, 'nonempty': None, 'finfix': None}
        for a, val in r.cond:
            info = r.atom_info.get(a, {})
            kind = info.get('kind')
            la = r.long(a)
            if a == 'variant(o_suffix)':
                v['sfx'] = val
            elif kind == 'variant' and la.startswith('variant(std::path::Path::extension('):
                v['ext'] = val
            elif kind == 'ord' and 'o_suffix' in T.inputs_in((info['a'], info['b'])) and 'Path::extension' in repr((info['a'], info['b'])) and \
                    not re.search(r'ends_with|starts_with|contains|file_name|file_stem', repr((info['a'], info['b']))):
                v['eq'] = (val == 'eq')
            elif re.match(r'^(std::string::String|core::str::<impl str>)::is_empty\(', la) and 'fixed_name_part#' in la and 'file_stem' not in la:
                v['fixed_empty'] = bool(val)
            elif kind == 'variant' and _is_call(info['of'], r'str>?::strip_prefix$'):
                a0, a1 = T.strip_refs(info['of'])[2][0], T.strip_refs(info['of'])[2][1]
                if T.strip_refs(a1) in (('const', '_'), ('const', "_")) and 'file_stem' in repr(a0):
                    v['sep'] = val
                elif T.eff_indices(a1, r'fixed_name_part$') and 'file_stem' in repr(a0) and not T.eff_indices(a0, r'fixed_name_part$'):
                    v['pre'] = val
                    if re.search(r"RangeTo|str>?::(find|split|split_once|rfind|rsplit)\b|'\.'", repr(a0)):
                        flag('stem-starts-with-fixed-part', "the stem is cut at a dot BEFORE the fixed name part is stripped: with a dot in the basename or discriminant "
                             "(e.g. FileSpec::try_from(\"dir/my.app.log\")) no file of the family is recognised any more - listing, cleanup and the next number see an empty family")
            elif re.match(r'^core::str::<impl str>::is_empty\(', la) and 'file_stem' in la:
                v['nonempty'] = not val
            elif re.search(r'filter_infix#\d+', a) and kind in ('bool', 'switch'):
                v['finfix'] = bool(val)
        some = lambda x: None if x is None else (x == 'Some')
        suffix_ok = True if v['sfx'] == 'None' else (None if v['sfx'] is None else T.and3(some(v['ext']), True if v['ext'] == 'None' else v['eq']))
        if v['sfx'] == 'Some' and v['ext'] == 'None':
            suffix_ok = False
        if v['fixed_empty'] is True:
            pre_ok = sep_ok = True
        elif v['fixed_empty'] is False:
            pre_ok, sep_ok = some(v['pre']), (False if v['pre'] == 'None' else some(v['sep']))
        else:
            pre_ok = sep_ok = None
        conj = {'suffix-equals-extension': suffix_ok, 'stem-starts-with-fixed-part': pre_ok, 'separator': sep_ok, 'non-empty-infix': v['nonempty'], 'infix-predicate': v['finfix']}
        exp = T.and3(*conj.values())
        n += 1
        if kept:
            kept_rows += 1
            for c, val in conj.items():
                if val is not True:
                    flag(c, {'suffix-equals-extension': "a file is kept although a suffix is requested and its extension was not compared with it (extension == suffix)",
                             'stem-starts-with-fixed-part': "a file passes without its stem starting with the fixed name part",
                             'separator': "a file passes although the byte after the fixed name part is not the `_` separator (e.g. `appXr00001.log` next to basename `app`)",
                             'non-empty-infix': "an empty infix text is handed to the predicate",
                             'infix-predicate': "a file is kept without the infix predicate's consent"}[c] + f" [row: {dict((k, x) for k, x in v.items() if x is not None)}]")
            # the text handed to the infix predicate
            fi = [e for e in r.effects if e[0].endswith('filter_infix')]
            if fi:
                arg = r.long(fi[0][1][1])
                so = next((val for a_, val in r.cond if a_.startswith('variant(') and re.search(r"str>?::split_once\(.*'\.'\)\)?$", r.long(a_))), None)
                dot_ok = bool(re.search(r"find\(.*'\.'", arg)) or 'RangeTo' in arg or (so == 'None') or \
                    (so == 'Some' and re.search(r"split_once\(.*'\.'\)\.0\.0$", arg) is not None)
                if 'file_stem' not in arg or not dot_ok:
                    flag('infix-predicate', f"the infix predicate is not applied to the stem text up to the first '.': {arg[:160]}")
                if v['fixed_empty'] is False and 'strip_prefix' not in arg:
                    flag('infix-predicate', "the infix text is not the part after the fixed name part and separator")
        elif exp is True:
            flag('infix-predicate', f"a file satisfying every documented conjunct is dropped [row: {dict((k, x) for k, x in v.items() if x is not None)}]")
    if not bad and (kept_rows < 4 or n < 12):
        raise CheckError(f"R14.2 family table: form not recognised ({n} one-element rows, {kept_rows} accepting)")
    for c in CONJ:
        R.check('R14.2', f"conjunct:{c}", c not in bad, f"holds on {n} one-element rows ({kept_rows} accepting)",
                f"family predicate: {bad.get(c)} (a foreign file would be taken as a log file of this logger)", where=b.loc(), sample={'rows': n, 'accepting': kept_rows})


def _is_call(x, rx):
    x = T.strip_refs(x)
    return isinstance(x, tuple) and len(x) == 3 and x[0] == 'call' and re.search(rx, x[1]) is not None and len(x[2]) >= 2


def _x(v):
    if isinstance(v, Const):
        return ('const', v.v)
    if isinstance(v, Sym):
        return v.x
    if isinstance(v, Agg):
        return ('agg', v.adt, v.variant, tuple(_x(y) for y in v.fields))
    return ('unknown',)


def uses_filter(ctx, parent, closure_path):
    if closure_path is None:
        return False
    b = ctx.f.bodies[parent]
    clos = ctx.cg._closure_locals(b)
    for bb, t in b.calls():
        if re.search(r'Iterator>?::filter$', callee_name(t)):
            a = t['args'][1]
            if a['k'] in ('move', 'copy') and clos.get(a['place']['l']) == closure_path:
                return True
            if a['k'] == 'const' and a.get('closure') == closure_path:
                return True
    return False


def infix_tables(R, ctx):
    f = ctx.f
    fb = ctx.body(r'^writers::file_log_writer::infix_filter::InfixFilter::filter_infix$')
    samples = {'r00001': True, 'r1x': True, 'r12': True, 'r1': False, 'r': False, '': False, 'x12': False, 'rX1': False, 'rCURRENT': False, 'R001': False, 'r_01': False}

    def models(s_):
        def m_next(I, st, fr, t, args, name):
            a = args[0]
            it = I.read_cell_path(st, a.cell, a.proj) if isinstance(a, Ref) else a
            if isinstance(it, Agg) and it.adt == 'chars':
                i = it.fields[0].v
                I.write_loc(st, a.cell, list(a.proj) + [('f', 0, None, None)], Const(i + 1))
                if i < len(s_):
                    return Agg('std::option::Option', 'Some', [Const(s_[i], 'char')])
                return Agg('std::option::Option', 'None', [])
            return NotImplemented
        return {
            r'^core::str::<impl str>::len$': lambda I, st, fr, t, args, name: Const(len(s_.encode())),
            r'^core::str::<impl str>::chars$': lambda I, st, fr, t, args, name: Agg('chars', None, [Const(0)]),
            r'as std::iter::Iterator>::next$': m_next,
            r'^(core|std)::char::methods::<impl char>::is_ascii_digit$': lambda I, st, fr, t, args, name: Const(_c(I, st, args[0]).isdigit() and _c(I, st, args[0]).isascii()),
        }

    def setup(variant, fields):
        def s(I_, st, fr):
            ref = st.heap[fr.cells[1]]
            st.heap[ref.cell] = Agg('writers::file_log_writer::infix_filter::InfixFilter', variant, fields)
        return s
    bad = []
    for s_, exp in samples.items():
        rows = FDI(f, models=models(s_)).run(fb.path, setup=setup('Numbrs', []))
        got = {repr(r.result) for r in rows}
        if any(r.undecided for r in rows):
            R.bad('R14.2', 'infix:Numbrs', f"UNDECIDED {rows[0].undecided}", where=fb.loc())
            return
        if got != {str(exp)}:
            bad.append((s_, sorted(got), exp))
    R.check('R14.2', 'infix:Numbrs', not bad, f"{len(samples)} sample infixes: len > 2, 'r', ASCII digit",
            f"InfixFilter::Numbrs deviates on {bad[:3]} (infix, got, documented)", where=fb.loc(), sample={'samples': samples})
    # Equls = string equality; None = false
    rows = FDI(f).run(fb.path, setup=setup('Equls', [Sym('wanted', 'std::string::String')]))
    ok = all(isinstance(r.result, (Sym, Const)) and ('eq' in repr(r.result.x if isinstance(r.result, Sym) else '') or r.cond) for r in rows) and not any(r.undecided for r in rows)
    okeq = False
    for r in rows:
        txt = repr(r.result.x) if isinstance(r.result, Sym) else repr([r.atom_info.get(a) for a, v in r.cond])
        if re.search(r"::eq'|'ord'", txt) and 'wanted' in txt and 'infix' in txt and not re.search(r'starts_with|contains|ends_with', txt):
            okeq = True
    R.check('R14.2', 'infix:Equls', ok and okeq, "infix == wanted", "InfixFilter::Equls is not string equality", where=fb.loc())
    rows = FDI(f).run(fb.path, setup=setup('None', []))
    R.check('R14.2', 'infix:None', {repr(r.result) for r in rows} == {'False'}, "false", "InfixFilter::None accepts something", where=fb.loc())
    rows = FDI(f, effects=[r'timestamp_from_ts_infix$'], no_inline=[r'timestamp_from_ts_infix$']).run(fb.path, setup=setup('Timstmps', [Sym('fmt', 'writers::file_log_writer::state::InfixFormat')]))
    okt = len(rows) >= 1 and all(len(r.effects) == 1 and 'infix' in r.effects[0][1][0] and 'fmt' in r.effects[0][1][1] for r in rows)
    okt = okt and all((r.get('variant(writers::file_log_writer::state::timestamps::timestamp_from_ts_infix#1)') == 'Ok') == (repr(r.result) == 'True') for r in rows)
    R.check('R14.2', 'infix:Timstmps', okt, "parsable with the naming's own format", "InfixFilter::Timstmps is not `timestamp_from_ts_infix(infix, format).is_ok()`", where=fb.loc())


def _c(I, st, v):
    v = I.resolve(st, v)
    if isinstance(v, Ref):
        v = I.read_cell_path(st, v.cell, v.proj)
    return v.v if isinstance(v, Const) and isinstance(v.v, str) else '?'


# ------------------------------------------------------------------------------------------------ R14.3
def ownership(R, ctx):
    f = ctx.f
    for b in f.fn_bodies():
        if b.doc_hidden or 'validate_logs' in b.path:
            continue
        for bb, t in b.calls():
            name = callee_name(t)
            ec = effect_class(name)
            if ec not in ('FS_REMOVE', 'FS_RENAME', 'FS_CREATE', 'FS_OPEN', 'FS_SYMLINK', 'FS_WRITE_WHOLE', 'FS_MKDIR'):
                continue
            if ec == 'FS_MKDIR' and b.file == 'src/writers/file_log_writer/builder.rs':
                R.ok('R14.3', f"{b.path}|{name.split('::')[-1]}", 'creates the configured log directory')
                continue
            own = bool(OWNERS.search(b.file)) or (b.file, ec) in OWNER_EXCEPTIONS
            R.check('R14.3', f"{b.path}|{name.split('::')[-1]}", own, OWNER_EXCEPTIONS.get((b.file, ec), 'file-log-writer state module'),
                    f"{name} is called from {b.path} ({b.file}): destructive file-system effects are owned by the file-log-writer state modules", where=b.loc(bb))
