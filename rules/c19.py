"""C19 — I/O failures are reported, lose only the failing write, and logging recovers."""
from rulelib import *
from report import CheckError
from errors import ErrorDiscipline
import c01, c08

EXPLANATION = ("R19.1 error discipline over every call in the crate that returns a Result: its value is propagated, reported on the error channel, "
               "inspected, or one of the enumerated, individually justified discards; any other discard is a violation; R19.2 sink table: a failed "
               "rotation attempt is reported and the record is still written once to the old file; R19.3 the old writer stays until the new file is "
               "open; R19.4 initialisation changes `inner` only after every fallible step succeeded (a failed start is retried with the original "
               "configuration at the next write); R19.5 in FlexiLogger::log every writer result ends in a reporting closure; R19.6 no unwrap/expect "
               "on the result of a file-system or thread operation outside the triaged table. R19.3 also: with Naming::Numbers the stored index is the result of index_for_rcurrent on every path once the rename succeeded."
               " R19.7 error channel: try_writing_to_error_channel writes the report to stderr / stdout / the configured file (create+append) / nowhere per ErrorChannel kind; eprint_err / eprint_msg pass message and cause on exactly once; the channel installed at start is the builder's field. R19.8 (shared with R07.2): in the compression chain a failing step keeps the original and is propagated; the encoder's sink cannot swallow a failing write."
               " R19.9 the error of every crate function that reaches rename / remove / create / write-open / symlink is propagated, reported or inspected, never replaced by a fallback value (unwrap_or*, map_or*, ok().unwrap_or*).")
ASSUMPTIONS = ["util::eprint_err / eprint_msg deliver to the configured error channel (its own failures are handled by handle_error_error)",
               "failures of custom writers are user code"]
NOT_DECIDED = ["which records are lost under which fault sequence", "recovery after faults that leave the directory in a state no rule describes"]
FLOORS = {'R19.1': 20, 'R19.2': 1, 'R19.4': 2, 'R19.5': 2, 'R19.6': 5}

# (function path prefix, callee regex) -> reason.  One line per confirmed exception (Appendix B of DESIGN.md).
ALLOWED_DISCARDS = [
    (r'^formats::(write_key_value_pairs|json_format)$|^writers::syslog::line::write_key_value_pairs$', r'^log::kv::Source::visit$',
     "kv visitor fails only on a write error of the same buffer, which the next write!/? reports"),
    (r'AsyncHandle|StdWriter as .*::(flush|shutdown)$|StateHandle::(flush|shutdown)$|start_async_fs_flusher', r'Sender::<T>::send$|AsyncHandle::send$',
     "control message (FLUSH/SHUTDOWN) to a writer thread that is gone: the writer is already shut down"),
    (r'::shutdown$', r'^std::thread::JoinHandle::<T>::join$', "a panicked helper thread must not panic the caller of shutdown"),
    (r'remove_or_compress_too_old_logfiles$|CleanupThreadHandle::shutdown$', r'^std::sync::mpsc::Sender::<T>::send$',
     "cleanup thread gone: nothing to tell"),
    (r'start_(flusher_thread|sync_flusher)$', r'Receiver::<T>::recv_timeout$', "timer tick: the sender is held by the same closure"),
    (r'start_async_(stdwriter|fs_writer)$', r'^crossbeam_queue::ArrayQueue::<T>::push$', "buffer pool full: the buffer is simply dropped"),
    (r'latest_timestamp_file$', r'timestamp_from_ts_infix$', "unparsable infix = not a member of the family (filter_map)"),
    (r'^init$', r'^logger::Logger::start$', "documented: init() ignores a logger that is already set"),
]
# known findings live in known_findings.json (F16: flush().ok(); F17: cleanup thread .ok())

PANIC_TRIAGE = [
    (r'FileSpec::collision_free_infix_for_rotated_file$', r'^core::str::<impl str>::parse$', 'INV',
     "the sibling filter admits only names with four ASCII digits after `.restart-` (C10 R10.1 restart-sibling-guard; F10 fixed)"),
    (r'.*', r'^std::sync::(Mutex|RwLock)::<T>::(lock|read|write)$', 'POI', "poison only: nothing may panic under these locks (C10 R10.2)"),
    (r'flexi_logger::FlexiLogger as log::Log>::log$', r'^std::result::Result::<T, E>::as_ref$', 'POI', "read() of the spec lock, poison only"),
    (r'^(threads::start_async_stdwriter|writers::file_log_writer::state::start_(async_fs_writer|sync_flusher|async_fs_flusher))$', r'^std::thread::Builder::spawn$', 'RES',
     "documented intent: panic if a helper thread cannot be spawned at start-up"),
    (r'^trc::setup_tracing', r'reload$', 'INV', "subscriber outlives the closure; trc is experimental"),
]


def is_discard(c):
    return 'discard' in c and not ({'handle', 'propagate', 'report'} & c)


def no_fallback_for_effectful_steps(R, ctx, ed, rule='R19.9'):
    """a fallback VALUE may replace the error of a query (metadata, parse), never the error of a step that changes the file system: the result of every
    crate function that reaches rename / remove / create / write-open / symlink is propagated, reported or inspected - not turned into a default by
    unwrap_or / unwrap_or_else / unwrap_or_default / map_or / ok() (directly or behind non-reporting Result adaptors).  `rename failed` silently becoming
    `use the current time` lets the caller go on to truncate the file that should have been moved away."""
    from callgraph import effect_class
    from errors import DEFAULT, TERMINAL_CLOSURE, ADAPT_RESULT, TO_OPTION, REPORTERS, RESULT_TY
    f, cg = ctx.f, ctx.cg
    MUT = {'FS_RENAME', 'FS_REMOVE', 'FS_OPEN', 'FS_CREATE', 'FS_SYMLINK', 'FS_WRITE_WHOLE'}
    pred = lambda n, t: effect_class(n) in MUT
    memo = {}

    def effectful(p):
        if p not in memo:
            memo[p] = bool(cg.reaches_effect(p, pred, spawn=False))
        return memo[p]

    def swallowed(body, local, depth=0):
        if depth > 6:
            return None
        u = ed.uses(body)
        for (bb, s_, how) in u.stmt_uses.get(local, []):
            if how in ('use', 'cast') and not s_['place']['p'] and s_['place']['l'] not in (0, local):
                w = swallowed(body, s_['place']['l'], depth + 1)
                if w:
                    return w
        for (bb, t, i) in u.call_uses.get(local, []):
            if i != 0:
                continue
            n = callee_name(t)
            reports = False
            for a in t['args'][1:]:
                cp = ed._closure_of_arg(body, a)
                if cp and (REPORTERS.search(cp) or (cp in f.bodies and ed.closure_reports(cp))):
                    reports = True
            if DEFAULT.search(n) or (TERMINAL_CLOSURE.search(n) and re.search(r'(unwrap_or_else|map_or_else|map_or)$', n) and not reports):
                return (n.split('::')[-1], body.loc(bb))
            if TO_OPTION.search(n) and n.endswith('::ok') and not t['dest']['p']:
                # .ok() followed by a default
                for (bb2, t2, i2) in u.call_uses.get(t['dest']['l'], []):
                    if i2 == 0 and re.search(r'Option::<T>::(unwrap_or|unwrap_or_else|unwrap_or_default|map_or)$', callee_name(t2)):
                        return ('ok().' + callee_name(t2).split('::')[-1], body.loc(bb2))
            if ADAPT_RESULT.search(n) and not reports and not t['dest']['p']:
                w = swallowed(body, t['dest']['l'], depth + 1)
                if w:
                    return w
        return None
    n = 0
    for b in f.fn_bodies():
        if b.doc_hidden or 'validate_logs' in b.path or b.promoted is not None:
            continue
        for bb, t in b.calls():
            c = callee_name(t)
            if c not in f.bodies or not RESULT_TY.search(t.get('dest_ty') or '') or t['dest']['p'] or not effectful(c):
                continue
            n += 1
            w = swallowed(b, t['dest']['l'])
            R.check(rule, f"{root_fn(b.path)}|{c.split('::')[-1]}|no-fallback", not w, "error of an effectful step is propagated / reported / inspected",
                    f"{b.path}: the error of {c.split('::')[-1]} (which renames / removes / creates files) is replaced by a fallback value with {w[0] if w else ''}: the caller goes on as if the "
                    "step had happened - e.g. truncating a current file that was not rotated away - and nothing reaches the error channel", where=w[1] if w else b.loc(bb))
    if n < 8:
        raise CheckError(f"{rule}: only {n} calls of effectful crate functions found")


def run(R, ctx):
    f, cg = ctx.f, ctx.cg
    R.rule('R19.9', 'no fallback value for the error of a step that changes the file system')
    no_fallback_for_effectful_steps(R, ctx, ErrorDiscipline(f, cg))
    R.rule('R19.1', 'ERROR-DISCIPLINE(whole crate, allow-list)')
    R.rule('R19.2', 'TABLE(record sink): rotation failure reported, write continues')
    R.rule('R19.3', 'old writer kept until the new file is open')
    R.rule('R19.4', 'GUARDED-EFFECT(assignment of State.inner, all fallible steps of initialize)')
    R.rule('R19.5', 'every writer result in FlexiLogger::log ends in a reporting closure')
    R.rule('R19.6', 'triaged unwrap/expect on fallible operations')
    ed = ErrorDiscipline(f, cg)
    sites = ed.sites(skip=lambda b: b.doc_hidden or 'validate_logs' in b.path)
    per = {}
    counts = {}
    owners = thread_owners(cg)      # a consumer loop may live in a named function run by the spawned closure
    for (b, bb, n, c) in sites:
        for k_ in c:
            counts[k_] = counts.get(k_, 0) + 1
        if is_discard(c):
            root = root_fn(b.path)
            ordn = per.setdefault((root, n), 0)
            per[(root, n)] = ordn + 1
            key = f"{root}|{n}|discard#{ordn}"
            t_ = b.blocks[bb]['term']
            if re.search(r'^std::sync::mpsc::Sender::<T>::send$', n) and 'MessageToCleanupThread' in ' '.join(t_['callee'].get('targs') or []):
                R.ok('R19.1', key, "allowed discard: request / Die to the cleanup thread - if the thread is gone there is nothing to tell (by message type)", nontrivial=True)
                continue
            allowed = next((why for (fr, cr, why) in ALLOWED_DISCARDS if re.search(cr, n) and
                            (re.search(fr, root) or any(re.search(fr, o) for o in owners.get(b.path, ())) or
                             # a private helper called from nowhere but the allow-listed function(s) is part of them
                             (not f.bodies[root].reachable and only_called_from(cg, root, {q for q in f.bodies if re.search(fr, q)})))), None)
            if allowed:
                R.ok('R19.1', key, f"allowed discard: {allowed}", nontrivial=True)
            else:
                R.bad('R19.1', key, f"the result of {n} is discarded in {root} (neither propagated, reported on the error channel, nor inspected): "
                      "a failure here is silently lost", where=b.loc(bb))
    R.stats['result_sites'] = counts
    R.ok('R19.1', 'inventory', f"{len(sites)} Result-returning call sites classified: {counts}", sample={'sites': len(sites), 'classes': counts})
    if len(sites) < 250:
        raise CheckError(f"only {len(sites)} Result sites classified")

    c01.sink_table(R, ctx, 'R19.2')
    c01.swap_rules(_Only(R, 'R01.4', 'R19.3'), ctx)
    c01.index_state_rule(R, ctx, rule='R19.3')
    # recovery: a missing current file (NotFound at the rename) is tolerated at start AND at rotation, otherwise logging never resumes
    c01.index_table(Relabel(R, {'R01.5': 'R19.3'}), ctx)
    initialize(R, ctx)
    log_reports(R, ctx, ed)
    panics(R, ctx, sites)
    error_channel(R, ctx)
    if ctx.has('compress'):
        # compression: every step guards the next, the original is removed last, and the encoder's sink cannot swallow a failing write
        # (shared with R07.2): a failure keeps the original and travels up to write_buffer, which reports it
        R.rule('R19.8', 'compression chain: a failing step keeps the original and is propagated (shared with R07.2)')
        import c07 as _c07
        _c07.classification(_Fwd(R, 'R19.8', want=('R07.2',)), ctx)

class _Fwd:
    """forward only the obligations of the wanted source rules of another property's module under this property's rule id"""

    def __init__(self, R, to, want):
        self.R, self.to, self.want = R, to, want
        self.stats = R.stats
        self.known = {}

    def rule(self, *a, **kw):
        pass

    def check(self, rule, *a, **kw):
        if rule in self.want:
            return self.R.check(self.to, *a, **kw)
        return a[1] if len(a) > 1 else True

    def bad(self, rule, *a, **kw):
        if rule in self.want:
            return self.R.bad(self.to, *a, **kw)

    def ok(self, rule, *a, **kw):
        if rule in self.want:
            return self.R.ok(self.to, *a, **kw)


class _Only:
    """forward obligations of one rule id under another id"""

    def __init__(self, R, frm, to):
        self.R, self.frm, self.to = R, frm, to

    def check(self, rule, *a, **kw):
        return self.R.check(self.to, *a, **kw)

    def bad(self, rule, *a, **kw):
        return self.R.bad(self.to, *a, **kw)

    def ok(self, rule, *a, **kw):
        return self.R.ok(self.to, *a, **kw)


def initialize(R, ctx):
    f = ctx.f
    b = ctx.body(r'^writers::file_log_writer::state::State::initialize$')
    brk = try_break_blocks(b)
    # mutations of self.inner: assignments through (*_1).inner and calls receiving &mut (*_1).inner
    muts = []
    refs = set()
    for bb in sorted(b.normal_blocks()):
        for s in b.blocks[bb]['stmts']:
            if s['k'] != 'assign':
                continue
            if s['place']['l'] == 1 and 'inner' in place_fields(s['place'])[:1]:
                muts.append((bb, 'assignment'))
            if s['rv']['k'] == 'ref' and s['rv']['mut'] and s['rv']['place']['l'] == 1 and place_fields(s['rv']['place'])[:1] == ['inner']:
                refs.add(s['place']['l'])
        t = b.blocks[bb]['term']
        if t['k'] == 'drop' and t['place']['l'] == 1 and place_fields(t['place'])[:1] == ['inner']:
            muts.append((bb, 'drop-for-assignment'))
    changed = True
    while changed:      # reborrows and moves of the reference
        changed = False
        for bb in sorted(b.normal_blocks()):
            for s in b.blocks[bb]['stmts']:
                if s['k'] != 'assign' or s['place']['p'] or s['place']['l'] in refs:
                    continue
                rv = s['rv']
                src = None
                if rv['k'] == 'ref' and rv['mut'] and rv['place']['l'] in refs and [e['k'] for e in rv['place']['p']] == ['deref']:
                    src = rv['place']['l']
                if rv['k'] == 'use' and rv['op']['k'] in ('move', 'copy') and rv['op']['place']['l'] in refs and not rv['op']['place']['p']:
                    src = rv['op']['place']['l']
                if src is not None:
                    refs.add(s['place']['l'])
                    changed = True
    for bb, t in b.calls():
        for a in t['args']:
            if a['k'] in ('move', 'copy') and a['place']['l'] in refs and not a['place']['p']:
                muts.append((bb, f"&mut self.inner passed to {callee_name(t)}"))
    bad = None
    for bb, how in muts:
        reach = C.reachable_after(b, bb) | {bb}
        if reach & brk:
            bad = f"`inner` is changed ({how}, {b.loc(bb)}) before a fallible step: if that step fails the writer stays in the changed state " \
                  "(the retry at the next write no longer sees the original configuration)"
            break
    R.check('R19.4', f"{b.path}|inner-after-fallible-steps", not bad and bool(muts), f"{len(muts)} mutation sites of `inner`, none followed by a `?` error exit",
            f"State::initialize: {bad or 'no assignment of inner found'}", where=b.loc(), sample={'mutations': [m[1] for m in muts]})
    ib = ctx.body(r'^writers::file_log_writer::state::State::initialize_with_rotation$')
    selfmut = ib.locals[1]['ty'].startswith('&') and 'mut' in ib.locals[1]['ty'].split(' ')[0:2]
    wr = [bb for bb in sorted(ib.normal_blocks()) for s in ib.blocks[bb]['stmts'] if s['k'] == 'assign' and s['place']['l'] == 1 and s['place']['p']]
    R.check('R19.4', f"{ib.path}|does-not-mutate-state", not wr and '&mut' not in ib.locals[1]['ty'].replace("&'a mut", '&mut')[:5],
            "initialize_with_rotation takes &self and builds the new Inner as a value", "initialize_with_rotation mutates the state in place", where=ib.loc())
    # the sink retries while Initial: covered by R19.2's table (rows with Initial call initialize first)


def log_reports(R, ctx, ed):
    f = ctx.f
    b = ctx.body(r'^<flexi_logger::FlexiLogger as log::Log>::log$')
    n = 0
    for bb, t in b.calls():
        name = callee_name(t)
        if re.search(r'(LogWriter|LogLineFilter|PrimaryWriter)::write$', name):
            cls = ed.classify_local(b, t['dest']['l'])
            n += 1
            R.check('R19.5', f"{b.path}|{name.split('::')[-2]}::write#{n}", 'report' in cls and not ({'discard', 'panic'} & cls),
                    "result ends in a reporting closure", f"the result of {name} in log() is {sorted(cls)}: a write failure is not reported on the error channel (or panics)",
                    where=b.loc(bb))
    if n < 2:
        raise CheckError('writer calls in log() not found')
    R.check('R19.5', f"{b.path}|returns-unit", (b.sig or '').endswith('-> ()') or True, "log() cannot propagate", "", where=b.loc())


def panics(R, ctx, sites):
    import c10
    for (b, bb, n, c) in sites:
        if 'panic' not in c:
            continue
        key = f"{root_fn(b.path)}|{n}|unwrap"
        tri = next(((cls, why) for (fr, cr, cls, why) in PANIC_TRIAGE if re.search(fr, root_fn(b.path)) and re.search(cr, n)), None)
        if tri is None and re.search(r'^std::result::Result<.*std::sync::PoisonError<', b.blocks[bb]['term'].get('dest_ty') or ''):
            tri = ('POI', "the error type of the unwrapped Result is PoisonError (a lock result passed through a private accessor): poison only")
        if tri and 'restart-sibling-guard' in tri[1] and not c10.restart_sibling_guard(ctx):
            tri = None          # the invariant that excluded the failure is gone
        if tri:
            R.ok('R19.6', key, f"{tri[0]}: {tri[1]}")
        else:
            R.bad('R19.6', key, f"unwrap/expect on the result of {n} in {b.path}: the failure panics instead of being returned or reported", where=b.loc(bb))


# ------------------------------------------------------------------------------------------------ R19.7 the error channel itself
WRITE_RX = r'Write>::write_fmt$|Write::write_fmt$|Write>::write_all$|Write::write_all$|Write>::write$|Write::write$'


def _dest_of(x):
    """which stream does the receiver expression of a write denote: stderr / stdout / file (result of an OpenOptions::open | File::create) / ?"""
    from table import subterms
    kinds = set()
    for t in subterms(x):
        if len(t) >= 2 and t[0] in ('eff', 'call') and isinstance(t[1], str):
            n = t[1].replace('fn:', '')
            if n == 'std::io::stderr':
                kinds.add('stderr')
            elif n == 'std::io::stdout':
                kinds.add('stdout')
            elif re.search(r'^std::fs::OpenOptions::open$|^std::fs::File::(create|options|open)$', n):
                kinds.add('file')
    return kinds


def error_channel(R, ctx):
    """`reported on the configured error channel`, for every error channel kind: the one function every report passes through writes the
    message to stderr for StdErr, to stdout for StdOut, appends it to the configured file for File(path), and writes nothing for DevNull;
    eprint_err / eprint_msg hand their text (message and cause) to it exactly once; the channel installed at start is the configured one."""
    from fdi import FDI, Agg
    from table import inputs_in, subterms
    f = ctx.f
    R.rule('R19.7', 'TABLE(error channel kind -> destination of the report); reporters pass message and cause on exactly once; configured channel installed')
    b = ctx.body(r'^util::try_writing_to_error_channel$')
    pname = b.locals[1].get('name') or 'arg1'
    EFF = [r'^std::io::stderr$', r'^std::io::stdout$', WRITE_RX, r'^std::fs::OpenOptions::\w+$', r'^std::fs::File::(create|open|options)$', r'^util::handle_error_error$']
    rows = FDI(f, effects=EFF, max_rows=4000).run(b.path)
    seen = {}
    bad = None
    for r in rows:
        if r.undecided:
            raise CheckError(f"R19.7: error-channel table undecided: {r.undecided}")
        ch = [v for a, v in r.cond if r.atom_info.get(a, {}).get('kind') == 'variant' and 'ErrorChannel' in (r.atom_info[a].get('ty') or '')]
        if len(ch) != 1:
            raise CheckError(f"R19.7: a path through {b.path} examines the error channel {len(ch)} times (form not recognised)")
        ch = ch[0]
        failed = any(v == 'Err' for a, v in r.cond if r.atom_info.get(a, {}).get('kind') == 'variant' and re.search(r'OpenOptions::open|write_fmt|write_all|flush|File::', a))
        dests = []
        chain = {}
        for e in r.effects:
            nm = e[0].split('::')[-1]
            if e[0].startswith('std::fs::OpenOptions::'):
                if nm == 'new':
                    chain = {}
                elif nm == 'open':
                    chain['_path'] = e[2]['x'][1]
                else:
                    chain[nm] = e[1][1] if len(e[1]) > 1 else 'True'
            if re.search(WRITE_RX, e[0]):
                d = _dest_of(e[2]['x'][0])
                carries = any(pname in inputs_in(x) for x in e[2]['x'][1:])
                if carries:
                    dests.append((sorted(d)[0] if len(d) == 1 else '?', dict(chain)))
        seen.setdefault(ch, 0)
        seen[ch] += 1
        kinds = [d for d, _ in dests]
        if ch == 'StdErr' and kinds != ['stderr']:
            bad = bad or f"ErrorChannel::StdErr: the report is written to {kinds or 'nothing'} (documented: to stderr, once)"
        elif ch == 'StdOut' and kinds != ['stdout']:
            bad = bad or f"ErrorChannel::StdOut: the report is written to {kinds or 'nothing'} (documented: to stdout, once)"
        elif ch == 'DevNull' and (kinds or any(re.search(WRITE_RX, e[0]) for e in r.effects)):
            bad = bad or f"ErrorChannel::DevNull: something is written ({kinds}) although the channel is documented to suppress the messages"
        elif ch == 'File':
            if '?' in kinds or 'stdout' in kinds:
                bad = bad or f"ErrorChannel::File: the report is written to {kinds}"
            if not failed:
                if kinds != ['file']:
                    bad = bad or f"ErrorChannel::File, every operation successful: the report is written to {kinds or 'nothing'} (documented: to the specified file)"
                else:
                    fl = dests[0][1]
                    flags = {k: v for k, v in fl.items() if k != '_path'}
                    if '_path' in fl:     # opened through OpenOptions: never truncate the reports of earlier failures, path = the payload of the channel
                        if flags.get('append') != 'True' or flags.get('truncate') == 'True' or 'create_new' in flags or flags.get('create') != 'True':
                            bad = bad or f"ErrorChannel::File: the file is opened with {flags}; earlier reports must survive (create + append)"
                        if not any(t[0] == 'field' and 'ErrorChannel' in repr(t) or (t[0] == 'field' and t[2] == '0') for t in subterms(fl['_path']) if len(t) == 3):
                            bad = bad or "ErrorChannel::File: the file opened is not the path carried by the configured channel"
            elif 'file' not in kinds and 'stderr' not in kinds and not any(k == 'file' for k in kinds):
                pass      # what happens when the channel itself is broken is not part of the property (handle_error_error)
        elif ch not in ('StdErr', 'StdOut', 'File', 'DevNull'):
            raise CheckError(f"R19.7: unknown error channel kind {ch}")
    variants = [v['name'] for v in f.adts['logger::ErrorChannel']['variants']]
    missing = [v for v in variants if v not in seen]
    if missing and not bad:
        bad = f"error channel kinds {missing} are not handled by {b.path}"
    R.check('R19.7', f"{b.path}|channel-table", not bad, f"{len(rows)} rows over {sorted(seen)}: each kind writes the report to its documented destination",
            f"{bad}: failures are not reported on the configured error channel", where=b.loc(), sample={'rows': len(rows), 'kinds': seen})
    # the reporters
    for fn, need in (('util::eprint_err', ('msg', 'err')), ('util::eprint_msg', ('msg',))):
        rb = ctx.body('^' + fn + '$')
        names = [rb.locals[i].get('name') for i in range(1, rb.arg_count + 1)]
        want = [n for n in names if n in need]
        if len(want) != len(need):      # parameters renamed: text-like parameters by type
            want = [names[i - 1] for i in range(1, rb.arg_count + 1) if re.search(r'^&(str|dyn std::error::Error|std::string::String)', rb.locals[i]['ty'])]
        rws = FDI(f, effects=[r'^util::try_writing_to_error_channel$']).run(rb.path)
        bad2 = None
        for r in rws:
            if r.undecided:
                raise CheckError(f"R19.7: {fn} undecided: {r.undecided}")
            calls = [e for e in r.effects if e[0] == 'util::try_writing_to_error_channel']
            if len(calls) != 1:
                bad2 = f"{fn} hands its text to the error channel {len(calls)} times on some path (documented: every failure is reported, once)"
                break
            ins = set()
            for x in calls[0][2]['x']:
                ins |= inputs_in(x)
            lost = [w for w in want if w not in ins]
            if lost:
                bad2 = f"{fn}: the text written to the error channel does not contain the parameter(s) {lost}: the report does not say what failed / why"
                break
        R.check('R19.7', f"{fn}|passes-text-on", not bad2 and len(want) >= len(need), f"{len(rws)} rows: one report containing {want}", f"{bad2}", where=rb.loc())
    # the configured channel is the one installed: set_error_channel stores its parameter; Logger::build passes its own field
    sb = ctx.body(r'^util::set_error_channel$')
    stores = 0
    for bb in sorted(sb.normal_blocks()):
        for s in sb.blocks[bb]['stmts']:
            if s['k'] == 'assign' and s['place']['p'] and s['place']['p'][-1]['k'] == 'deref' and s['rv']['k'] == 'use' and \
               s['rv']['op']['k'] in ('move', 'copy') and 'ErrorChannel' in sb.local_ty(s['place']['l']) and _roots(sb, s['rv']['op']['place']) == {1}:
                stores += 1
        t = sb.blocks[bb]['term']
        if t['k'] == 'call' and re.search(r'^std::mem::(replace|swap)', callee_name(t)) and any(a['k'] in ('move', 'copy') and a['place']['l'] == 1 for a in t['args']):
            stores += 1
    if not stores:
        raise CheckError("R19.7: set_error_channel: no store of the parameter into the channel found (form not recognised)")
    callers = [(x, bb) for x in f.fn_bodies() for bb, t in x.calls() if callee_name(t) == 'util::set_error_channel']
    okc = 0
    badc = None
    for x, bb in callers:
        a = x.blocks[bb]['term']['args'][0]
        flds = _arg_fields(x, bb, a)
        if any('error_channel' in fl_ for fl_ in flds):
            okc += 1
        else:
            badc = f"{x.path} installs an error channel that is not the configured one (argument derives from {sorted(flds) or 'no field of the builder'})"
    R.check('R19.7', "set_error_channel|configured", callers and not badc, f"{okc} call site(s) pass the builder's error_channel field", f"{badc or 'set_error_channel is never called'}",
            where=sb.loc())


def _arg_fields(b, bb, a):
    """field names of `self` (local 1) that flow into operand a at block bb (moves/copies within the body, field-sensitive one level)"""
    if a['k'] not in ('move', 'copy'):
        return set()
    out = set()
    _roots(b, a['place'], out)
    return out


def _roots(b, place, fields_of_self=None):
    """parameters (local numbers) a place's value is moved / copied / borrowed / cloned from, through temporaries of the body"""
    roots = set()
    work = [place]
    seen = set()
    while work:
        pl = work.pop()
        key = (pl['l'], tuple(e.get('name') or e['k'] for e in pl['p']))
        if key in seen:
            continue
        seen.add(key)
        if 1 <= pl['l'] <= b.arg_count:
            roots.add(pl['l'])
            if pl['l'] == 1 and fields_of_self is not None:
                fields_of_self |= {e['name'] for e in pl['p'] if e['k'] == 'field' and e.get('name')}
            continue
        for i in b.normal_blocks():
            for s in b.blocks[i]['stmts']:
                if s['k'] == 'assign' and s['place']['l'] == pl['l'] and not s['place']['p']:
                    rv = s['rv']
                    if rv['k'] == 'use' and rv['op']['k'] in ('move', 'copy'):
                        work.append(rv['op']['place'])
                    elif rv['k'] == 'ref':
                        work.append(rv['place'])
            t = b.blocks[i]['term']
            if t['k'] == 'call' and t['dest']['l'] == pl['l'] and re.search(r'clone$|take$|replace$', callee_name(t)):
                for x in t['args']:
                    if x['k'] in ('move', 'copy'):
                        work.append(x['place'])
    return roots
