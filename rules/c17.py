"""C17 — specification text forms round-trip; parsing reports exactly the malformed parts."""
from rulelib import *
from facts import op_str, const_repr
from report import CheckError
from fdi import FDI, Const, Agg, Sym, Ref
import panics as P

EXPLANATION = ("R17.1 writer and reader tables agree: the lower-cased Display name of every LevelFilter variant is accepted by parse_level_filter and maps "
               "back to the same variant (evaluated on the constants, case-insensitively; anything else is an error); both renderers lower-case "
               "LevelFilter's Display; the literals the Display form emits between names and levels consist only of the parser's delimiters and "
               "blanks; the TOML keys written by to_toml_impl are fields of the Deserialize struct of from_toml; both renderers take the default "
               "(nameless) entry from the END of the sorted filter vector, where level_sort puts it, and list every named entry; R17.2 no may-panic "
               "site reachable from parse / from_toml / to_toml / Display / TryFrom other than the is_empty-guarded index; R17.3 parse returns Ok only "
               "on the `no error text` edge and Err(Parse(text, spec)) otherwise; a segment that produced an error text is never pushed to the result. R17.1 also (rows): every entry with a module name is written on every path, whatever else the path examines."
               " R17.1 also (rows of parse): every pushed level is the result of parse_level_filter or the documented `all levels` of a bare name; every stored module name is a piece of the input (split / trim / copy only)."
               " R17.4 (features specfile*): synchronize_subscriber_with_specfile only reads an existing file and activates from_toml of its content; a missing file is created with create_new and receives to_toml(initial specification); nothing is activated in that case."
               " R17.5 LogSpecBuilder, the programmatic twin of the text form: default / module / remove perform exactly one map operation on the documented key with the given level; insert_modules_from / from_module_filters insert every given filter with its own name and level.")
ASSUMPTIONS = ["Display of log::LevelFilter prints OFF/ERROR/WARN/INFO/DEBUG/TRACE (log crate)", "toml and regex crates"]
NOT_DECIDED = ["semantic equivalence of the re-parsed specification for all specifications and strings", "what counts as malformed", "toml/regex behaviour"]
FLOORS = {'R17.1': 12, 'R17.2': 1, 'R17.3': 3}

LEVEL_NAMES = {'Off': 'OFF', 'Error': 'ERROR', 'Warn': 'WARN', 'Info': 'INFO', 'Debug': 'DEBUG', 'Trace': 'TRACE'}


def m_lower(I, st, fr, t, args, name):
    v = args[0]
    if isinstance(v, Ref):
        v = I.read_cell_path(st, v.cell, v.proj)
    return Const(v.v.lower()) if isinstance(v, Const) and isinstance(v.v, str) else NotImplemented


def specfile_sync(R, ctx, rule='R17.4'):
    """start_with_specfile: decision rows of synchronize_subscriber_with_specfile.  An existing file is only READ and the specification activated is
    from_toml(<content of that very file>); a missing file is created with create_new (never truncating an existing file), its content is
    to_toml(<the subscriber's initial specification>) and no specification is activated; a wrong extension touches nothing."""
    f = ctx.f
    b = ctx.opt_body(r'^logger::synchronize_subscriber_with_specfile$')
    if b is None:
        return
    EFF = [r'LogSpecSubscriber::(set_new_spec|initial_spec)$', r'LogSpecification::(from_toml|to_toml)$', r'log_spec_string_from_file$', r'OpenOptions::\w+$',
           r'DirBuilder::create$', r'^std::fs::(write|remove_file|rename|File::create|copy)$']
    bad = None
    n_read = n_create = 0
    for r in FDI(f, effects=EFF, no_inline=EFF, max_rows=4000).run(b.path):
        if r.undecided:
            raise CheckError(f"{rule}: synchronize_subscriber_with_specfile UNDECIDED {r.undecided}")
        names = [e[0].split('::')[-1] for e in r.effects]
        res = repr(r.result).replace('$', '')
        # Ok(..), or the result of the last step handed on (`subscriber.set_new_spec(spec)` / `spec.to_toml(&mut file)` as tail expression)
        ok = res.startswith('Result::Ok') or bool(re.search(r'(set_new_spec|to_toml)#\d+$', res))
        isf = next((v for a, v in r.cond if 'Path::is_file(' in a), None)
        if isf is None:
            if r.effects and not ok:
                bad = f"effects {names} before the file's existence was examined"
            continue
        sets = [e for e in r.effects if e[0].endswith('set_new_spec')]
        opens = [e for e in r.effects if e[0].endswith('OpenOptions::open')]
        wr = [e for e in r.effects if re.search(r'to_toml$|^std::fs::(write|remove_file|rename|File::create|copy)$', e[0])]
        if isf is True:
            if opens or wr:
                bad = f"an existing specfile is opened for writing / written ({names})"
            if ok:
                n_read += 1
                if len(sets) != 1:
                    bad = f"existing specfile: {len(sets)} specifications activated on a successful path"
            for e in sets:
                src = r.long(e[1][1])
                if 'from_toml#' not in src or 'log_spec_string_from_file#' not in r.long(src) or 'specfile' not in r.long(src):
                    bad = f"the specification activated is `{src[:80]}`, not from_toml(content of the given specfile)"
        else:
            if sets:
                bad = "a specification is activated although the specfile did not exist (the initial specification is what is written, nothing is read)"
            flags = {e[0].split('::')[-1]: e[1][1] for e in r.effects if re.search(r'OpenOptions::(write|create_new|create|truncate|append|read)$', e[0])}
            for e in opens:
                if flags.get('create_new') != 'True' or flags.get('write') != 'True' or flags.get('truncate') == 'True' or flags.get('create') == 'True':
                    bad = f"the new specfile is opened with {flags}: only create_new guarantees that a file which appeared meanwhile is not overwritten"
                if 'specfile' not in e[1][1]:
                    bad = f"the file created is `{e[1][1][:60]}`, not the given specfile"
            if ok:
                n_create += 1
                tt = [e for e in r.effects if e[0].endswith('to_toml')]
                if len(tt) != 1 or 'initial_spec#' not in tt[0][1][0] or 'OpenOptions::open#' not in tt[0][1][1]:
                    bad = f"the content written is not to_toml(initial specification) into the file just created ({[x[1] for x in tt]})"
    if not bad and (n_read < 1 or n_create < 1):
        raise CheckError(f"{rule}: form of synchronize_subscriber_with_specfile not recognised (read rows {n_read}, create rows {n_create})")
    R.check(rule, f"{b.path}|read-or-create", not bad, f"{n_read} read rows activate from_toml(file content); {n_create} create rows write to_toml(initial spec) with create_new",
            f"synchronize_subscriber_with_specfile: {bad}", where=b.loc())


def spec_builder(R, ctx, rule='R17.5'):
    """LogSpecBuilder is the programmatic twin of the text form: each method performs exactly the documented map operation - default(lf) sets the entry
    without a module name, module(m, lf) the entry named m, remove(m) deletes that entry and nothing else, insert_modules_from / from_module_filters copy
    EVERY given filter with its own name and level - so that a specification built in code decides like the text it renders to."""
    f = ctx.f
    EFF = [r'HashMap::<K, V, S, A>::(insert|remove|entry|clear|retain|extend)$']
    NEXT = r'as std::iter::Iterator>::next$'
    OR = {'new': ('insert', r'^Option::None$', r'^LevelFilter::Off$'), 'default': ('insert', r'^Option::None$', r'^lf$'),
          'module': ('insert', r'^Option::Some\(.*module_name.*\)$', r'^lf$'), 'remove': ('remove', r'^&?Option::Some\(.*module_name.*\)$', None)}
    n = 0
    for name, (op, key_rx, val_rx) in sorted(OR.items()):
        b = ctx.body(r'^log_specification::LogSpecBuilder::' + name + '$')
        bad = None
        for r in FDI(f, effects=EFF, max_rows=200).run(b.path):
            if r.undecided:
                raise CheckError(f"{rule}: LogSpecBuilder::{name} UNDECIDED {r.undecided}")
            ops = [(e[0].split('::')[-1], [x.replace('$', '') for x in e[1]]) for e in r.effects]
            if len(ops) != 1 or ops[0][0] != op:
                bad = f"performs {[o[0] for o in ops]} on the filter map instead of one {op}"
            elif not re.search(key_rx, ops[0][1][1]) or (val_rx and not re.search(val_rx, ops[0][1][2])):
                bad = f"{op}s `{ops[0][1][1][:50]}`" + (f" -> `{ops[0][1][2][:30]}`" if val_rx else '') + " instead of the documented entry"
        n += 1
        R.check(rule, f"{b.path}|map-operation", not bad, f"one {op} of the documented key", f"LogSpecBuilder::{name} {bad}", where=b.loc())
    for name, src in (('insert_modules_from', 'other'), ('from_module_filters', 'module_filters')):
        b = ctx.body(r'^log_specification::LogSpecBuilder::' + name + '$')
        bad = None
        lens = set()
        for r in FDI(f, effects=EFF + [NEXT], max_rows=400, loop_k=2).run(b.path):
            if r.undecided:
                raise CheckError(f"{rule}: LogSpecBuilder::{name} UNDECIDED {r.undecided}")
            nx = [e for e in r.effects if e[0].split('::')[-1] == 'next']
            some = [e for e in nx if r.get(f"variant({e[0]}#{e[2].get('n')})") == 'Some']
            ins = [e for e in r.effects if e[0].endswith('::insert')]
            oth = [e for e in r.effects if re.search(EFF[0], e[0]) and not e[0].endswith('::insert')]
            if nx and r.get(f"variant({nx[-1][0]}#{nx[-1][2].get('n')})") != 'None':
                bad = "stops before the given filters are exhausted"
            elif len(ins) != len(some) or oth:
                bad = f"{len(some)} filters given, {len(ins)} inserted" + (f", also {oth[0][0].split('::')[-1]}" if oth else '')
            else:
                for e_s, e_i in zip(some, ins):
                    k = f"next#{e_s[2].get('n')}"
                    key, val = r.long(e_i[1][1]), r.long(e_i[1][2])
                    if k not in key or 'module_name' not in key or k not in val or 'level_filter' not in val:
                        bad = f"inserts `{key[-50:]}` -> `{val[-40:]}`, not the name and level of the filter just read"
            lens.add(len(some))
        if not bad and not {0, 1, 2} <= lens:
            raise CheckError(f"{rule}: LogSpecBuilder::{name}: loop not recognised ({sorted(lens)})")
        n += 1
        R.check(rule, f"{b.path}|copies-every-filter", not bad, "every given filter is inserted with its own name and level", f"LogSpecBuilder::{name} {bad}", where=b.loc())


def run(R, ctx):
    R.rule('R17.5', 'TABLE(LogSpecBuilder methods): one documented map operation each; bulk methods copy every filter')
    spec_builder(R, ctx)
    R.rule('R17.4', 'TABLE(start with a specfile): existing file read and activated, missing file created with the initial specification')
    specfile_sync(R, ctx)
    f, cg = ctx.f, ctx.cg
    R.rule('R17.1', 'CONST-AGREE(renderer tables, parser tables)')
    R.rule('R17.2', 'MAY-PANIC-INVENTORY restricted to the text forms')
    R.rule('R17.3', 'parse: Ok iff no error text; erroneous segments are not pushed')
    level_table(R, ctx)
    renderers(R, ctx)
    panics(R, ctx)
    parse_shape(R, ctx)


def level_table(R, ctx):
    f = ctx.f
    b = ctx.body(r'^log_specification::parse_level_filter$')
    for variant, disp in LEVEL_NAMES.items():
        for text in (disp.lower(), disp, disp.capitalize()):
            rows = FDI(f, models={r'::str::<impl str>::to_lowercase$': m_lower}).run(b.path, args=[Const(text, '&str')])
            got = {repr(r.result) for r in rows}
            und = [r.undecided for r in rows if r.undecided]
            key = f"parse_level_filter|{text}"
            if und:
                R.bad('R17.1', key, f"UNDECIDED {und[0]}", where=b.loc())
                continue
            R.check('R17.1', key, got == {f"Result::Ok(LevelFilter::{variant})"}, f"-> {variant}",
                    f"parse_level_filter({text!r}) = {sorted(got)}; the renderers write `{disp.lower()}` for LevelFilter::{variant}, so the round trip changes (or rejects) the level", where=b.loc(),
                    sample={'text': text, 'variant': variant})
    for text in ('verbose', '', 'warning', '1'):
        rows = FDI(f, models={r'::str::<impl str>::to_lowercase$': m_lower}).run(b.path, args=[Const(text, '&str')])
        ok = all(isinstance(r.result, Agg) and r.result.variant == 'Err' for r in rows) and rows
        R.check('R17.1', f"parse_level_filter|reject:{text!r}", bool(ok), "-> Err", f"parse_level_filter({text!r}) is accepted", where=b.loc())


def printable_runs(bs):
    out, cur = [], ''
    for x in bs:
        if 32 <= x < 127:
            cur += chr(x)
        else:
            if cur:
                out.append(cur)
            cur = ''
    if cur:
        out.append(cur)
    return out


def body_byte_consts(b):
    """byte/str constants used in a body (operands of statements and calls)"""
    out = []

    def visit(op):
        if isinstance(op, dict) and op.get('k') == 'const' and op.get('val'):
            v = op['val']
            if v['k'] == 'bytes':
                out.append(bytes(v['v']))
            elif v['k'] == 'str':
                out.append(v['v'].encode())
    for blk in b.blocks:
        for s in blk['stmts']:
            if s['k'] == 'assign':
                rv = s['rv']
                for k_ in ('op', 'a', 'b'):
                    if k_ in rv:
                        visit(rv[k_])
                for o in rv.get('ops', []):
                    visit(o)
        t = blk['term']
        if t['k'] == 'call':
            for a in t['args']:
                visit(a)
    return out


def renderers(R, ctx):
    f, cg = ctx.f, ctx.cg
    disp = ctx.body(r'^<log_specification::LogSpecification as std::fmt::Display>::fmt$')
    tom = ctx.opt_body(r'^log_specification::LogSpecification::to_toml_impl$')
    for b in [x for x in (disp, tom) if x is not None]:
        names = [callee_name(t) for bb, t in b.calls()]
        # levels are rendered as lower-cased Display of LevelFilter
        ts = [t for bb, t in b.calls() if callee_name(t).endswith('ToString>::to_string') and 'log::LevelFilter' in ' '.join(t['callee'].get('targs', []))]
        lows = [t for bb, t in b.calls() if re.search(r'::str::<impl str>::to_lowercase$', callee_name(t))]
        R.check('R17.1', f"{b.path}|levels-lowercased", len(ts) >= 1 and len(lows) == len(ts), f"{len(ts)} level renderings, each lower-cased",
                f"{b.path} renders {len(ts)} levels but lower-cases {len(lows)}: the parser's table is lower case", where=b.loc())
        # default entry taken from the end of the sorted vector
        lasts = [bb for bb, t in b.calls() if callee_name(t) == 'core::slice::<impl [T]>::last']
        firsts = [bb for bb, t in b.calls() if re.search(r'core::slice::<impl \[T\]>::(first|get)$', callee_name(t))]
        R.check('R17.1', f"{b.path}|default-entry-is-last", len(lasts) == 1 and not firsts, "the nameless entry is looked up with slice::last()",
                f"{b.path} does not take the default (nameless) entry from the end of the filter vector (level_sort puts it last: name length 0): for a specification with a default "
                "AND module filters the default level is lost in the text form", where=b.loc())
        # every named entry is written: an iterator loop over module_filters with a write inside
        loops = [l for l in P.loops_of(b) if any(re.search(r'Iterator>::next$', c) for c in l['callees'])]
        wr = any(any(re.search(r'write_fmt$|write_all$|write_str$', c) for c in l['callees']) for l in loops)
        R.check('R17.1', f"{b.path}|all-named-entries", bool(loops) and wr, "loop over the filters writing each named entry", f"{b.path} does not write every named entry", where=b.loc())
        # ... decided on the decision rows: whatever else a row examines (e.g. the entry's level), an entry WITH a name is followed by a write
        # before the next entry is fetched, unless a write failed.  (A nested filter `foo::bar = info` under `foo = trace` is not
        # redundant although its level equals the default: dropping it changes the decisions of the re-parsed specification.)
        import c04 as _c04
        WR = r'write_fmt$|write_all$|write_str$'
        NEXT = r'Iterator>::next$'
        try:
            rows, _I = _c04.rows_of(ctx, b.path, [WR, NEXT], k=2)
        except Exception as e:
            raise CheckError(f"R17.1 {b.path}: {type(e).__name__} {e}")
        bad, nn = None, 0
        for r in rows:
            if r.undecided:
                raise CheckError(f"R17.1 {b.path}: UNDECIDED {r.undecided}")
            if isinstance(r.result, Agg) and r.result.variant == 'Err':
                continue
            nexts = [i for i, e in enumerate(r.effects) if re.search(NEXT, e[0])]
            for j, ei in enumerate(nexts):
                tok = f"next#{ei + 1}"
                named = [v for a, v in r.cond if a.startswith('variant(') and re.search(re.escape(tok) + r'(\.0)?\.\w+\)$', a)]
                if named != ['Some']:
                    continue
                seg = r.effects[ei + 1:(nexts[j + 1] if j + 1 < len(nexts) else len(r.effects))]
                nn += 1
                if not any(re.search(WR, e[0]) for e in seg):
                    others = [f"{a}={v}" for a, v in r.cond if tok in a and not a.startswith('variant(')][:3]
                    bad = f"an entry with a module name is skipped (nothing is written for it) when {others or 'some condition holds'}"
        if nn < 2:
            raise CheckError(f"R17.1 {b.path}: named entries not recognised on the rows ({nn})")
        R.check('R17.1', f"{b.path}|every-named-entry-on-every-path", not bad, f"{nn} named entries on the rows, each written",
                f"{b.path}: {bad}: the text form no longer describes the specification (re-parsing it gives different decisions, e.g. for a nested module whose level equals the default)",
                where=b.loc())
    # delimiters of the Display form
    consts = body_byte_consts(disp)
    lit = ''.join(''.join(printable_runs(c)) for c in consts)
    stray = sorted(set(ch for ch in lit if ch not in ' ,='))
    R.check('R17.1', f"{disp.path}|delimiters", not stray and ',' in lit and '=' in lit, "literals between names and levels consist of `,`, `=` and blanks",
            f"the Display form of LogSpecification emits {stray} between names and levels: LogSpecification::parse splits on `,` and `=` and trims blanks only", where=disp.loc(),
            sample={'literal_characters': sorted(set(lit))})
    # TOML keys
    if tom is not None:
        adt = next((a for pth, a in f.adts.items() if pth.endswith('from_toml::LogSpecFileFormat')), None)
        fields = [fd['name'] for fd in adt['variants'][0]['fields']] if adt else []
        text = b' '.join(body_byte_consts(tom)).decode('latin1')
        keys = set(re.findall(r'(?m)^#?([a-z_]+) = ', text)) | set(re.findall(r'\[([a-z_]+)\]', text)) | set(re.findall(r'(?<![#\w\'])([a-z_]+) = \'', ''.join(printable_runs(text.encode('latin1')))))
        keys = {k for k in keys if k not in ('mod', 'warn', 'debug', 'trace', 'info')}
        R.check('R17.1', 'toml-keys', bool(fields) and keys and keys <= set(fields) and {'global_level', 'modules'} <= keys,
                f"keys written {sorted(keys)} are fields of the Deserialize struct {fields}",
                f"to_toml writes the keys {sorted(keys)}, from_toml reads {fields}: the specfile written at the first start is not understood at the next", where=tom.loc())
        fb = ctx.body(r'^log_specification::LogSpecification::from_toml$')
        pl = [t for bb, t in fb.calls() if callee_name(t).endswith('parse_level_filter')]
        R.check('R17.1', 'from_toml|levels-through-parse_level_filter', len(pl) >= 2, "global_level and module levels go through parse_level_filter",
                "from_toml does not parse its levels with parse_level_filter", where=fb.loc())


def panics(R, ctx):
    f, cg = ctx.f, ctx.cg
    entries = [p for p in f.bodies if re.search(r'^log_specification::LogSpecification::(parse|from_toml|to_toml|env|env_or_parse)$|LogSpecification as std::fmt::Display>::fmt$|'
                                                 r'TryFrom<.*> for log_specification::LogSpecification>::try_from$|for log_specification::LogSpecification>::from$', p)
               and f.bodies[p].promoted is None]
    reach = cg.reachable(entries, spawn=False)
    n = 0
    for p in sorted(reach):
        b = f.bodies[p]
        if b.promoted is not None or not p.startswith(('log_specification::', '<log_specification', '<std::vec::Vec<log_specification', '<std::collections::HashMap')):
            continue
        for s in P.sites_of(b):
            if s['kind'] == 'assert' and s['what'].startswith('other:'):
                continue
            n += 1
            guarded = False
            if s['kind'] == 'index' and p.endswith('to_toml_impl'):
                # dominated by a block reached only when module_filters.is_empty() is false
                empt = [bb for bb, t in b.calls() if callee_name(t).endswith('Vec::<T, A>::is_empty')]
                guarded = any(C.dominates(b, e, s['bb']) for e in empt)
            R.check('R17.2', f"{p}|{s['kind']}|{s['what']}", guarded, "guarded by the is_empty() test",
                    f"may-panic construct in the specification text forms: {s['kind']} ({s['what']}) in {p} - parsing/rendering must never panic", where=b.loc(s['bb']))
    R.ok('R17.2', 'inventory', f"{len(reach)} bodies reachable from the text-form entries, {n} may-panic constructs (all guarded)", sample={'entries': entries})


def _splits_at(x, ch):
    """the iterator (possibly advanced: havoc wrappers) is `<text>.split(ch)`"""
    import table as T
    for t in T.subterms(x):
        if len(t) == 3 and t[0] == 'call' and re.search(r'str>?::split$', t[1]) and len(t[2]) >= 2 and T.strip_refs(t[2][1]) == ('const', ch):
            # the outermost split call decides (an inner one is the text being split)
            return True
        if len(t) == 3 and t[0] == 'call' and re.search(r'str>?::split$', t[1]):
            return False
    return False


def parse_shape(R, ctx):
    """decided on the decision rows of parse() (helpers inlined, so an extracted per-segment helper is the same computation)"""
    f, cg = ctx.f, ctx.cg
    b = ctx.body(r'^log_specification::LogSpecification::parse$')
    # std-level effects: an error is recorded by appending to the error text (String::push_str), whatever private helper or
    # newtype wraps it; a module filter is accepted by Vec::push; the private helpers are inlined
    PUSHSTR = r'^std::string::String::(push_str|push)$|as std::fmt::Write>::write_str$'
    NI = [r'parse_level_filter$', r'level_sort$|sort_by_descending_name_length$', r'util::eprint_']
    EFF = [PUSHSTR, r'parse_level_filter$', r'Vec::<T, A>::push$', r'as std::iter::Iterator>::next$']
    I = FDI(f, effects=EFF, no_inline=NI, no_models=[r'Iterator>?::any$'], loop_k=ctx.k(1, 2), max_steps=80000, max_rows=80000)
    rows = I.run(b.path, arg_names=['spec'])
    import table as T
    bad_ok = bad_push = bad_ws = bad_lvl = bad_name = bad_all = bad_slash = None
    n_ok = n_err = n_errseg = n_ws = n_lvl = n_all = n_slash = 0
    for r in rows:
        if r.undecided:
            raise CheckError(f"R17.3 parse table UNDECIDED: {r.undecided}")
        # (a) Ok only when the collected error text is empty (the last emptiness test of a String on the row decides)
        empt = [(r.long(a), v) for a, v in r.cond if re.match(r'^std::string::String::is_empty\(', a)]
        errs_empty = empt[-1][1] if empt else None
        is_ok = isinstance(r.result, Agg) and r.result.variant == 'Ok'
        is_err = (isinstance(r.result, Agg) and r.result.variant == 'Err') or (isinstance(r.result, Sym) and 'parse_err' in r.result.n)
        if is_ok:
            n_ok += 1
            if errs_empty is not True:
                bad_ok = "parse returns Ok on a path that does not test the collected error text for emptiness"
        elif is_err:
            n_err += 1
        # (b) per comma-separated segment: an error recorded -> nothing pushed
        seg = None
        segs = []
        for i, e in enumerate(r.effects):
            nm = e[0].split('::')[-1]
            if nm == 'next' and _splits_at(e[2]['x'][0], ','):
                seg = {'err': False, 'push': False}
                segs.append(seg)
            elif seg is not None:
                if re.search(PUSHSTR, e[0]):
                    seg['err'] = True
                elif nm == 'push' and 'ModuleFilter' in (r.long(e[1][1]) + ' '.join(map(str, e[2]['x']))):
                    seg['push'] = True
        # (c) the level of every module filter that is pushed comes from the ONE recogniser whose table R17.1 decides (parse_level_filter: six
        # words incl. off, any case), or is the documented `all levels` of a name given without a level; any other recogniser (log::Level has
        # no Off) makes the rendered text of a specification parse to something else
        for e in r.effects:
            if e[0].split('::')[-1] == 'push' and len(e[2]['x']) > 1:
                for t in T.subterms(e[2]['x'][1]):
                    if len(t) == 4 and t[0] == 'agg' and 'ModuleFilter' in str(t[1]) and len(t[3]) >= 2:
                        adt = f.adts.get(t[1]) or {}
                        fl = [x['name'] for v_ in adt.get('variants', [])[:1] for x in v_['fields']]
                        li = fl.index('level_filter') if 'level_filter' in fl else 1
                        lx = t[3][li]
                        n_lvl += 1
                        # (d) the stored module name is a piece of the input text (split / trim / copy only): names are matched against record
                        # targets by prefix, so any rewriting (case, separators, quoting) makes the specification decide differently from its text
                        ni_ = fl.index('module_name') if 'module_name' in fl else 0
                        ncalls = {q[1] for q in T.subterms(t[3][ni_]) if len(q) >= 3 and q[0] in ('call', 'eff') and isinstance(q[1], str)}
                        NAME_OK = r"::(split|splitn|split_once|rsplit_once|split_terminator|trim|trim_start|trim_end|to_string|to_owned|into|from|clone|next|as_ref|as_str|borrow|deref|map|unwrap_or|filter|then|then_some|is_empty|not|nth|get|strip_prefix|strip_suffix)$"
                        odd = sorted(c_ for c_ in ncalls if not re.search(NAME_OK, c_.split('<')[0] if False else c_))
                        if odd:
                            if any(re.search(r'replace|to_lowercase|to_uppercase|to_ascii|make_ascii|escape|chars|char_indices|bytes|format|push|concat|join|repeat', o) for o in odd):
                                bad_name = f"the module name that is stored is rewritten by {odd[0]}: it is no longer the text the user gave (prefix matching against the record's target decides differently)"
                            else:
                                raise CheckError(f"R17.1: derivation of a stored module name not recognised: {odd}")
                        via = any(len(q) >= 3 and q[0] == 'eff' and re.search(r'parse_level_filter$', str(q[1])) for q in T.subterms(lx))
                        allv = T.strip_refs(lx) in (('call', 'log::LevelFilter::max', ()),) or T.strip_refs(lx) == ('const', 'log::LevelFilter::Trace')
                        if not via and not allv:
                            other = [q[1] for q in T.subterms(lx) if len(q) >= 3 and q[0] in ('call', 'eff') and isinstance(q[1], str)]
                            if any(re.search(r'to_level_filter|FromStr|str>::parse|from_str|from_usize', o) for o in other):
                                bad_lvl = f"a level is recognised by {[o for o in other if re.search(r'to_level_filter|FromStr|parse|from_str|from_usize', o)][0]} instead of parse_level_filter: " \
                                          "the words the renderer writes (incl. `off`) are not all understood, so Display/TOML text does not parse back to the same specification"
                            else:
                                raise CheckError(f"R17.1: origin of a pushed level not recognised: {repr(lx)[:200]}")
        # (f) structure: a '/'-separated segment beyond the module part and the text filter (with feature textfilter: a third one) makes the whole text malformed - whatever that segment contains: the row ends in the error
        # result and nothing of the text is applied (a tolerated `info/foo/` would silently drop whatever follows the second '/')
        sl = [e for e in r.effects if e[0].split('::')[-1] == 'next' and _splits_at(e[2]['x'][0], '/')]
        si = 2 if ctx.has('textfilter') else 1       # without the textfilter feature there is no filter segment: the second segment is the surplus one
        if len(sl) > si and r.get(f"variant({sl[si][0]}#{sl[si][2].get('n')})") == 'Some':
            n_slash += 1
            # a row that recorded an error text and then finds the collected text empty is infeasible (helpers that turn `collected errors` into the
            # result fork on is_empty(); the text pushed is never empty)
            if not is_err and any(re.search(PUSHSTR, e[0]) for e in r.effects):
                continue
            if not is_err or any(e[0].split('::')[-1] == 'push' and 'ModuleFilter' in (r.long(e[1][1]) if len(e[1]) > 1 else '') for e in r.effects):
                bad_slash = ("a text with more than two '/'-separated segments is accepted on some path (the outcome depends on what the surplus segment contains): "
                             "malformed input is not reported and the rest of the text is silently dropped")
        # (e) every part is examined: the loop over the comma-separated parts ends only when the split iterator itself is exhausted - a truncating
        # adaptor (take_while / map_while), a `break` or an early return on some part leaves the rest of the text unexamined: module filters
        # behind it are silently missing and malformed parts behind it are not reported
        cn = [e for e in r.effects if e[0].split('::')[-1] == 'next' and _splits_at(e[2]['x'][0], ',')]
        if cn and (is_ok or is_err):
            n_all += 1
            if r.get(f"variant({cn[-1][0]}#{cn[-1][2].get('n')})") != 'None':
                bad_all = ("the loop over the comma-separated parts ends before the parts are exhausted (truncating adaptor, break or early return on some part): "
                           "the rest of the specification text is neither applied nor reported as malformed")
        # the last segment header (next() == None) is followed by the text-filter part: not a segment
        for sg in segs[:-1] if segs else []:
            if sg['err']:
                n_errseg += 1
                if sg['push']:
                    bad_push = "a segment that produced an error text (invalid level / whitespace in the name / malformed part) is still pushed to the result"
        n_ws += sum(1 for a, v in r.cond if re.search(r'is_whitespace', a) and v is True)
        # the notion of whitespace must be the one str::trim uses (char::is_whitespace): a narrower test (ASCII only, bytes) lets a
        # name with interior Unicode whitespace pass as well-formed although trimming treats that character as whitespace
        for a, v in r.cond:
            if re.search(r'is_ascii_whitespace|u8>::is_ascii_whitespace|\bbytes\(', a) and re.search(r'whitespace', a):
                bad_ws = f"a name is tested for whitespace with {a[:120]}: narrower than str::trim's Unicode whitespace, so `foo\\u{{a0}}bar=debug` is accepted as a module filter without an error"
    if not bad_lvl and n_lvl < 2:
        raise CheckError(f"R17.1: pushed module filters not recognised on the rows of parse ({n_lvl})")
    R.check('R17.1', f"{b.path}|levels-through-parse_level_filter", not bad_lvl, f"{n_lvl} pushed levels: each the result of parse_level_filter or `all levels` for a bare name",
            f"LogSpecification::parse: {bad_lvl}", where=b.loc())
    R.check('R17.1', f"{b.path}|names-verbatim", not bad_name, "stored module names are pieces of the input (split / trim / copy only)", f"LogSpecification::parse: {bad_name}", where=b.loc())
    R.check('R17.3', f"{b.path}|whitespace-notion", not bad_ws, "names are tested with char::is_whitespace (the notion str::trim uses)", f"LogSpecification::parse: {bad_ws}", where=b.loc())
    if not (bad_ok or bad_push or bad_ws) and (n_ok < 2 or n_err < 2 or n_errseg < 2 or n_ws < 1):
        raise CheckError(f"R17.3: form of parse not recognised (ok rows {n_ok}, error rows {n_err}, erroneous segments {n_errseg}, whitespace cases {n_ws})")
    R.check('R17.3', f"{b.path}|ok-iff-no-error-text", not bad_ok, f"{n_ok} Ok rows all behind parse_errs.is_empty(); {n_err} rows return parse_err(text, spec)",
            f"LogSpecification::parse can return Ok although an error text was collected: {bad_ok}", where=b.loc(), sample={'rows': len(rows)})
    if not bad_slash and n_slash < 1:
        raise CheckError("R17.3: the test for surplus '/'-separated segments was not found on the rows of parse")
    R.check('R17.3', f"{b.path}|surplus-slash-segments-are-an-error", not bad_slash, f"{n_slash} rows with a third '/'-segment: all end in the error result, nothing applied",
            f"LogSpecification::parse: {bad_slash}", where=b.loc())
    if not bad_all and n_all < 4:
        raise CheckError(f"R17.3: loop over the comma-separated parts not recognised ({n_all} rows)")
    R.check('R17.3', f"{b.path}|every-part-examined", not bad_all, f"{n_all} rows: the part loop ends only when split(',') is exhausted", f"LogSpecification::parse: {bad_all}", where=b.loc())
    R.check('R17.3', f"{b.path}|erroneous-segments-not-pushed", not bad_push, f"{n_errseg} erroneous segments on {len(rows)} rows: none pushed",
            f"LogSpecification::parse: {bad_push}", where=b.loc())
    # the error value carries the error text and the salvaged specification: Err(FlexiLoggerError::Parse(..)) is built in code parse() reaches
    reach = cg.reachable([b.path], spawn=False)
    sites = [(b2, bb) for (b2, bb, s_) in aggregate_sites(f, r'FlexiLoggerError$', 'Parse') if b2.path in reach or root_fn(b2.path) in reach]
    R.check('R17.3', 'parse-error-value', bool(sites), "Err(FlexiLoggerError::Parse(errors, spec)) built on the error path of parse",
            "parse() no longer builds FlexiLoggerError::Parse(errors, spec) for a malformed specification", where=b.loc())
