"""C03 — concurrent logging keeps every line intact, exactly once, in per-thread order."""
from rulelib import *
from report import CheckError
from fdi import FDI, Const, Agg, Sym, Ref
import table as T
import c01, c04

EXPLANATION = ("Decides the premises from which the property follows for every schedule (critical sections are totally ordered, each emits one "
               "complete line, emission completes before log() returns, channels are FIFO per sender with one consumer): R03.1 no unsafe code, no "
               "static mut; R03.2 per record exactly one emission of the complete line (format -> one line ending -> one write_buffer / send / "
               "write_all of the whole buffer) in every emitting body of the file and std writers, the thread-local buffer empty again at exit, the "
               "recursion arm using a fresh buffer; the state is only reachable through its Mutex guard (type system + R03.1); R03.3 one send per "
               "record, the receiver moved into exactly one spawned closure and never cloned, each data message written by one call; R03.4 pooled "
               "buffers are cleared immediately before being pushed to the pool; R03.5 inventory of global mutable state; R03.6 in the buffered stdout/stderr mode every record is written into the one BufWriter reached through its Mutex guard (a second handle to the stream or a print macro would let a record overtake the thread's buffered ones)."
               " R03.7 (shared with R01.4): at a rotation the writer is swapped - the old BufWriter dropped, hence flushed - before the cleanup may compress or remove the closed file."
               " R03.8 every file-system effect (rename, remove, open, create, symlink, directory scan) on a call chain from a public operation of FileLogWriter executes with the state lock must-held - one critical section per operation; only work handed to the background cleanup thread runs outside."
               " R03.9 (shared with R13.3): every stderr / stdout duplicate of a record is one atomic emission (write_buffered or a print macro), never several writes on an unlocked handle.")
ASSUMPTIONS = ["Mutex/RwLock give mutual exclusion, Stderr/Stdout::write_all holds the stream lock for the whole call (std)",
               "crossbeam unbounded channels are FIFO per sender", "write(2) on the same file description is not interleaved by the OS within one write_all of a BufWriter flush (not decided)"]
NOT_DECIDED = ["atomicity of write(2)", "fairness", "interleaving of different sinks (file vs duplicate)"]
FLOORS = {'R03.6': 1, 'R03.1': 2, 'R03.2': 3, 'R03.5': 3}

ALLOWED_STATICS = {
    'util::error_channel::ERROR_CHANNEL': 'error channel, OnceLock<RwLock<..>>',
    'util::PANIC_ON_ERROR_ERROR': 'OnceLock<bool>, set once',
    'deferred_now::cfg_force_utc::CFG_FORCE_UTC': 'OnceLock<Mutex<Option<bool>>>',
    'formats::PALETTE': 'colour palette, OnceLock/RwLock',
    'util::buffer_with::BUFFER': 'thread-local format buffer',
    'primary_writer::test_writer::buffer_with::BUFFER': 'thread-local format buffer of the test writer',
}


def fs_effects_under_state_lock(R, ctx, rule='R03.8'):
    """one critical section for everything the file writer does to the file system on a caller's thread: walking every call chain from a public
    operation of FileLogWriter (LogWriter impl, inherent methods, Drop) to a file-system effect (rename, remove, open, create, symlink, directory scan),
    the state lock is must-held at the effect.  Work handed to the background cleanup thread (spawn edge) runs outside by design and is not on these
    chains; the builder's directory creation happens before the state exists.  A query or maintenance operation that touches the directory outside the
    lock races with the rotation another thread performs inside a log call."""
    from callgraph import effect_class
    f, cg, la = ctx.f, ctx.cg, ctx.locks
    STATE = 'file_log_writer::state::State'
    FS = {'FS_RENAME', 'FS_REMOVE', 'FS_OPEN', 'FS_CREATE', 'FS_SYMLINK', 'FS_READDIR'}
    pred = lambda n, t: effect_class(n) in FS
    entries = [b for b in f.fn_bodies() if b.kind != 'Closure' and b.promoted is None and
               re.match(r'^(<writers::file_log_writer::FileLogWriter as .*>|writers::file_log_writer::FileLogWriter)::\w+$', b.path) and 'validate_logs' not in b.path]
    sites = {}

    def walk(path, held, chain, seen):
        if (path, held) in seen or path not in f.bodies:
            return
        seen.add((path, held))
        b = f.bodies[path]
        for (bb, callee, kind) in cg.call_sites_reaching(b, pred):
            now = held or any(STATE in h for h in la.must_held_local(path, bb))
            if callee not in f.bodies:
                if not re.match(r'^(writers::file_log_writer::|parameters::file_spec::)', root_fn(path)):
                    continue        # e.g. the error channel's own file (util): not the log directory
                d = sites.setdefault((root_fn(path), callee), {'locked': 0, 'unlocked': [], 'loc': b.loc(bb)})
                if now:
                    d['locked'] += 1
                else:
                    d['unlocked'].append(' -> '.join(x.split('::')[-1] for x in chain + [path]))
            else:
                walk(callee, now, chain + [path], seen)
    for e in sorted(entries, key=lambda b_: b_.path):
        walk(e.path, False, [], set())
    if len(sites) < 6:
        raise CheckError(f"{rule}: only {len(sites)} file-system effect sites found on the chains from FileLogWriter's public operations")
    for (fn, eff), d in sorted(sites.items()):
        R.check(rule, f"{fn}|{eff}|under-state-lock", not d['unlocked'], f"{eff} in {fn.split('::')[-1]}: state lock held on every chain ({d['locked']})",
                f"{eff} in {fn} is reached without the state lock (chain {d['unlocked'][0] if d['unlocked'] else ''}): it races with the rotation / re-open another "
                "thread performs under the lock", where=d['loc'])


def run(R, ctx):
    f, cg = ctx.f, ctx.cg
    # lines stay intact on the std streams too: each duplicate of a record is emitted by exactly ONE call that is atomic on the stream (write_buffered: text and
    # line ending in one write_all; the print macros) - two write_all calls on an unlocked stderr()/stdout() handle can be torn apart by another thread
    # (duplication tables shared with R13.3: a duplicate that is not emitted through one of the atomic forms is not counted as an emission)
    R.rule('R03.9', 'each stderr/stdout duplicate is one atomic emission (duplication tables shared with R13.3)')
    import c13 as _c13d
    _c13d.duplication(Relabel(R, {'R13.3': 'R03.9'}), ctx)
    R.rule('R03.8', 'MUST-HOLD(state lock, every file-system effect on the chains from FileLogWriter\'s public operations)')
    fs_effects_under_state_lock(R, ctx)
    R.rule('R03.1', 'TYPE-LEVEL: forbid(unsafe_code), no static mut')
    R.rule('R03.2', 'COUNT-ON-PATHS: one emission of the complete line per record, per emitting body')
    R.rule('R03.3', 'async hand-over: one send, one consumer, one write per message')
    R.rule('R03.4', 'DOM(clear, pool push)')
    R.rule('R03.5', 'WHO: inventory of global mutable state')
    R.rule('R03.6', 'buffered std stream: every record goes through the one BufWriter, under its mutex')
    buffered_std_sink(R, ctx)

    forbid = any(a['path'].strip() == 'forbid' and 'unsafe_code' in a['idents'] for a in f.crate_attrs)
    R.check('R03.1', 'forbid(unsafe_code)', forbid, "#![forbid(unsafe_code)] at the crate root",
            "the crate no longer forbids unsafe code: shared state could be reached without its lock", where='src/lib.rs')
    muts = [s for s in f.statics if s.get('mutable')]
    R.check('R03.1', 'no-static-mut', not muts, "no static mut", f"static mut {[s['path'] for s in muts]}", where=muts[0]['span']['file'] if muts else None)

    roots = [p for p in f.bodies if p.endswith('as writers::log_writer::LogWriter>::write') and f.bodies[p].promoted is None]
    only = r'^util::write_buffered::\{closure#0\}$|StdWriter as writers::log_writer::LogWriter>::write$|^writers::file_log_writer::state_handle::'
    c01.emission(R, ctx, 'R03.2', roots=roots, le_pattern=r"line_ending|b'\\n'", only=only)
    c01.sink_table(R, ctx, 'R03.2')
    # through any number of rotations: the buffered tail of the file being closed is flushed (old writer dropped by the swap) BEFORE anything may
    # compress / remove that file, and the writer is replaced only by a successfully opened file (shared with R01.4)
    R.rule('R03.7', 'rotation: writer swapped (old BufWriter flushed) before the cleanup may touch the closed file (shared with R01.4)')
    c01.swap_rules(Relabel(R, {'R01.4': 'R03.7'}), ctx)

    # recursion arm uses a fresh buffer: in every body that tests try_borrow_mut, the Err arm's format buffer comes from Vec::with_capacity/new
    for b in f.fn_bodies():
        tb = [(bb, t) for bb, t in b.calls() if callee_name(t) == 'std::cell::RefCell::<T>::try_borrow_mut']
        if not tb:
            continue
        # format sites of the Err(BorrowMutError) arm: in this body, or in a private helper the arm calls (the helper may be
        # shared with the other arm: its parameter stands for the argument of THIS call site)
        edges = try_edges(b, tb[0][1]['dest']['l'])

        def fmt_roots(body, via, depth=0):
            """root sets of the buffer argument of every format call in `body`; `via` = (caller body, call term) or None"""
            out = []
            pv = ctx.ip.prov(body.path)
            for bb2, t2 in body.calls():
                n2 = callee_name(t2)
                if via is None and not any(C.dominates(body, e[1], bb2) for e in edges):
                    continue
                if re.search(c01.FMT, n2):
                    rs = set()
                    for r_ in pv.op_roots(t2['args'][0]):
                        if r_[0] == 'param' and via is not None and r_[1] - 1 < len(via[1]['args']):
                            rs |= ctx.ip.prov(via[0].path).op_roots(via[1]['args'][r_[1] - 1])
                        else:
                            rs.add(r_)
                    out.append(rs)
                elif n2 in f.bodies and f.bodies[n2].kind != 'Closure' and depth < 2 and via is None:
                    out += fmt_roots(f.bodies[n2], (body, t2), depth + 1)
            return out
        sets = fmt_roots(b, None)
        if not sets and not any(re.search(c01.FMT, callee_name(t)) for _, t in b.calls()):
            continue
        okrec = bool(sets)
        for roots_ in sets:
            okrec = okrec and any(r_[0] == 'call' and re.search(r'Vec::<T>::(with_capacity|new)$', r_[1]) for r_ in roots_) and \
                not any(r_[0] == 'call' and 'try_borrow_mut' in r_[1] for r_ in roots_) and not any(r_[0] == 'tls' for r_ in roots_)
        R.check('R03.2', f"{b.path}|recursion-arm-fresh-buffer", okrec, "Err(BorrowMutError) arm formats into a fresh Vec",
                f"{b.path}: the recursive-logging arm does not format into a fresh buffer (it would corrupt the outer record's bytes)", where=b.loc())

    if ctx.has('async'):
        async_rules(R, ctx)

    seen_st = set()
    for s in f.statics:
        s = dict(s)
        s['path'] = s['path'].split('::{constant#')[0]
        if s['path'] in seen_st:
            continue
        seen_st.add(s['path'])
        R.check('R03.5', f"static:{s['path']}", s['path'] in ALLOWED_STATICS, ALLOWED_STATICS.get(s['path'], ''),
                f"new global state `{s['path']}: {s['ty']}` is not in the inventory of shared state whose synchronisation was reviewed", where=f"{s['span']['file']}:{s['span']['line']}")


def buffered_std_sink(R, ctx):
    """In the buffered stdout/stderr mode the records of all threads are serialised by the Mutex around the one BufWriter, and a
    thread's records keep their order because they all pass through that buffer.  A record emitted in this mode through anything
    else (a second handle to the stream, a print macro) overtakes the thread's earlier, still buffered records."""
    f = ctx.f
    b = ctx.body(r'^<primary_writer::std_writer::StdWriter as writers::log_writer::LogWriter>::write$')
    WB = r'util::write_buffered$'
    LOCK = r'^std::sync::Mutex::<T>::(lock|try_lock)$'
    I = FDI(f, effects=[WB, LOCK, r'StdStream::lock$', r'^std::io::_e?print$', r'::write_all$'], no_inline=[WB, r'util::eprint_err$', r'pop_buffer$'], max_steps=20000)
    rows = I.run(b.path, arg_names=['self', 'now', 'record'])
    bad = None
    n = 0
    for r in rows:
        if r.undecided:
            raise CheckError(f"R03.6 {b.path}: UNDECIDED {r.undecided}")
        if r.get('variant(self.writer)') != 'Buffered':
            continue
        for e in r.effects:
            nm = e[0].split('::')[-1]
            if re.search(WB, e[0]):
                wx = eff_arg_x(f, e, 'w', r'dyn std::io::Write')
                if not T.eff_indices(wx, LOCK) or 'writer' not in T.fields_in(wx):
                    bad = f"a record is written to {r.long(eff_arg(f, e, 'w', r'dyn std::io::Write'))[:100]}, not to the BufWriter behind the mode's mutex"
                n += 1
            elif nm in ('_print', '_eprint', 'write_all'):
                bad = f"a record is emitted with {nm} in the buffered mode, past the BufWriter"
    if not bad and n < 1:
        raise CheckError(f"R03.6: no buffered emission found in {b.path}")
    R.check('R03.6', f"{b.path}|buffered-sink", not bad, f"{n} buffered emissions, all into the guarded BufWriter",
            f"buffered stdout/stderr mode: {bad}: the record overtakes the thread's earlier records that are still in the buffer (per-thread order is lost)", where=b.loc())


def async_rules(R, ctx):
    f, cg = ctx.f, ctx.cg
    # one consumer: every Receiver is moved into exactly one spawned closure; no Receiver::clone
    clones = [(b.path, bb) for b in f.fn_bodies() for bb, t in b.calls() if re.search(r'Receiver<.*> as std::clone::Clone>::clone$', callee_name(t))]
    R.check('R03.3', 'no-receiver-clone', not clones, "no Receiver::clone in the crate", f"a channel receiver is cloned in {clones[:1]}: two consumers reorder records", where=None)
    for spawner in ('writers::file_log_writer::state::start_async_fs_writer', 'threads::start_async_stdwriter'):
        b = f.bodies.get(spawner)
        if b is None:
            raise CheckError(f"R03.3: anchor {spawner} not found (renamed beyond what the baseline matching resolves, or removed): the single-consumer rule cannot be decided")
        spawns = [bb for bb, t in b.calls() if callee_name(t) == 'std::thread::Builder::spawn']
        # the thread entries this function spawns; the consumer is the one that reaches a blocking recv (in its own body or in a named function it calls)
        RECV = lambda n_, t_: n_.endswith('Receiver::<T>::recv')
        recv_in = [f.bodies[e] for e in spawned_entries(cg, spawner) if e in f.bodies and cg.reaches_effect(e, RECV, spawn=False)]
        R.check('R03.3', f"{spawner}|single-consumer", len(spawns) == 1 and len(recv_in) == 1, "one spawned consumer closure owns the receiver",
                f"{spawner}: {len(spawns)} spawns / {len(recv_in)} closures receiving from the channel", where=b.loc())
        if len(recv_in) != 1:
            continue
        x = recv_in[0]
        EFF = [r'Receiver::<T>::recv$', r'State::(flush|shutdown|write_buffer)$', r'::flush$', r'::write_all$', r'Vec::<T, A>::(clear|truncate|push|extend_from_slice)$', r'ArrayQueue::<T>::push$']
        I = FDI(f, effects=EFF, no_inline=[r'State::(flush|shutdown|write_buffer)$', r'StdStream::deref_mut$'], loop_k=1, max_steps=6000)
        rows = I.run(x.path)
        bad = None
        npush = 0
        for r in rows:
            if r.undecided:
                bad = 'UNDECIDED: ' + r.undecided
                break
            effs = r.effects
            names = [e[0].split('::')[-1] for e in effs]
            # split per message
            recvs = [i for i, n_ in enumerate(names) if n_ == 'recv']
            for j, ri in enumerate(recvs):
                seg = effs[ri + 1:(recvs[j + 1] if j + 1 < len(recvs) else len(effs))]
                sn = [e[0].split('::')[-1] for e in seg]
                msg = f"{effs[ri][0]}#{ri + 1}.0"
                kind = next((str(v) for a, v in r.cond if a == f"{msg}[0]"), 'data')
                kind = {'83': 'S', '70': 'F'}.get(kind, 'data')
                # `content == ASYNC_SHUTDOWN` instead of a slice pattern: an equality atom between the message and the constant
                for a, v in r.cond:
                    info = r.atom_info.get(a, {})
                    if info.get('kind') == 'ord' and v == 'eq':
                        for (c_, o_) in ((info['a'], info['b']), (info['b'], info['a'])):
                            if isinstance(c_, tuple) and c_[0] == 'const' and c_[1] in (b'S', b'F') and T.eff_indices(o_, r'Receiver::<T>::recv$') == {ri + 1}:
                                kind = c_[1].decode()
                writes = [e for e in seg if e[0].split('::')[-1] in ('write_buffer', 'write_all')]
                if kind == 'data' and seg:
                    if len(writes) != 1 or msg not in writes[0][1][1]:
                        bad = f"a data message is written {len(writes)} times / not as the received vector"
                if kind != 'data' and writes:
                    bad = "a control message is written to the output"
                for i_, e in enumerate(seg):
                    if e[0].endswith('ArrayQueue::<T>::push'):
                        npush += 1
                        prev = seg[i_ - 1] if i_ > 0 else None
                        if not (prev and prev[0].endswith('::clear') and c01.norm(prev[1][0]) == c01.norm(e[1][1]) and msg in e[1][1]):
                            bad = "a buffer is returned to the pool without being cleared immediately before (the next record formatted into it would carry stale bytes)"
            if bad:
                break
        R.check('R03.3', f"{spawner}|one-write-per-message", not bad, f"{len(rows)} rows: each data message written once, control messages never", f"{spawner}: {bad}", where=x.loc())
        R.check('R03.4', f"{spawner}|clear-before-pool", not bad and npush > 0, f"{npush} pool pushes, each directly after clear() of the same buffer", f"{spawner}: {bad or 'no pool push found'}", where=x.loc())
    # pop_buffer returns a pooled or a fresh vector
    for pb in [b for b in f.fn_bodies() if b.path.endswith('::pop_buffer')]:
        names = [callee_name(t) for bb, t in pb.calls()]
        ok = any(n_.endswith('ArrayQueue::<T>::pop') for n_ in names) and any('unwrap_or_else' in n_ for n_ in names)
        R.check('R03.4', f"{pb.path}", ok, "pool.pop().unwrap_or_else(fresh)", f"{pb.path} does not return a pooled or fresh buffer", where=pb.loc())
