"""C01 — rotated log stream complete, duplicate-free and in order."""
from rulelib import *
from report import CheckError
from fdi import FDI, Const, Agg, Sym, Ref
import table as T
import c08, c09

EXPLANATION = ("R01.1 on every path of every record-emitting body the format output is followed by exactly one write of the configured "
               "line ending into the same buffer and exactly one emission of that buffer (State::write_buffer or channel send); the "
               "thread-local buffer is cleared after the emission and never between format and emission; R01.2 sink table: after "
               "(re)initialisation and whatever the outcome of the rotation attempt, exactly one write_all of the unsliced buffer "
               "parameter to the active writer; no partial Write::write on file writers anywhere; R01.3 within one rotation or "
               "initialisation every rename-reaching step precedes the single open of the log file; R01.4 the writer is replaced only "
               "by the payload of a successful open_log_file, never leaked; R01.5 the rCURRENT index advances iff the rename succeeded "
               "(NotFound tolerated, other errors propagated); R01.6 timestamp infixes that name a rotated file or a file opened with "
               "truncation pass through the collision check; R01.7 the rotation decision dominates the write. R01.5 also: once index_for_rcurrent returned Ok the stored index is its result on every path (a failing open included); R01.8 the directory listing and filter_files recognise exactly the family (whole-function tables shared with R14.2). R01.9 one clock: every function of the file writer that formats a timestamp into a file name chooses UTC or local time by a boolean input, and at every (transitive) call site that input is the same configuration field - names of the first file and of rotated files sort in the order of logging."
               " R01.10 (shared start table of R06.3/R06.5): at a restart the previous run's current file is looked up under the name this naming writes to and rotated or continued, never truncated."
               " R01.11 (shared with R18.4): an explicitly triggered rotation reaches the file writer (MultiWriter fan-out rows) and ends in exactly one forced rotation of the state."
               " R01.12 (shared with R06.2): at a restart the number naming continues above every existing rotated file (filtered listing of plain and .gz files, number behind the last `_r`, maximum over all).")
ASSUMPTIONS = ["BufWriter flushes on drop; Write::write_all writes the whole slice or fails (std)", "format functions are total (user code)"]
NOT_DECIDED = ["equality of concatenated file contents with the logged sequence for all record lengths/buffer sizes",
               "that file names sort in rotation order (r99999 -> r100000, .restart-NNNN vs suffix order)", "more than 9999 same-second restarts"]
FLOORS = {'R01.1': 2, 'R01.2': 3, 'R01.3': 2, 'R01.4': 2, 'R01.5': 5, 'R01.6': 3, 'R01.7': 1}

FMT = r'^fnptr:for<.*> fn\(&.*dyn std::io::Write.*DeferredNow.*log::Record'


# user-facing dispatch points are not followed when collecting the emitting bodies of one writer
STOP_AT = set()


def norm(s):
    s = re.sub(r"'\d+", '', s)
    return s.lstrip('&')


def short(s, n=110):
    s = str(s)
    return s if len(s) <= n else s[:n // 2] + '…' + s[-n // 2:]


FILE_ROOT = '<writers::file_log_writer::FileLogWriter as writers::log_writer::LogWriter>::write'


def emission_bodies(ctx, roots=(FILE_ROOT,)):
    """bodies reachable from the given LogWriter::write roots that call a FormatFunction pointer.  A private helper that ONLY formats into a buffer it is
    given (no write_all / write_buffer / send / print of its own) is not an emitting body: the record path is judged in the bodies that call it (the
    interpreter inlines the helper there)"""
    reach = sorted(ctx.cg.reachable(list(roots), spawn=False, stop=STOP_AT))
    EMITS = r'::write_all$|State::write_buffer$|Sender::<T>::(send|try_send)$|^std::io::_e?print$|util::write_buffered$'
    out, seen = [], set()
    work = [p for p in reach if ctx.f.bodies[p].promoted is None and any(re.search(FMT, callee_name(t)) for bb, t in ctx.f.bodies[p].calls())]
    while work:
        p = work.pop(0)
        if p in seen:
            continue
        seen.add(p)
        b = ctx.f.bodies[p]
        if b.kind != 'Closure' and not any(re.search(EMITS, callee_name(t)) for bb, t in b.calls()):
            callers = sorted({a for (a, _bb, _k) in ctx.cg.callers.get(p, []) if a in reach})
            if callers:
                work += callers
                continue
        out.append(b)
    return sorted(out, key=lambda b_: b_.path)


def run(R, ctx):
    f, cg = ctx.f, ctx.cg
    R.rule('R01.1', 'COUNT-ON-PATHS: format -> one line-ending write -> one emission (-> clear of the TLS buffer) per record')
    R.rule('R01.2', 'TABLE(record sink): one write_all of the whole buffer whatever the rotation outcome; no partial writes')
    R.rule('R01.3', 'ORDER: rename-reaching steps precede the single open within a rotation / initialisation')
    R.rule('R01.4', 'GUARDED-EFFECT: writer replaced only by the payload of a successful open; no forget/leak')
    R.rule('R01.5', 'TABLE(index_for_rcurrent)')
    R.rule('R01.6', 'PROVENANCE: timestamp infix -> collision check -> rotated name / truncating open')
    R.rule('R01.7', 'DOM(rotation decision, write_all)')
    R.rule('R01.9', 'SIBLING-AGREEMENT: every file-name timestamp is rendered in the one configured time zone (same flag at every site)')

    emission(R, ctx)
    sink_table(R, ctx, 'R01.2')
    partial_writes(R, ctx)
    order_rules(R, ctx)
    swap_rules(R, ctx)
    index_table(R, ctx)
    index_state_rule(R, ctx)
    collision_rules(R, ctx)
    # a restart must find the previous run's current file under the name this naming writes to and rotate (or continue) it: otherwise the open that
    # follows truncates it and the stream loses that file's records (start table shared with R06.3 / R06.5)
    R.rule('R01.10', 'start: the left-over current file is rotated or continued, never truncated (shared with R06.3)')
    import c06 as _c06
    _c06.start_table(Relabel(R, {'R06.3': 'R01.10', 'R06.5': 'R01.10'}), ctx, restart_sibling_clause=False)
    b, wbb = c08.find_sink(ctx)
    mounts = [bb for bb, t in b.calls() if callee_name(t) in f.bodies and
              'writers::file_log_writer::state::RollState::rotation_necessary' in cg.reachable([callee_name(t)], spawn=False)]
    R.check('R01.7', f"{b.path}|decide-before-write", bool(mounts) and any(C.dominates(b, m, wbb) for m in mounts),
            "rotation decision dominates write_all", "write_all is not dominated by the rotation decision", where=b.loc(wbb))
    one_clock_rule(R, ctx)
    # across a restart the stream stays complete only if the numbering continues above what is there: a start index that is too low renames rCURRENT onto /
    # truncates a rotated file of the earlier run (start index rules shared with R06.2: listing of plain + .gz, number behind the LAST `_r`, maximum)
    R.rule('R01.12', 'restart: the numbering continues above every existing rotated file (start index rules shared with R06.2)')
    import c06 as _c06s
    _c06s.start_index(Relabel(R, {'R06.2': 'R01.12'}), ctx)
    # explicitly triggered rotations are part of the stream: LoggerHandle::trigger_rotation reaches the file writer through MultiWriter (fan-out rows)
    # and FileLogWriter::rotate ends in exactly one forced rotation of the state (shared with R18.4)
    R.rule('R01.11', 'trigger_rotation reaches the forced rotation of the file writer (fan-out rows shared with R18.4)')
    import c18 as _c18
    _c18.multi_fanout(R, ctx, 'R01.11', methods=('trigger_rotation',))
    family_predicate_proxy(R, ctx, 'R01.8', 'the listing the collision check and the numbering rely on recognises exactly the family (shared with R14.2)')

# ---------------------------------------------------------------------------------------------- R01.9
TS_FORMAT = r'^chrono::.*::format(_with_items|_localized)?$'
TO_UTC = r'^chrono::.*::(naive_utc|to_utc|with_timezone)$'


def _flag_sources(ctx, path, op, depth=4):
    """where a bool operand of a call in `path` comes from: set of ('field', <last field name>) / ('const', v) / ('other', text)"""
    f, ip = ctx.f, ctx.ip
    b = f.bodies[path]
    pv = ip.prov(path)
    out = set()
    if op['k'] == 'const':
        return {('const', const_repr(op))}
    pl = op['place']
    names = tuple(e.get('name') or str(e.get('i')) for e in pl['p'] if e['k'] == 'field')
    cands = set()
    if names:
        cands.add(names)
    for fp in pv.field_paths(pl['l']):
        cands.add(tuple(x for x in fp if not x.startswith('param')) + names)
    cands = {c for c in cands if c}
    for c in cands:
        out.add(('field', c[-1]))
    if not cands:
        roots = pv.op_roots(op)
        params = {r_[1] for r_ in roots if r_[0] == 'param'}
        consts = {r_[1] for r_ in roots if r_[0] == 'const'}
        for c in consts:
            out.add(('const', c))
        for i in params:
            if depth == 0:
                out.add(('other', f"parameter {i} of {path}"))
                continue
            callers = [(a, bb) for (a, bb, k) in ctx.cg.callers.get(path, []) if bb is not None and k in ('direct', 'dyn')]
            if not callers:
                out.add(('other', f"parameter {i} of {path} (no caller)"))
            for (a, bb) in callers:
                t = f.bodies[a].blocks[bb]['term']
                if t['k'] == 'call' and len(t['args']) >= i:
                    out |= _flag_sources(ctx, a, t['args'][i - 1], depth - 1)
        if not params and not consts:
            out.add(('other', ','.join(sorted(str(r_[:2]) for r_ in roots))[:120]))
    return out


def one_clock_rule(R, ctx):
    """R01.9 - necessary for `sorted by name = order of logging`: every timestamp that becomes part of a file name of the file log writer
    is formatted in ONE time zone, the configured one: (a) each function under writers::file_log_writer that formats a chrono timestamp
    chooses between the UTC and the local rendering by a boolean input, (b) at every (transitive) call site that boolean is the same
    configuration field.  A first file named in local time followed by rotated files named in UTC (or vice versa) sorts out of order
    wherever the zone offset is not zero."""
    f, cg = ctx.f, ctx.cg
    fns = sorted({b.path for b in f.fn_bodies() if b.path.startswith('writers::file_log_writer::')
                  and any(re.search(TS_FORMAT, callee_name(t)) for _, t in b.calls())})
    if not fns:
        raise CheckError("R01.9: no function under writers::file_log_writer formats a chrono timestamp: timestamp naming not recognised")
    sources = {}
    for p in fns:
        b = f.bodies[root_fn(p)] if root_fn(p) in f.bodies else f.bodies[p]
        an = [l.get('name') or f"p{i}" for i, l in enumerate(b.locals[1:b.arg_count + 1])]
        try:
            rows = FDI(f, effects=[TS_FORMAT, TO_UTC], no_inline=[r'.']).run(b.path, arg_names=an)
        except Exception as e:
            raise CheckError(f"R01.9 {b.path}: {type(e).__name__} {e}")
        utc_rows = [r for r in rows if any(re.search(TS_FORMAT, e[0]) for e in r.effects) and any(re.search(TO_UTC, e[0]) for e in r.effects)]
        loc_rows = [r for r in rows if any(re.search(TS_FORMAT, e[0]) for e in r.effects) and not any(re.search(TO_UTC, e[0]) for e in r.effects)]
        key = f"{b.path}|zone-by-configuration"
        if not utc_rows or not loc_rows:
            R.bad('R01.9', key, f"{b.path} formats a timestamp for a file name always in {'UTC' if utc_rows else 'local time'}, without regard to the configured "
                  "time zone: the names it produces and the names its siblings produce (which honour the setting) do not sort in the order of logging "
                  "when use_utc is set and the zone offset is not zero", where=b.loc())
            continue
        # the deciding atom: present in every formatting row, True in all UTC rows and False in all local rows (or vice versa), a boolean input
        atoms = [a for a in utc_rows[0].cmap if all(a in r.cmap for r in utc_rows + loc_rows)
                 and len({r.cmap[a] for r in utc_rows}) == 1 and len({r.cmap[a] for r in loc_rows}) == 1 and utc_rows[0].cmap[a] != loc_rows[0].cmap[a]]
        if len(atoms) != 1:
            raise CheckError(f"R01.9 {b.path}: the input that selects UTC is not a single boolean atom ({atoms})")
        a = atoms[0]
        x = (utc_rows[0].atom_info.get(a) or {}).get('x')
        R.ok('R01.9', key, f"{b.path}: UTC rendering iff `{a}`")
        if x and x[0] == 'in' and x[1] in an:
            i = an.index(x[1]) + 1
            callers = [(c, bb) for (c, bb, k) in cg.callers.get(b.path, []) if bb is not None and k in ('direct', 'dyn')]
            for (c, bb) in callers:
                t = f.bodies[c].blocks[bb]['term']
                for src in _flag_sources(ctx, c, t['args'][i - 1]):
                    sources.setdefault(src, []).append((c, f.bodies[c].loc(bb)))
        elif x and x[0] == 'field':
            sources.setdefault(('field', x[2]), []).append((b.path, b.loc()))
        else:
            raise CheckError(f"R01.9 {b.path}: deciding atom `{a}` is neither a parameter nor a field ({x})")
    fields = {s for s in sources if s[0] == 'field'}
    if len(fields) > 1:
        # the reference is the field most sites use (a tie leaves every site reported)
        cnt = sorted(((len(sources[s]), s) for s in fields), reverse=True)
        if cnt[0][0] > cnt[1][0]:
            fields = {cnt[0][1]}
    for s, sites in sorted(sources.items()):
        if s[0] == 'field' and fields == {s}:
            for (c, loc) in sites:
                R.ok('R01.9', f"{root_fn(c)}|zone-flag", f"{c}: zone flag = configuration field `{s[1]}`")
        elif s[0] == 'other':
            raise CheckError(f"R01.9: origin of the zone flag not recognised: {s[1]} at {sites[:2]}")
        else:
            for (c, loc) in sites:
                R.bad('R01.9', f"{root_fn(c)}|zone-flag", f"{c} formats a file-name timestamp with the zone flag {s[1]!r} "
                      f"({'a constant' if s[0] == 'const' else 'a different field'}; the other sites use {sorted(x_[1] for x_ in fields)}): names from this site and names from "
                      "the other sites are in different time zones and do not sort in the order of logging", where=loc)
    if len(sources) == 0:
        raise CheckError("R01.9: no call site of the timestamp formatter found")


# ---------------------------------------------------------------------------------------------- R01.1
def emission(R, ctx, rule='R01.1', le_check=True, roots=(FILE_ROOT,), le_pattern='line_ending', only=None):
    f = ctx.f
    EFF = [FMT, r'::write_all$', r'State::write_buffer$', r'Vec::<T, A>::(clear|truncate|drain|pop|push|extend_from_slice|insert|remove)$', r'util::eprint_err$',
           r'try_borrow_mut$', r'Sender::<T>::(send|try_send)$', r'pop_buffer$', r'with_capacity$', r'as std::iter::Extend<.*>>::extend$',
           r'^std::io::_e?print$']
    NI = [r'State::write_buffer$', r'util::eprint_err$', r'pop_buffer$']
    EFF = EFF + [r'util::write_buffered$']
    NI = NI + [r'util::write_buffered$']
    for b in emission_bodies(ctx, roots):
        if only and not re.search(only, b.path):
            continue
        I = FDI(f, effects=EFF, no_inline=NI)
        rows = I.run(b.path)
        problems = []
        n = 0
        for r in rows:
            if r.undecided:
                problems.append(f"UNDECIDED: {r.undecided}")
                break
            effs = r.effects
            fmts = [i for i, e in enumerate(effs) if re.search(FMT, e[0])]
            deleg = [e for e in effs if e[0].endswith('util::write_buffered')]
            if not fmts and len(deleg) == 1:
                n += 1          # the arm delegates the whole record to write_buffered (analysed on its own)
                continue
            if deleg:
                problems.append("a path both formats itself and delegates to write_buffered")
                continue
            if not fmts and not [e for e in effs if e[0].endswith(('write_buffer', '::send', 'write_all'))] and isinstance(r.result, Agg) and r.result.variant == 'Err':
                n += 1          # the record was refused before formatting (e.g. poisoned lock) and the error is returned
                continue
            if len(fmts) != 1:
                problems.append(f"{len(fmts)} format calls on one path")
                continue
            fi = fmts[0]
            X = norm(effs[fi][1][0])
            emits = [i for i, e in enumerate(effs) if (e[0].endswith('State::write_buffer') and norm(e[1][1]) == X) or
                     (re.search(r'Sender::<T>::(send|try_send)$', e[0]) and norm(e[1][1]) == X) or
                     (e[0].endswith('::write_all') and len(e[1]) > 1 and norm(e[1][1]) == X and norm(e[1][0]) != X) or
                     (e[0] in ('std::io::_print', 'std::io::_eprint') and X in r.long(e[1][0]))]
            other_emits = [i for i, e in enumerate(effs) if (e[0].endswith('State::write_buffer') or re.search(r'Sender::<T>::(send|try_send)$', e[0])) and i not in emits]
            les = [i for i, e in enumerate(effs) if e[0].endswith('::write_all') and norm(e[1][0]) == X]
            muts = [i for i, e in enumerate(effs) if re.search(r'Vec::<T, A>::(clear|truncate|drain|pop|push|extend_from_slice|insert|remove)$|::extend$', e[0]) and norm(e[1][0]) == X]
            fmt_failed = any(v == 'Err' and 'callptr' in a for a, v in r.cond)
            le_failed = any(v == 'Err' and 'write_all' in a and 'write_buffer' not in a for a, v in r.cond)
            if 'try_borrow_mut' in X:
                # the thread-local buffer must be empty again when the path ends (whatever happened in between)
                after_fmt = [i for i in muts if i > fi] + [i for i in les if i > fi]
                last_clear = max([i for i in muts if i > fi and effs[i][0].endswith('::clear')], default=None)
                if last_clear is None or any(i > last_clear for i in after_fmt):
                    problems.append("a path leaves the formatted bytes in the thread-local buffer (no clear() after the format call): the next record "
                                    "logged by this thread is glued behind them")
                    continue
            if other_emits:
                problems.append(f"emission of a buffer other than the formatted one ({short(effs[other_emits[0]][1][1])})")
            if not emits:
                reported = any(e[0].endswith('eprint_err') for e in effs)
                if not (fmt_failed or le_failed) or not reported:
                    problems.append("a path formats the record but never emits it (and reports nothing)")
                continue
            if len(emits) != 1:
                problems.append(f"{len(emits)} emissions of the same record on one path")
                continue
            ei = emits[0]
            les_between = [i for i in les if fi < i < ei]
            if len(les_between) != 1 or [i for i in les if i > ei]:
                problems.append(f"{len(les_between)} line-ending writes between format and emission (and {len([i for i in les if i > ei])} after)")
                continue
            if le_check:
                le = effs[les_between[0]][1][1]
                if not re.search(le_pattern, le):
                    problems.append(f"the bytes appended after the format output are not the configured line ending ({short(le)})")
            if [i for i in muts if fi < i < ei]:
                problems.append("the buffer is modified between format and emission")
            if 'try_borrow_mut' in X:
                clears = [i for i in muts if i > ei and effs[i][0].endswith('::clear')]
                if len(clears) != 1:
                    problems.append("the thread-local buffer is not cleared after the emission (the next record would repeat this one)")
            n += 1
        key = f"{b.path}|emission"
        if problems:
            R.bad(rule, key, f"record emission in {b.path}: {problems[0]}", where=b.loc(), witness=problems[:4])
        else:
            R.ok(rule, key, f"{n} paths: format -> line ending -> one emission", sample={'fn': b.path, 'paths': len(rows)})


# ---------------------------------------------------------------------------------------------- R01.2
def sink_rows(ctx):
    EFF = [r'::write_all$', r'RollState::increase_size$', r'util::eprint_err$', r'State::initialize$', r'mount_next_linewriter_if_necessary$',
           r'std::io::Write::write$', r'::flush$']
    I = FDI(ctx.f, effects=EFF, no_inline=[r'RollState::increase_size$', r'util::eprint_err$', r'State::initialize$', r'mount_next_linewriter_if_necessary$'])
    b, wbb = c08.find_sink(ctx)
    return b, I.run(b.path)


def sink_table(R, ctx, rule):
    b, rows = sink_rows(ctx)
    problems = []
    n = 0
    for r in rows:
        if r.undecided:
            problems.append(f"UNDECIDED: {r.undecided}")
            break
        effs = r.effects
        names = [e[0].split('::')[-1] for e in effs]
        init_needed = r.get('variant(self.inner)') == 'Initial'
        init_res = next((v for a, v in r.cond if a.startswith('variant(') and 'State::initialize#' in a), None)
        mount_res = next((v for a, v in r.cond if a.startswith('variant(') and 'mount_next_linewriter_if_necessary#' in a), None)
        inner_after = [v for a, v in r.cond if re.match(r"variant\(self'\d+\.inner\)$", a)]
        write_res = next((v for a, v in r.cond if a.startswith('variant(') and 'write_all#' in a), None)
        rot = next((v for a, v in r.cond if re.match(r"variant\(self'\d+\.inner\.0\)$", a)), None)
        if init_needed:
            if not names or names[0] != 'initialize':
                problems.append("State is Initial but initialize is not the first step")
                continue
            if init_res == 'Err':
                if 'write_all' in names or not (isinstance(r.result, Agg) and r.result.variant == 'Err'):
                    problems.append("initialisation failed but the sink writes / does not return the error")
                continue
        elif 'initialize' in names:
            problems.append("initialize called although the state is Active")
            continue
        if names.count('mount_next_linewriter_if_necessary') != 1:
            problems.append(f"{names.count('mount_next_linewriter_if_necessary')} rotation checks per record")
            continue
        mi = names.index('mount_next_linewriter_if_necessary')
        # (that the value passed here means "only if the criterion is met" is decided by the rotation guard table, R08.1)
        if mount_res == 'Err':
            rep = [i for i, nme in enumerate(names) if nme == 'eprint_err' and i > mi]
            if not rep:
                problems.append("a failed rotation attempt is not reported on the error channel")
        if inner_after and inner_after[-1] == 'Initial':
            continue   # infeasible: initialize succeeded / state was Active (R19.4)
        w = [i for i, nme in enumerate(names) if nme == 'write_all']
        if len(w) != 1:
            problems.append(f"{len(w)} write_all calls for one record when the rotation attempt returned {mount_res} "
                            "(the record must be written exactly once, to the old file if the rotation failed)")
            continue
        wi = w[0]
        if wi < mi:
            problems.append("write_all before the rotation decision")
        if norm(effs[wi][1][1]) != 'buf' or not re.search(r"\.inner\.1$", norm(effs[wi][1][0])):
            problems.append(f"write_all({short(effs[wi][1][0])}, {short(effs[wi][1][1])}) is not (active writer, whole buffer parameter)")
        if 'write' in names:
            problems.append("partial Write::write in the sink")
        inc = [i for i, nme in enumerate(names) if nme == 'increase_size']
        if write_res == 'Ok':
            if not (isinstance(r.result, Agg) and r.result.variant == 'Ok'):
                problems.append("successful write does not return Ok")
            if rot == 'Some' and (len(inc) != 1 or inc[0] < wi or 'len(&buf)' not in effs[inc[0]][1][1] or effs[inc[0]][1][1].count('(') != 1):
                problems.append(f"size accounting after a successful write deviates: {[short(effs[i][1][1]) for i in inc]}")
            if rot == 'None' and inc:
                problems.append("increase_size without rotation state")
        else:
            if inc:
                problems.append("size accounted although the write failed")
            if not (isinstance(r.result, Agg) and r.result.variant == 'Err'):
                problems.append("failed write is not returned as error")
        n += 1
    key = f"{b.path}|sink-table"
    if problems:
        R.bad(rule, key, f"record sink {b.path}: {problems[0]}", where=b.loc(), witness=problems[:4])
    else:
        R.ok(rule, key, f"{n} rows agree", sample={'fn': b.path, 'rows': len(rows), 'decided': n})


def partial_writes(R, ctx):
    from callgraph import is_partial_write, self_ty
    f = ctx.f
    n = 0
    for b in f.fn_bodies():
        for bb, t in b.calls():
            if is_partial_write(t):
                st = self_ty(t)
                if re.search(r'std::fs::File|BufWriter|Box<dyn std::io::Write', st):
                    R.bad('R01.2', f"{b.path}|partial-write", f"partial Write::write on {st} in {b.path} (the unwritten rest of a record would be lost)", where=b.loc(bb))
                n += 1
    R.ok('R01.2', 'no-partial-write-on-files', f"{n} Write::write call sites in the crate, none on File/BufWriter/Box<dyn Write>")
    # who may call write_all on the State's writer
    writers = set()
    for b in f.fn_bodies():
        for bb, t in b.calls():
            if callee_name(t).endswith('::write_all') and 'Box<dyn std::io::Write + std::marker::Send>' in (t['callee'].get('resolved_self') or '') + ' '.join(t['callee'].get('targs', [])):
                writers.add(b.path)
    sink, _ = c08.find_sink(ctx)
    for w in sorted(writers):
        R.check('R01.2', f"writer-of-file:{w}", w == sink.path, "the sink is the only writer of the log file",
                f"{w} writes to the log file writer besides the sink", where=f.bodies[w].loc())


# ---------------------------------------------------------------------------------------------- R01.3 / R01.4
_INIT = {}


def init_rows(ctx):
    if ctx.cfg in _INIT:
        return _INIT[ctx.cfg]
    EFF = [r'numbers::get_highest_index$', r'numbers::number_infix$', r'numbers::index_for_rcurrent$', r'timestamps::creation_timestamp_of_currentfile$',
           r'timestamps::latest_timestamp_file$', r'timestamps::infix_from_timestamp$', r'state::open_log_file$', r'RollState::new$',
           r'remove_or_compress_too_old_logfiles(_impl)?$', r'start_cleanup_thread$', r'collision_free_infix_for_rotated_file$', r'^chrono::Local::now$']
    I = FDI(ctx.f, effects=EFF, no_inline=EFF + [r'infix_filter$', r'writes_direct$', r'InfixFormat::custom$', r'do_cleanup$'])
    rows = I.run('writers::file_log_writer::state::State::initialize_with_rotation')
    _INIT[ctx.cfg] = rows
    return rows


RENAMERS = ('index_for_rcurrent', 'creation_timestamp_of_currentfile')


def order_rules(R, ctx):
    f, cg = ctx.f, ctx.cg
    # confirm the classification of the steps from the call graph: renamers reach fs::rename, open_log_file reaches OpenOptions::open
    for nme in RENAMERS:
        b = ctx.body(rf'::{nme}$')
        if not cg.reaches_effect(b.path, lambda n, t: n == 'std::fs::rename'):
            raise CheckError(f"{nme} no longer reaches fs::rename")
    for (label, rows, fn) in (('rotation', c09.mount_rows(ctx), 'State::mount_next_linewriter_if_necessary'), ('initialisation', init_rows(ctx), 'State::initialize_with_rotation')):
        b = ctx.body(rf'::{fn}$')
        bad = None
        n = 0
        for r in rows:
            if r.undecided:
                bad = f"UNDECIDED: {r.undecided}"
                break
            names = [e[0].split('::')[-1] for e in r.effects]
            opens = [i for i, x in enumerate(names) if x == 'open_log_file']
            rens = [i for i, x in enumerate(names) if x in RENAMERS]
            if len(opens) > 1:
                bad = f"{len(opens)} opens of the log file in one {label}"
                break
            if opens and any(i > opens[0] for i in rens):
                bad = f"{names[max(rens)]} (renames the current file) runs after open_log_file: the freshly created file would be renamed away / the old one truncated"
                break
            if opens:
                n += 1
        # other callers of fs::rename reachable from this function must be the declared renamers
        extra = [x for x in cg.reaches_effect(b.path, lambda n_, t: n_ == 'std::fs::rename') if not x[0].endswith(RENAMERS)]
        if extra and not bad:
            bad = f"fs::rename reachable through an undeclared step {extra[0][0]}"
        R.check('R01.3', f"{b.path}|rename-before-open", not bad and n > 0, f"{n} rows: every renaming step precedes the single open",
                f"{label}: {bad}", where=b.loc(), sample={'fn': b.path, 'rows_with_open': n})


def index_state_rule(R, ctx, rule='R01.5'):
    """Naming::Numbers: index_for_rcurrent has renamed rCURRENT to r<idx> when it returns Ok(next index); the stored index must be
    that value from then on, whatever happens next (a failing open of the new rCURRENT included): with a stale index the retry opens
    a fresh rCURRENT and the following rotation renames it ONTO the existing r<idx> - records already written are overwritten"""
    b = ctx.body(r'::State::mount_next_linewriter_if_necessary$')
    rows = c09.mount_rows(ctx)
    bad = None
    n = n_fail = 0
    for r in rows:
        if r.undecided or r.get('variant(self.inner.0.0.naming_state)') != 'NumbersRCurrent':
            continue
        k = next((i + 1 for i, e in enumerate(r.effects) if e[0].endswith('index_for_rcurrent')), None)
        if k is None or r.get(f"variant({r.effects[k - 1][0]}#{k})") != 'Ok':
            continue
        fin = r.final[0] if r.final else None
        st = fin.fields[0] if isinstance(fin, Agg) and fin.adt == 'ref' else fin
        try:
            ns = st.fields[1].fields[0].fields[0].fields[0]
            idx = ns.fields[0]
        except Exception:
            raise CheckError(f"{rule}: final naming state not readable on a rotation row")
        n += 1
        opened = next((v for a, v in r.cond if a.startswith('variant(') and 'open_log_file#' in a), None)
        if opened != 'Ok':
            n_fail += 1
        if f"index_for_rcurrent#{k}" not in repr(idx):
            bad = f"after index_for_rcurrent returned Ok (rCURRENT renamed) the stored index is {repr(idx)[:80]}" + (" on a path where the open of the new file fails" if opened != 'Ok' else '')
    if not bad and (n < 2 or n_fail < 1):
        raise CheckError(f"{rule}: rotation rows for Naming::Numbers not recognised ({n} rows, {n_fail} with a failing later step)")
    R.check(rule, f"{b.path}|index-stored-once-renamed", not bad, f"{n} rows ({n_fail} with a later failure): stored index = result of index_for_rcurrent",
            f"rotation with Naming::Numbers: {bad}: the next rotation renames the fresh rCURRENT onto an existing numbered file", where=b.loc())


def swap_rules(R, ctx):
    f, cg = ctx.f, ctx.cg
    b = ctx.body(r'::State::mount_next_linewriter_if_necessary$')
    rows = c09.mount_rows(ctx)
    bad = None
    n_ok = n_err = 0
    sel = ok_payload_selectors(f, ctx.body(r'^writers::file_log_writer::state::open_log_file$'), {'writer': r'dyn std::io::Write', 'path': r'^std::path::PathBuf$'})
    for r in rows:
        if r.undecided:
            bad = r.undecided
            break
        fin = r.final[0] if r.final else None
        st = fin.fields[0] if isinstance(fin, Agg) and fin.adt == 'ref' else fin
        if not (isinstance(st, Agg) and len(st.fields) >= 2):
            continue
        inner = st.fields[1]
        if not (isinstance(inner, Agg) and inner.variant == 'Active'):
            continue
        writer = repr(inner.fields[1])
        path = repr(inner.fields[2])
        opened_ok = any(a.startswith('variant(') and 'open_log_file#' in a and v == 'Ok' for a, v in r.cond)
        if opened_ok:
            if 'open_log_file#' not in writer or not writer.rstrip(')').endswith('.0.' + sel['writer']) and ('.0.' + sel['writer']) not in writer:
                bad = f"after a successful open the active writer is {short(writer)} instead of the newly opened file"
                break
            if 'open_log_file#' not in path or ('.0.' + sel['path']) not in path:
                bad = f"after a successful open the stored path is {short(path)} instead of the new path"
                break
            n_ok += 1
        else:
            if 'open_log_file' in writer or writer != '$self.inner.1':
                bad = f"the writer is replaced ({short(writer)}) although no file was opened successfully on this path"
                break
            n_err += 1
    R.check('R01.4', f"{b.path}|swap-after-open", not bad and n_ok > 0 and n_err > 0,
            f"{n_ok} success rows swap to the opened file, {n_err} other rows keep the old writer",
            f"rotation: {bad}", where=b.loc(), sample={'success_rows': n_ok, 'kept_rows': n_err})
    # no forget/leak of writers or state
    leaks = []
    for p_, es in cg.ext.items():
        for (n_, bb, t) in es:
            if re.search(r'^std::mem::forget$|ManuallyDrop::<T>::new$|Box::<T(, A)?>::leak$|^std::mem::forget', n_):
                leaks.append((p_, n_))
    R.check('R01.4', 'no-forget-or-leak', not leaks, "no mem::forget / ManuallyDrop / Box::leak in the crate",
            f"{leaks[:2]}: a leaked BufWriter is never flushed", where=leaks[0][0] if leaks else None)
    # every construction of Inner::Active takes its writer from open_log_file
    for (b2, bb, s) in aggregate_sites(f, r'state::Inner$', 'Active'):
        p = ctx.ip.prov(b2.path)
        roots = p.op_roots(s['rv']['ops'][1])
        # a private helper that builds the aggregate from its parameter (e.g. `OpenedLogFile::into_active(self, ..)`): the parameter is followed to the call sites
        xroots = {r_ for (_p, r_) in ctx.ip.expand(b2.path, roots)} | set(roots)
        ok = any(r_[0] in ('call', 'via') and r_[1].endswith(('open_log_file', 'initialize_with_rotation')) for r_ in xroots) and \
            not any(r_[0] == 'call' and re.search(r'File::create$|OpenOptions::open$|io::sink$|io::stdout$|io::stderr$', r_[1]) for r_ in xroots)
        R.check('R01.4', f"{b2.path}|active-writer-from-open", ok, "Inner::Active writer <= open_log_file",
                f"Inner::Active is built with a writer that does not come from open_log_file ({sorted(map(str, roots))[:4]})", where=b2.loc(bb))


# ---------------------------------------------------------------------------------------------- R01.5
_FLAG_CACHE = {}


def rotate_flag_arg(ctx, e, name='rotate_rcurrent'):
    """the described value ('True' / 'False' / other text) of the rotate flag handed to a callee that takes it either as a bool or as a
    private two-variant enum; for the enum the variant under which the callee attempts a rename counts as True"""
    f = ctx.f
    cb = f.bodies.get(e[0])
    if cb is None:
        raise CheckError(f"callee {e[0]} not found")
    params = cb.locals[1:cb.arg_count + 1]
    is_enum = lambda ty: ty in f.adts and len(f.adts[ty]['variants']) == 2 and not any(v['fields'] for v in f.adts[ty]['variants'])
    idx = next((i for i, l in enumerate(params) if l.get('name') == name and (l['ty'] == 'bool' or is_enum(l['ty']))), None)
    if idx is None:
        c = [i for i, l in enumerate(params) if l['ty'] == 'bool' or is_enum(l['ty'])]
        idx = c[0] if len(c) == 1 else None
    if idx is None or idx >= len(e[1]):
        from engine import AnchorError
        raise AnchorError(f"parameter {name} (bool or two-variant enum) of {e[0]} not found")
    val = e[1][idx]
    ty = params[idx]['ty']
    if ty == 'bool':
        return val
    key = (ctx.cfg, e[0], idx)
    if key not in _FLAG_CACHE:
        an = [f"p{i}" for i in range(len(params))]
        rows = FDI(f, effects=[r'^std::fs::rename$', r'FileSpec::as_pathbuf$', r'get_highest_index$', r'number_infix$'],
                   no_inline=[r'FileSpec::as_pathbuf$', r'get_highest_index$', r'number_infix$', r'FileSpec::list_of_files$']).run(e[0], arg_names=an)
        _FLAG_CACHE[key] = {r.get(f"variant(p{idx})") for r in rows if any(x[0] == 'std::fs::rename' for x in r.effects)} - {None}
    rot = _FLAG_CACHE[key]
    m = re.search(r'::(\w+)$', val)
    if m and rot:
        return str(m.group(1) in rot)
    return val


def index_table(R, ctx):
    f = ctx.f
    b = ctx.body(r'::numbers::index_for_rcurrent$')
    EFF = [r'^std::fs::rename$', r'numbers::get_highest_index$', r'FileSpec::as_pathbuf$', r'numbers::number_infix$', r'std::io::Error::kind$']
    I = FDI(f, effects=EFF, no_inline=EFF)
    # parameters by type (their order, and the representation of the flag - bool or a private two-variant enum - are private matters)
    an = []
    for l in b.locals[1:b.arg_count + 1]:
        ty = l['ty']
        an.append('o_index_for_rcurrent' if re.match(r'^std::option::Option<u32>$', ty) else
                  'rotate_rcurrent' if ty == 'bool' or (ty in f.adts and len(f.adts[ty]['variants']) == 2 and not any(v['fields'] for v in f.adts[ty]['variants'])) else 'cfg')
    if an.count('o_index_for_rcurrent') != 1 or an.count('rotate_rcurrent') != 1:
        raise CheckError(f"R01.5: parameters of index_for_rcurrent not recognised ({[l['ty'] for l in b.locals[1:b.arg_count + 1]]})")
    rows = I.run(b.path, arg_names=an)
    # the flag value that means "rotate the current file" is the one under which a rename is attempted
    flag_of = lambda r: r.get('rotate_rcurrent') if r.get('rotate_rcurrent') is not None else r.get('variant(rotate_rcurrent)')
    rotating = {flag_of(r) for r in rows if any(e[0] == 'std::fs::rename' for e in r.effects)}
    seen = set()
    for r in rows:
        given = r.get('variant(o_index_for_rcurrent)')
        fv = flag_of(r)
        rot = None if fv is None else (fv in rotating)
        ren = next((v for a, v in r.cond if a.startswith('variant(std::fs::rename#')), None)
        nf = None
        for a, v in r.cond:
            info = r.atom_info.get(a, {})
            x = info.get('x')
            if isinstance(x, tuple) and x[0] == 'call' and x[1].endswith('::ne') and 'NotFound' in repr(x):
                nf = (v is False)   # ne == False -> kind is NotFound
            if isinstance(x, tuple) and x[0] == 'call' and x[1].endswith('::eq') and 'NotFound' in repr(x):
                nf = (v is True)
            if info.get('kind') == 'ord' and 'NotFound' in repr(info) and 'Error::kind' in repr(info):
                nf = (v == 'eq')
        hi = next((v for a, v in r.cond if a.startswith('variant(') and 'get_highest_index#' in a), None)
        key = f"index_for_rcurrent|given={given}|highest={hi}|rotate={rot}|rename={ren}|notfound={nf}"
        seen.add((given, rot, ren))
        if r.undecided:
            R.bad('R01.5', key, f"UNDECIDED: {r.undecided}", where=b.loc())
            continue
        res = r.result
        base = None
        if given == 'Some':
            base = 'o_index_for_rcurrent.0'
        elif hi == 'Some':
            base = 'next-after-highest'
        elif hi == 'None':
            base = '0'
        val = repr(res.fields[0]) if isinstance(res, Agg) and res.variant == 'Ok' and res.fields else None

        def is_base(v):
            if v is None:
                return False
            if base == 'o_index_for_rcurrent.0':
                return v == '$o_index_for_rcurrent.0'
            if base == '0':
                return v == '0'
            return bool(re.match(r'^\$\(1\+[\w:]*get_highest_index#1\.0\)$', v))

        def is_base_plus_1(v):
            if v is None:
                return False
            if base == 'o_index_for_rcurrent.0':
                return v == '$(1+o_index_for_rcurrent.0)'
            if base == '0':
                return v == '1'
            return bool(re.match(r'^\$\(2\+[\w:]*get_highest_index#1\.0\)$', v))
        names = [e[0].split('::')[-1] for e in r.effects]
        if rot is False:
            ok = is_base(val) and 'rename' not in names
            exp = "no rename, index unchanged"
        elif ren == 'Ok':
            ok = is_base_plus_1(val)
            exp = "index + 1 after the successful rename"
        elif ren == 'Err' and nf is True:
            ok = is_base(val)
            exp = "index unchanged when there was no current file (NotFound)"
        elif ren == 'Err' and nf is False:
            ok = isinstance(res, Agg) and res.variant == 'Err'
            exp = "error propagated"
        else:
            ok, exp = False, "row not covered by the documented table"
        # rename operands
        if 'rename' in names:
            e = r.effects[names.index('rename')]
            a0, a1 = r.long(e[1][0]), r.long(e[1][1])
            src_ok = "as_pathbuf" in a0 and "'rCURRENT'" in a0
            dst_ok = "as_pathbuf" in a1 and "number_infix" in a1 and "'rCURRENT'" not in a1
            if not (src_ok and dst_ok):
                ok, exp = False, "rename(current file -> file with the number infix of the index)"
        R.check('R01.5', key, ok, exp, f"index_for_rcurrent [{given=}, highest={hi}, rotate={rot}, rename={ren}, notfound={nf}] returns {short(repr(res))}; documented: {exp}",
                where=b.loc(), sample={'given': given, 'rotate': rot, 'rename': ren, 'notfound': nf, 'result': short(repr(res), 80)})
    for need in (('Some', True, 'Ok'), ('Some', True, 'Err'), ('Some', False, None), ('None', True, 'Ok')):
        if need not in seen:
            R.bad('R01.5', f"index_for_rcurrent|missing-row:{need}", f"row {need} missing from the table", where=b.loc())


# ---------------------------------------------------------------------------------------------- R01.6
def collision_rules(R, ctx):
    f = ctx.f
    b = ctx.body(r'::State::mount_next_linewriter_if_necessary$')
    rows = c09.mount_rows(ctx)
    n = 0
    bad = None
    for r in rows:
        if r.get('variant(self.inner.0.0.naming_state)') != 'Timestamps' or r.get('variant(self.inner.0.0.naming_state.the_current_infix)') != 'None':
            continue
        for e in r.effects:
            if e[0].endswith('open_log_file'):
                infix = r.long(e[1][1])
                if not re.search(r'collision_free_infix_for_rotated_file#\d+\(&self\.config\.file_spec,&[\w:]*infix_from_timestamp#\d+\(&chrono::Local::now#', infix):
                    bad = f"direct timestamp rotation opens {short(infix)} without the collision check"
                n += 1
    R.check('R01.6', f"{b.path}|direct-ts-rotation", not bad and n > 0, f"{n} rows: open(collision_free(infix_from_timestamp(now)))",
            f"{bad} (a second rotation within the same second would truncate the file just closed)", where=b.loc())
    rn = c09.rotated_name_rows(ctx)
    errs = [d['error'] for d in rn if d.get('error')]
    if errs:
        raise CheckError(f"R01.6 rotated name: {errs[0]}")
    okn = bool(rn) and all(d['chain_ok'] for d in rn)
    R.check('R01.6', 'creation_timestamp_of_currentfile|rotated-name', okn, f"{len(rn)} rows: rotated name = as_pathbuf(collision_free(infix_from_timestamp(ts)))",
            f"the name of the rotated file is not collision-checked: {[d['witness'][:160] for d in rn if not d['chain_ok']][:1]}", where=None)
    # initialisation: infix opened with truncate (append = false) must be collision-checked for the direct timestamp namings
    ib = ctx.body(r'::State::initialize_with_rotation$')
    rows = init_rows(ctx)
    per = {}
    for r in rows:
        nm = r.get('variant(rotate_config.naming)')
        cur = r.get('variant(rotate_config.naming.current_infix)')
        if nm not in ('TimestampsDirect', 'TimestampsCustomFormat') or (nm == 'TimestampsCustomFormat' and cur != 'None'):
            continue
        for e in r.effects:
            if e[0].endswith('open_log_file'):
                infix = r.long(e[1][1])
                checked = 'collision_free_infix_for_rotated_file' in infix
                append = r.get('self.config.append')
                per.setdefault((nm, checked, append), 0)
                per[(nm, checked, append)] += 1
    for nm in ('TimestampsDirect', 'TimestampsCustomFormat'):
        unchecked_noappend = [k for k in per if k[0] == nm and not k[1] and k[2] is not True]
        R.check('R01.6', f"{ib.path}|{nm}|start-infix", not unchecked_noappend and any(k[0] == nm for k in per),
                "infix of the start file is collision-checked when the file is opened with truncation",
                f"start with naming {nm} and append=false opens the file named after the current second without the collision check: "
                "a restart within the same second truncates the previous run's file", where=ib.loc(),
                sample={'naming': nm, 'rows': {str(k): v for k, v in per.items() if k[0] == nm}})
