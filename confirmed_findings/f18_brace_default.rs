// F18: FlexiLogger::enabled() vs. FlexiLogger::log() for the brace target "{W,_Default}".
// Spec: "warn, f18_brace_default::mymod=trace"  (module `mymod` is enabled above the default).
// An additional writer "W" is registered whose max_log_level() is Warn.
use flexi_logger::writers::LogWriter;
use flexi_logger::{DeferredNow, FileSpec, Logger};
use std::path::Path;
use std::sync::{Arc, Mutex};

// additional writer "W": collects what it gets; only interested in Warn and above
struct W(Arc<Mutex<Vec<String>>>);
impl LogWriter for W {
    fn write(&self, _now: &mut DeferredNow, record: &log::Record) -> std::io::Result<()> {
        self.0
            .lock()
            .unwrap()
            .push(format!("{} {}", record.level(), record.args()));
        Ok(())
    }
    fn flush(&self) -> std::io::Result<()> {
        Ok(())
    }
    fn max_log_level(&self) -> log::LevelFilter {
        log::LevelFilter::Warn
    }
}

mod mymod {
    pub fn run() {
        println!("module_path!() here is {:?}", module_path!());
        println!(
            "log_enabled!(Debug)                          [normal target]  = {}",
            log::log_enabled!(log::Level::Debug)
        );
        println!(
            "log_enabled!(target: \"{{W,_Default}}\", Debug)                  = {}",
            log::log_enabled!(target: "{W,_Default}", log::Level::Debug)
        );
        println!(
            "log_enabled!(target: \"{{_Default}}\", Debug)                    = {}",
            log::log_enabled!(target: "{_Default}", log::Level::Debug)
        );
        log::debug!("MARKER-1 plain debug record from mymod");
        log::debug!(target: "{W,_Default}", "MARKER-2 debug record from mymod to {{W,_Default}}");
        log::debug!(target: "{_Default}", "MARKER-3 debug record from mymod to {{_Default}}");
        // the usual idiom: guard an expensive log call
        if log::log_enabled!(target: "{W,_Default}", log::Level::Debug) {
            log::debug!(target: "{W,_Default}", "MARKER-4 guarded by log_enabled!");
        }
    }
}

fn main() {
    let dir = Path::new("/tmp/confirm/run_f18_brace_default");
    let _ = std::fs::remove_dir_all(dir);
    std::fs::create_dir_all(dir).unwrap();

    let w_lines = Arc::new(Mutex::new(Vec::new()));
    let handle = Logger::try_with_str("warn, f18_brace_default::mymod=trace")
        .unwrap()
        .log_to_file(
            FileSpec::default()
                .directory(dir)
                .basename("prog")
                .suppress_timestamp(),
        )
        .add_writer("W", Box::new(W(Arc::clone(&w_lines))))
        .start()
        .unwrap();
    println!("log::max_level() = {:?}", log::max_level());

    mymod::run();
    handle.flush();

    println!("--- content of the default channel, {}/prog.log:", dir.display());
    print!("{}", std::fs::read_to_string(dir.join("prog.log")).unwrap());
    println!("--- records received by additional writer W:");
    for l in w_lines.lock().unwrap().iter() {
        println!("{l}");
    }
}
