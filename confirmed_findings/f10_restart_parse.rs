// F10: foreign "<basename>_<ts-infix>.restart-xy.log" file makes
// FileSpec::collision_free_infix_for_rotated_file panic inside a log call.
//
// usage: f10_restart_parse <variant>
//   custom-short : TimestampsCustomFormat{None, "r%Y-%m-%d"}, foreign file "...restart-xy.log"   (too short)
//   custom-alpha : TimestampsCustomFormat{None, "r%Y-%m-%d"}, foreign file "...restart-abcd.log" (non-numeric)
//   timestamps   : Naming::Timestamps (rCURRENT), foreign files for the next seconds, "...restart-abcd.log"
//   direct       : Naming::TimestampsDirect, foreign files for the next seconds, "...restart-abcd.log"
//   control      : custom format as above, but NO foreign file (shows that everything works then)
//   rotation     : custom format as above, foreign file "...restart-abcd.log" appears only AFTER the first
//                  log line was written, so that the panic happens in a later ROTATION, not at start
use chrono::{Duration, Local};
use flexi_logger::{Cleanup, Criterion, FileSpec, Logger, Naming};
use std::path::Path;

fn list(dir: &Path, title: &str) {
    println!("--- {title}: content of {}", dir.display());
    let mut v: Vec<String> = std::fs::read_dir(dir)
        .unwrap()
        .map(|e| e.unwrap().file_name().to_string_lossy().to_string())
        .collect();
    v.sort();
    for f in v {
        println!("    {f}");
    }
}

fn main() {
    let variant = std::env::args().nth(1).unwrap_or_else(|| "custom-short".to_string());
    let dir = format!("/tmp/confirm/run_f10_restart_parse/{variant}");
    let dir = Path::new(&dir);
    let _ = std::fs::remove_dir_all(dir);
    std::fs::create_dir_all(dir).unwrap();

    let now = Local::now();
    let naming = match variant.as_str() {
        "custom-short" | "custom-alpha" | "control" | "rotation" => {
            let day = now.format("r%Y-%m-%d").to_string();
            let foreign = match variant.as_str() {
                "custom-short" => Some(format!("prog_{day}.restart-xy.log")),
                "custom-alpha" => Some(format!("prog_{day}.restart-abcd.log")),
                _ => None,
            };
            if let Some(foreign) = foreign {
                std::fs::write(dir.join(&foreign), "foreign\n").unwrap();
            }
            Naming::TimestampsCustomFormat {
                current_infix: None,
                format: "r%Y-%m-%d",
            }
        }
        "timestamps" | "direct" => {
            // foreign files for the seconds now-2 ..= now+20
            for i in -2..=20 {
                let ts = now + Duration::try_seconds(i).unwrap();
                let infix = ts.format("r%Y-%m-%d_%H-%M-%S").to_string();
                std::fs::write(
                    dir.join(format!("prog_{infix}.restart-abcd.log")),
                    "foreign\n",
                )
                .unwrap();
            }
            if variant == "timestamps" {
                Naming::Timestamps
            } else {
                Naming::TimestampsDirect
            }
        }
        _ => panic!("unknown variant"),
    };
    if variant == "timestamps" || variant == "direct" {
        println!("--- (23 foreign files prog_r<now-2s..now+20s>.restart-abcd.log were created)");
    } else {
        list(dir, "before start");
    }

    let _handle = Logger::try_with_str("info")
        .unwrap()
        .log_to_file(
            FileSpec::default()
                .directory(dir)
                .basename("prog")
                .suppress_timestamp(),
        )
        .rotate(Criterion::Size(50), naming, Cleanup::Never)
        .start()
        .unwrap();
    println!("--- logger started (Logger::start() returned Ok)");

    for i in 0..5 {
        println!("--- calling log::info! #{i}");
        log::info!("line {i}: 0123456789 0123456789 0123456789 0123456789 0123456789");
        if variant == "rotation" && i == 0 {
            let day = now.format("r%Y-%m-%d").to_string();
            std::fs::write(dir.join(format!("prog_{day}.restart-abcd.log")), "foreign\n").unwrap();
            list(dir, "after first log line, foreign file now added");
        }
    }
    println!("--- all log calls returned normally");
    if variant == "control" {
        list(dir, "at end");
    }
}
