// F27: suffix that contains a dot ("log.txt") with rotation + cleanup.
//
// usage: cargo run --offline --example f27_dotted_suffix -- <run-number> [suffix]
//   run-number 1 : wipes the directory first, then logs 40 records "run1 rec NNN"
//   run-number 2 : "restart" in the same directory, logs 40 records "run2 rec NNN"
//   suffix       : default "log.txt"; use "log" as the control experiment
use flexi_logger::{Cleanup, Criterion, FileSpec, LogfileSelector, Logger, Naming};
use std::path::{Path, PathBuf};

fn listing(dir: &Path) -> Vec<PathBuf> {
    let mut v: Vec<PathBuf> = std::fs::read_dir(dir)
        .unwrap()
        .map(|e| e.unwrap().path())
        .collect();
    v.sort();
    v
}

fn show_dir(title: &str, dir: &Path) {
    println!("--- {title}: directory listing of {}", dir.display());
    for p in listing(dir) {
        let content = std::fs::read_to_string(&p).unwrap();
        let lines: Vec<&str> = content.lines().collect();
        println!(
            "  {:<28} {:>4} bytes, {} lines, first: {:?}, last: {:?}",
            p.file_name().unwrap().to_string_lossy(),
            content.len(),
            lines.len(),
            lines.first().copied().unwrap_or(""),
            lines.last().copied().unwrap_or("")
        );
    }
}

fn main() {
    let mut args = std::env::args().skip(1);
    let run: u32 = args.next().expect("run number").parse().unwrap();
    let suffix = args.next().unwrap_or_else(|| "log.txt".to_string());
    let dir = PathBuf::from("/tmp/confirm/run_f27_dotted_suffix").join(suffix.replace('.', "_"));

    if run == 1 {
        std::fs::remove_dir_all(&dir).ok();
    }
    std::fs::create_dir_all(&dir).unwrap();
    println!("===== run {run}, suffix {suffix:?} =====");
    show_dir("before start", &dir);

    let handle = Logger::try_with_str("info")
        .unwrap()
        .log_to_file(
            FileSpec::default()
                .directory(&dir)
                .basename("app")
                .suffix(suffix.as_str()),
        )
        .format(|w, _now, record| write!(w, "{}", record.args()))
        .rotate(
            Criterion::Size(200),
            Naming::Numbers,
            Cleanup::KeepLogFiles(2),
        )
        .start()
        .unwrap();

    for i in 0..40 {
        // 30 bytes + newline per record
        log::info!("run{run} rec {i:03} ................");
    }
    handle.flush();

    println!("--- existing_log_files(&LogfileSelector::default()):");
    let files = handle
        .existing_log_files(&LogfileSelector::default())
        .unwrap();
    println!("  {} entries", files.len());
    for f in &files {
        println!("  {}", f.display());
    }
    println!("--- existing_log_files(&LogfileSelector::default().with_r_current()):");
    let files = handle
        .existing_log_files(&LogfileSelector::default().with_r_current())
        .unwrap();
    println!("  {} entries", files.len());
    for f in &files {
        println!("  {}", f.display());
    }

    handle.shutdown();
    show_dir("after run", &dir);
}
