// F28: Naming::TimestampsDirect, same-second collisions (".restart-NNNN" siblings), then a
// restart with append().
//
// usage: cargo run --offline --example f28_ts_direct_append -- <run-number> <mode> [<n>]
//   run-number 1 : wipes the directory, waits for the beginning of a wall-clock second, then
//                  writes 30 records "r1-NNN" as fast as possible
//   run-number 2 : "restart" with .append() in the same directory, writes 10 records "r2-NNN"
//                  (start it at least one second after run 1); with <n> given: n records
//   mode "size"    : Criterion::Size(100), Cleanup::Never            (the scenario as described)
//   mode "cleanup" : Criterion::Size(100), Cleanup::KeepLogFiles(2)  (variant)
//   mode "trigger" : Criterion::Size(100_000), Cleanup::Never, run 1 calls
//                    LoggerHandle::trigger_rotation() after every 4th record (variant)
use flexi_logger::{Cleanup, Criterion, FileSpec, Logger, Naming};
use std::path::{Path, PathBuf};
use std::time::{Duration, SystemTime, UNIX_EPOCH};

fn show_dir(title: &str, dir: &Path) {
    println!("--- {title}: files in {} sorted by name", dir.display());
    let mut v: Vec<PathBuf> = std::fs::read_dir(dir)
        .unwrap()
        .map(|e| e.unwrap().path())
        .collect();
    v.sort();
    for p in v {
        let content = std::fs::read_to_string(&p).unwrap();
        let recs: Vec<&str> = content
            .lines()
            .map(|l| l.split(' ').next().unwrap_or(""))
            .collect();
        println!(
            "  {:<45} {:>4} bytes: {}",
            p.file_name().unwrap().to_string_lossy(),
            content.len(),
            recs.join(" ")
        );
    }
}

fn main() {
    let mut args = std::env::args().skip(1);
    let run: u32 = args.next().expect("run number").parse().unwrap();
    let mode = args.next().expect("mode");
    let dir = PathBuf::from("/tmp/confirm/run_f28_ts_direct_append").join(&mode);

    if run == 1 {
        std::fs::remove_dir_all(&dir).ok();
    }
    std::fs::create_dir_all(&dir).unwrap();
    println!("===== run {run}, mode {mode:?} =====");
    show_dir("before start", &dir);

    let (criterion, cleanup) = match mode.as_str() {
        "size" => (Criterion::Size(100), Cleanup::Never),
        "cleanup" => (Criterion::Size(100), Cleanup::KeepLogFiles(2)),
        "trigger" => (Criterion::Size(100_000), Cleanup::Never),
        _ => panic!("unknown mode"),
    };

    if run == 1 {
        // wait for the first 100 ms of a wall-clock second, so that everything that run 1 does
        // happens within one second
        loop {
            let ms = SystemTime::now()
                .duration_since(UNIX_EPOCH)
                .unwrap()
                .subsec_millis();
            if ms < 100 {
                break;
            }
            std::thread::sleep(Duration::from_millis(5));
        }
    }

    let mut logger = Logger::try_with_str("info")
        .unwrap()
        .log_to_file(FileSpec::default().directory(&dir).basename("app"))
        .format(|w, _now, record| write!(w, "{}", record.args()))
        .rotate(criterion, Naming::TimestampsDirect, cleanup);
    if run == 2 {
        // print_message: flexi_logger prints "Log is written to <path>" for every file it opens
        logger = logger.append().print_message();
    }
    let handle = logger.start().unwrap();

    let n: u32 = match args.next() {
        Some(s) => s.parse().unwrap(),
        None => {
            if run == 1 {
                30
            } else {
                10
            }
        }
    };
    for i in 0..n {
        // 30 bytes + newline per record
        log::info!("r{run}-{i:03} .......................");
        if mode == "trigger" && run == 1 && i % 4 == 3 && i < 20 {
            handle.trigger_rotation().unwrap();
        }
    }
    handle.flush();
    handle.shutdown();
    show_dir("after run", &dir);
}
