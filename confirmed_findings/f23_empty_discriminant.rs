// F23: FileSpec with an EMPTY discriminant keeps the separator: "prog_.log",
// whereas an empty basename is treated as absent.
use flexi_logger::{FileSpec, Logger};
use std::path::Path;

fn name(fs: &FileSpec, o_infix: Option<&str>) -> String {
    fs.as_pathbuf(o_infix)
        .file_name()
        .map(|s| s.to_string_lossy().to_string())
        .unwrap_or_else(|| "<no file name>".to_string())
}

fn main() {
    let dir = Path::new("/tmp/confirm/run_f23_empty_discriminant");
    let _ = std::fs::remove_dir_all(dir);
    std::fs::create_dir_all(dir).unwrap();

    let base = || FileSpec::default().directory(dir).suppress_timestamp();

    let suspect = base().basename("prog").discriminant("");
    println!("basename(\"prog\").discriminant(\"\")                 as_pathbuf(None)          -> {:?}", name(&suspect, None));
    println!("basename(\"prog\").discriminant(\"\")                 as_pathbuf(Some(\"r00000\")) -> {:?}", name(&suspect, Some("r00000")));
    let no_discr = base().basename("prog");
    println!("basename(\"prog\")  (no discriminant)               as_pathbuf(None)          -> {:?}", name(&no_discr, None));
    let none_discr = base().basename("prog").o_discriminant(Option::<String>::None);
    println!("basename(\"prog\").o_discriminant(None)             as_pathbuf(None)          -> {:?}", name(&none_discr, None));
    let discr = base().basename("prog").discriminant("d");
    println!("basename(\"prog\").discriminant(\"d\")                as_pathbuf(None)          -> {:?}", name(&discr, None));
    // for comparison: empty basename and empty infix are treated as absent
    let empty_base = base().basename("").discriminant("d");
    println!("basename(\"\").discriminant(\"d\")                    as_pathbuf(None)          -> {:?}", name(&empty_base, None));
    println!("basename(\"prog\")                                  as_pathbuf(Some(\"\"))      -> {:?}", name(&no_discr, Some("")));
    let both_empty = base().basename("").discriminant("");
    println!("basename(\"\").discriminant(\"\")                     as_pathbuf(None)          -> {:?}", name(&both_empty, None));
    println!("basename(\"\").discriminant(\"\")                     as_pathbuf(Some(\"r00000\")) -> {:?}", name(&both_empty, Some("r00000")));

    // and with a real logger
    let handle = Logger::try_with_str("info")
        .unwrap()
        .log_to_file(suspect)
        .start()
        .unwrap();
    log::info!("hello");
    handle.flush();
    println!("--- directory {} after logging with the suspect FileSpec:", dir.display());
    for e in std::fs::read_dir(dir).unwrap() {
        println!("    {}", e.unwrap().file_name().to_string_lossy());
    }
}
