use flexi_logger::{Age, Cleanup, Criterion, FileSpec, Logger, Naming};
use log::info;
fn main() {
    let dir = std::env::temp_dir().join(format!("f29_{}", std::process::id())).join("logs.restart-of-app");
    std::fs::create_dir_all(&dir).unwrap();
    for run in 0..3 {
        // TimestampsCustomFormat with day granularity: every rotation within a day collides
        let fs = FileSpec::default().directory(&dir).basename("demo").suppress_timestamp().o_suffix(Option::<String>::None);
        let r = std::panic::catch_unwind(|| {
            let flw = flexi_logger::writers::FileLogWriter::builder(fs)
                .rotate(Criterion::Size(50), Naming::TimestampsCustomFormat{current_infix: Some("cur"), format: "%Y-%m-%d"}, Cleanup::Never)
                .try_build().unwrap();
            use flexi_logger::writers::LogWriter;
            for i in 0..10 {
                flw.write(&mut flexi_logger::DeferredNow::new(), &log::Record::builder().args(format_args!("run {run} line {i} xxxxxxxxxxxxxxxxxxxxxxxxxxxxxxxxxxxxx")).level(log::Level::Info).build()).unwrap();
            }
            flw.shutdown();
        });
        println!("run {run}: panicked={}", r.is_err());
    }
    let mut names: Vec<_> = std::fs::read_dir(&dir).unwrap().map(|e| e.unwrap().file_name()).collect(); names.sort();
    println!("{names:?}");
    let _ = (Age::Day, info!("x"));
}
