// F13: Naming::writes_direct() (used for the cleanup at START) says `true` for
// TimestampsCustomFormat{current_infix: Some(""), ..}, NamingState::writes_direct()
// (used for the cleanup at ROTATION) says `false`.
// With Cleanup::KeepLogFiles(0): how many rotated files survive a start, how many a rotation?
//
// usage: f13_writes_direct [empty|token]
//    empty : current_infix: Some("")        (the suspect)
//    token : current_infix: Some("rCURRENT") (control: both functions agree -> false)
use flexi_logger::{Cleanup, Criterion, FileSpec, Logger, Naming};
use std::path::Path;

fn list(dir: &Path, title: &str) {
    println!("--- {title}:");
    let mut v: Vec<String> = std::fs::read_dir(dir)
        .unwrap()
        .map(|e| e.unwrap().file_name().to_string_lossy().to_string())
        .collect();
    v.sort();
    for f in &v {
        println!("    {f}");
    }
    println!(
        "    => {} rotated file(s) (names with a timestamp infix)",
        v.iter().filter(|f| f.starts_with("prog_2")).count()
    );
}

fn main() {
    let variant = std::env::args().nth(1).unwrap_or_else(|| "empty".to_string());
    let current_infix = match variant.as_str() {
        "empty" => "",
        "token" => "rCURRENT",
        _ => panic!("unknown variant"),
    };
    let dir = format!("/tmp/confirm/run_f13_writes_direct/{variant}");
    let dir = Path::new(&dir);
    let _ = std::fs::remove_dir_all(dir);
    std::fs::create_dir_all(dir).unwrap();

    // rotated files "of earlier runs"
    for ts in [
        "2026-01-01_10-00-00",
        "2026-01-02_10-00-00",
        "2026-01-03_10-00-00",
    ] {
        std::fs::write(dir.join(format!("prog_{ts}.log")), "old rotated file\n").unwrap();
    }
    list(dir, "before start (three rotated files of 'earlier runs')");

    let handle = Logger::try_with_str("info")
        .unwrap()
        .log_to_file(
            FileSpec::default()
                .directory(dir)
                .basename("prog")
                .suppress_timestamp(),
        )
        .rotate(
            Criterion::Size(1_000_000),
            Naming::TimestampsCustomFormat {
                current_infix: Some(current_infix),
                format: "%Y-%m-%d_%H-%M-%S",
            },
            Cleanup::KeepLogFiles(0),
        )
        .cleanup_in_background_thread(false)
        .start()
        .unwrap();

    log::info!("first line after start"); // the file log writer initialises lazily, here
    handle.flush();
    list(dir, "after START (+ first log line), Cleanup::KeepLogFiles(0)");

    handle.trigger_rotation().unwrap();
    log::info!("first line after rotation");
    handle.flush();
    list(dir, "after ROTATION, Cleanup::KeepLogFiles(0)");
}
