// F25: latest_timestamp_file() uses the constant InfixFilter::Numbrs ('r' + digit ...) and a
// fixed 20-byte infix; so with a custom timestamp format that does not start with "r<digit>",
// `.append()` does not continue the latest file of the previous run.
//
// usage: f25_latest_ts <custom|custom-r|custom-rday|direct> <run-number>
//    custom   : Naming::TimestampsCustomFormat{current_infix: None, format: "%Y-%m-%d_%H-%M-%S"}
//    custom-r : Naming::TimestampsCustomFormat{current_infix: None, format: "r%Y-%m-%d_%H-%M-%S"} (= what TimestampsDirect is documented to be)
//    custom-rday : Naming::TimestampsCustomFormat{current_infix: None, format: "r%Y-%m-%d"} (passes the Numbrs filter, but is shorter than 20 bytes)
//    direct   : Naming::TimestampsDirect
// run-number 1 wipes the directory first. Run it with 1, wait some seconds, run it with 2.
use flexi_logger::{Cleanup, Criterion, FileSpec, Logger, Naming};
use std::path::Path;

fn main() {
    let variant = std::env::args().nth(1).expect("variant");
    let run: u32 = std::env::args().nth(2).expect("run number").parse().unwrap();
    let naming = match variant.as_str() {
        "custom" => Naming::TimestampsCustomFormat {
            current_infix: None,
            format: "%Y-%m-%d_%H-%M-%S",
        },
        "custom-r" => Naming::TimestampsCustomFormat {
            current_infix: None,
            format: "r%Y-%m-%d_%H-%M-%S",
        },
        "custom-rday" => Naming::TimestampsCustomFormat {
            current_infix: None,
            format: "r%Y-%m-%d",
        },
        "direct" => Naming::TimestampsDirect,
        _ => panic!("unknown variant"),
    };
    let dir = format!("/tmp/confirm/run_f25_latest_ts/{variant}");
    let dir = Path::new(&dir);
    if run == 1 {
        let _ = std::fs::remove_dir_all(dir);
    }
    std::fs::create_dir_all(dir).unwrap();

    let handle = Logger::try_with_str("info")
        .unwrap()
        .log_to_file(
            FileSpec::default()
                .directory(dir)
                .basename("prog")
                .suppress_timestamp(),
        )
        .rotate(Criterion::Size(1_000_000), naming, Cleanup::Never)
        .append()
        .start()
        .unwrap();
    log::info!("line written by run {run} (pid {})", std::process::id());
    handle.flush();
    drop(handle);

    println!("--- [{variant}] directory after run {run}:");
    let mut v: Vec<_> = std::fs::read_dir(dir)
        .unwrap()
        .map(|e| e.unwrap().path())
        .collect();
    v.sort();
    for p in v {
        println!("    {}", p.file_name().unwrap().to_string_lossy());
        for l in std::fs::read_to_string(&p).unwrap().lines() {
            println!("        | {l}");
        }
    }
}
