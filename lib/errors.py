"""A6 — error-discipline classifier: what happens to the value of every call that returns a Result.

classes: propagate (`?`, returned), report (an adaptor/arm whose closure reaches util::eprint_err|eprint_msg), handle (discriminant
inspected, is_ok/is_err, converted and then consumed, replaced by a default), passed (handed to another function), panic
(unwrap/expect), discard (`.ok()`/`.err()` whose result is unused, `let _ =`, dropped temporary)."""
import re
from facts import callee_name
import cfg as C

RESULT_TY = re.compile(r'^std::result::Result<')
ADAPT_RESULT = re.compile(r'^std::result::Result::<T, E>::(map_err|inspect_err|inspect|map|and_then|or_else|or|and)$')
TERMINAL_CLOSURE = re.compile(r'^std::result::Result::<T, E>::(unwrap_or_else|map_or_else|map_or|is_ok_and|is_err_and)$')
TO_OPTION = re.compile(r'^std::result::Result::<T, E>::(ok|err)$')
PANIC = re.compile(r'^std::result::Result::<T, E>::(unwrap|expect|unwrap_err|expect_err)$')
DEFAULT = re.compile(r'^std::result::Result::<T, E>::(unwrap_or|unwrap_or_default)$')
TEST = re.compile(r'^std::result::Result::<T, E>::(is_ok|is_err|as_ref|as_mut|iter|as_deref)$')
REPORTERS = re.compile(r'^util::(eprint_err|eprint_msg|handle_error_error)$')


class Uses:
    def __init__(self, body):
        self.b = body
        self.stmt_uses = {}    # local -> list of (bb, stmt, how)
        self.call_uses = {}    # local -> list of (bb, term, argindex)
        self.switch_uses = {}
        for bb in sorted(body.normal_blocks()):
            blk = body.blocks[bb]
            for s in blk['stmts']:
                if s['k'] != 'assign':
                    continue
                rv = s['rv']
                for (op, how) in self._rv_ops(rv):
                    if op['k'] in ('copy', 'move'):
                        self.stmt_uses.setdefault(op['place']['l'], []).append((bb, s, how))
                if rv['k'] in ('ref', 'rawptr', 'discr'):
                    self.stmt_uses.setdefault(rv['place']['l'], []).append((bb, s, rv['k']))
                # writing through a projection of a local also reads it: ignore
            t = blk['term']
            if t['k'] == 'call':
                for i, a in enumerate(t['args']):
                    if a['k'] in ('copy', 'move'):
                        self.call_uses.setdefault(a['place']['l'], []).append((bb, t, i))
                c = t['callee']
                if c['k'] != 'def' and c.get('op', {}).get('k') in ('copy', 'move'):
                    self.call_uses.setdefault(c['op']['place']['l'], []).append((bb, t, -1))
            elif t['k'] == 'switch' and t['discr']['k'] in ('copy', 'move'):
                self.switch_uses.setdefault(t['discr']['place']['l'], []).append(bb)

    @staticmethod
    def _rv_ops(rv):
        k = rv['k']
        if k in ('use', 'cast', 'repeat'):
            return [(rv['op'], k)]
        if k == 'agg':
            return [(o, 'agg') for o in rv['ops']]
        if k == 'binop':
            return [(rv['a'], 'binop'), (rv['b'], 'binop')]
        if k == 'unop':
            return [(rv['a'], 'unop')]
        return []


class ErrorDiscipline:
    def __init__(self, facts, cg):
        self.f = facts
        self.cg = cg
        self._uses = {}
        self._reports = {}

    def uses(self, body):
        if body.path not in self._uses:
            self._uses[body.path] = Uses(body)
        return self._uses[body.path]

    def closure_reports(self, path):
        if path not in self._reports:
            self._reports[path] = bool(self.cg.reaches_effect(path, lambda n, t: False)) or \
                any(REPORTERS.search(x) for x in self.cg.reachable([path], spawn=False))
        return self._reports[path]

    def _closure_of_arg(self, body, op):
        """closure/fn path passed as operand (through plain moves)"""
        if op['k'] == 'const':
            if op.get('closure'):
                return op['closure']
            if op.get('fn'):
                return op['fn'].get('resolved') or op['fn']['path']
            return None
        if op['k'] in ('copy', 'move') and not op['place']['p']:
            clos = self.cg._closure_locals(body)
            return clos.get(op['place']['l'])
        return None

    def classify_local(self, body, local, depth=0, seen=None):
        """set of classes for a Result-carrying local"""
        if seen is None:
            seen = set()
        if local in seen or depth > 10:
            return set()
        seen.add(local)
        if local == 0:
            return {'propagate'}
        u = self.uses(body)
        out = set()
        any_use = False
        for (bb, s, how) in u.stmt_uses.get(local, []):
            any_use = True
            dst = s['place']
            if how == 'discr':
                out.add('handle')
                if self._err_arm_reports(body, bb, dst):
                    out.add('report')       # `if let Err(e) = r { eprint_err(..) }` / `match r { Err(e) => eprint_err(..), .. }`
            elif how in ('ref', 'rawptr'):
                # &result handed somewhere: follow the reference local
                sub = self.classify_local(body, dst['l'], depth + 1, seen) if not dst['p'] else {'handle'}
                out |= (sub - {'discard'}) or {'handle'}
            elif how in ('use', 'cast', 'agg'):
                if dst['l'] == 0:
                    out.add('propagate')
                elif dst['p']:
                    out.add('stored')
                else:
                    out |= self.classify_local(body, dst['l'], depth + 1, seen) or {'discard'}
            else:
                out.add('handle')
        for (bb, t, i) in u.call_uses.get(local, []):
            any_use = True
            n = callee_name(t)
            if n.endswith('as std::ops::Try>::branch'):
                out.add('propagate')
            elif PANIC.search(n):
                out.add('panic')
            elif DEFAULT.search(n):
                out.add('handle')
            elif TEST.search(n):
                out.add('handle')
            elif TO_OPTION.search(n):
                d = t['dest']
                sub = self._option_used(body, d['l']) if not d['p'] else True
                out.add('handle' if sub else 'discard')
            elif ADAPT_RESULT.search(n) and i == 0:
                rep = False
                if len(t['args']) > 1:
                    cp = self._closure_of_arg(body, t['args'][1])
                    if cp and (REPORTERS.search(cp) or (cp in self.f.bodies and self.closure_reports(cp))):
                        rep = True
                d = t['dest']
                sub = self.classify_local(body, d['l'], depth + 1, seen) if not d['p'] else {'stored'}
                if rep:
                    out.add('report')
                    sub = sub - {'discard'}      # error text went to the error channel first
                out |= sub if sub else ({'discard'} if not rep else set())
            elif TERMINAL_CLOSURE.search(n) and i == 0:
                rep = False
                for a in t['args'][1:]:
                    cp = self._closure_of_arg(body, a)
                    if cp and (REPORTERS.search(cp) or (cp in self.f.bodies and self.closure_reports(cp))):
                        rep = True
                out.add('report' if rep else 'handle')
            else:
                out.add('passed')
        for bb in u.switch_uses.get(local, []):
            any_use = True
            out.add('handle')
        if not any_use:
            out.add('discard')
        return out

    def _err_arm_reports(self, body, bb, dst):
        """the discriminant read in block bb (into place dst) is switched on, and the blocks reached only through the Err arm call a reporter"""
        t = body.blocks[bb]['term']
        if t['k'] != 'switch' or dst['p'] or t['discr']['k'] not in ('copy', 'move') or t['discr']['place']['l'] != dst['l']:
            return False
        arms = {str(a): tb for a, tb in t['arms']}
        err = arms.get('1', t['otherwise'] if '0' in arms else None)
        ok = arms.get('0', t['otherwise'] if '1' in arms else None)
        if err is None or ok is None or err == ok:
            return False
        if not hasattr(body, '_dom'):
            body._dom = C.dominators(body)
        only_err = {x for x, ds in body._dom.items() if err in ds}
        for x in only_err:
            tt = body.blocks[x]['term']
            if tt['k'] != 'call':
                continue
            n = callee_name(tt)
            if REPORTERS.search(n) or (n in self.f.bodies and self.closure_reports(n)):
                return True
        return False

    def _option_used(self, body, local, depth=0):
        u = self.uses(body)
        if local == 0:
            return True     # `.ok()` written straight into the return slot: the Option is the function's / closure's result
        if u.stmt_uses.get(local) or u.switch_uses.get(local):
            return True
        for (bb, t, i) in u.call_uses.get(local, []):
            return True
        return False

    def sites(self, skip=None):
        """(body, bb, callee, classes) for every call returning a Result in non-hidden code"""
        out = []
        for b in self.f.fn_bodies():
            if skip and skip(b):
                continue
            for bb, t in b.calls():
                if not RESULT_TY.search(t['dest_ty'] or ''):
                    continue
                n = callee_name(t)
                if n.endswith('as std::ops::Try>::branch') or 'FromResidual' in n or ADAPT_RESULT.search(n):
                    continue    # the adaptor's own result is classified through its source
                if t['dest']['p']:
                    cls = {'stored'}
                elif t['dest']['l'] == 0:
                    cls = {'propagate'}
                else:
                    cls = self.classify_local(b, t['dest']['l'])
                out.append((b, bb, n, cls))
        return out
