"""Decision-table comparison: rows produced by the FDI vs. an oracle written from the documentation.
Rows are partial assignments of atoms (lazy enumeration), so the oracle is evaluated in Kleene three-valued
logic: if the oracle's value is not determined by the atoms the code examined, the code ignores something the
documented decision depends on."""
from fdi import Const, Agg, Sym, Unknown, Undecided


def or3(*xs):
    if any(x is True for x in xs):
        return True
    if any(x is None for x in xs):
        return None
    return False


def and3(*xs):
    if any(x is False for x in xs):
        return False
    if any(x is None for x in xs):
        return None
    return True


def not3(x):
    return None if x is None else (not x)


def rel_to_bool(rel, op):
    """value of `a op b` given the relation of a to b in {lt, eq, gt, ne, None}"""
    if rel is None:
        return None
    if rel == 'ne':
        return {'eq': False, 'ne': True}.get(op)
    return {'eq': rel == 'eq', 'ne': rel != 'eq', 'lt': rel == 'lt', 'le': rel != 'gt', 'gt': rel == 'gt', 'ge': rel != 'lt'}[op]


def flip(rel):
    return {'lt': 'gt', 'gt': 'lt'}.get(rel, rel)


def strip_refs(x):
    while isinstance(x, tuple) and x and x[0] in ('ref', 'deref'):
        x = x[1]
    return x


def is_field(x, base, name):
    x = strip_refs(x)
    return isinstance(x, tuple) and x[0] == 'field' and x[2] == name and (base is None or strip_refs(x[1]) == base)


def field_chain(x):
    """('field', ('field', ('in','self'), 'a'), 'b') -> ('self', 'a', 'b')"""
    x = strip_refs(x)
    out = []
    while isinstance(x, tuple) and x[0] == 'field':
        out.append(x[2])
        x = strip_refs(x[1])
    if isinstance(x, tuple) and x[0] in ('in', 'atom'):
        out.append(x[1])
        return tuple(reversed(out))
    return None


class TableResult:
    def __init__(self):
        self.rows = 0
        self.mismatches = []   # (row, text)
        self.undecided = []


def compare(rows, classify, oracle, result_of=None, describe=None):
    """classify(atom, value, info) -> (key, semantic value) | None (unrecognised) | 'ignore'
    oracle(env) -> expected (None = undetermined);  result_of(row) -> observed."""
    res = TableResult()
    for r in rows:
        res.rows += 1
        if r.undecided:
            res.undecided.append((r, r.undecided))
            continue
        env = {}
        unknown = []
        for a, v in r.cond:
            c = classify(a, v, r.atom_info.get(a, {}))
            if c is None:
                unknown.append((a, v))
            elif c == 'ignore':
                continue
            else:
                env[c[0]] = c[1]
        exp = oracle(env)
        obs = result_of(r) if result_of else (r.result.v if isinstance(r.result, Const) else repr(r.result))
        if unknown:
            res.mismatches.append((r, f"the decision depends on a condition outside the documented one: {unknown[0][0]} = {unknown[0][1]}", env))
            continue
        if exp is None:
            res.mismatches.append((r, f"the code decides {obs!r} without examining a condition the documented decision depends on (examined: {env})", env))
        elif exp != obs:
            res.mismatches.append((r, f"documented decision {exp!r}, code decides {obs!r} for {env}", env))
    return res


# ------------------------------------------------------------------------------------------------ expression-tree helpers
def subterms(x):
    """all nested tuples of a structured expression (see FDI.xof)"""
    if isinstance(x, tuple):
        yield x
        for y in x:
            if isinstance(y, tuple):
                yield from subterms(y)


def eff_indices(x, rx):
    """indices k of the effect results ('eff', name, k, args) mentioned in x whose callee matches rx"""
    import re as _re
    return {t[2] for t in subterms(x) if len(t) >= 3 and t[0] == 'eff' and isinstance(t[1], str) and _re.search(rx, t[1])}


def fields_in(x):
    return {t[2] for t in subterms(x) if len(t) == 3 and t[0] == 'field'}


def inputs_in(x):
    return {t[1] for t in subterms(x) if len(t) == 2 and t[0] == 'in'}


def calls_in(x):
    return [t for t in subterms(x) if len(t) == 3 and t[0] == 'call' and isinstance(t[1], str)]


def is_input(x, name):
    return strip_refs(x) == ('in', name)


def max_leaves(x, rx=r'(^|::)max$'):
    """flatten nested max(..) calls: list of leaf expressions"""
    import re as _re
    x = strip_refs(x)
    if isinstance(x, tuple) and len(x) == 3 and x[0] == 'call' and _re.search(rx, x[1].replace('fn:', '')):
        out = []
        for a in x[2]:
            out += max_leaves(a, rx)
        return out
    return [x]
