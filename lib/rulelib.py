"""Helpers shared by the rule modules."""
import re
from facts import callee_name, place_str, op_str, const_repr
from callgraph import effect_class
import cfg as C


def calls_named(body, regex, normal_only=True):
    r = re.compile(regex) if isinstance(regex, str) else regex
    return [(bb, t) for bb, t in body.calls(normal_only) if r.search(callee_name(t))]


def arg_local(term, i):
    """local of the i-th argument if it is a plain local / projection of a local"""
    if i >= len(term['args']):
        return None
    a = term['args'][i]
    if a['k'] in ('copy', 'move'):
        return a['place']['l']
    return None


def uses_of_local(body, local):
    """(bb, term, argindex) of call sites where `local` (whole or projected) is an argument"""
    out = []
    for bb, t in body.calls():
        for i, a in enumerate(t['args']):
            if a['k'] in ('copy', 'move') and a['place']['l'] == local:
                out.append((bb, t, i))
    return out


RESULT_ADAPTORS = re.compile(r"std::result::Result::<T, E>::(map_err|inspect_err|map|inspect|or_else|and_then)$")


def try_edges(body, local, _depth=0):
    """Follow a Result-typed local to the construct that inspects it; returns list of (ok_bb, err_bb, how).
    Recognised: `?` (Try::branch + discriminant switch), `match`/`if let` (discriminant switch on the local),
    after any chain of Result->Result adaptors and plain moves."""
    out = []
    if _depth > 8:
        return out
    # moves into other locals
    for bb, blk in enumerate(body.blocks):
        for s in blk['stmts']:
            if s['k'] != 'assign':
                continue
            rv = s['rv']
            if rv['k'] == 'use' and rv['op']['k'] in ('move', 'copy') and rv['op']['place']['l'] == local and not rv['op']['place']['p'] \
                    and not s['place']['p'] and s['place']['l'] != local:
                out += try_edges(body, s['place']['l'], _depth + 1)
            if rv['k'] == 'discr' and rv['place']['l'] == local and not rv['place']['p']:
                # switch on it in this block
                t = blk['term']
                if t['k'] == 'switch' and t['discr']['k'] in ('move', 'copy') and t['discr']['place']['l'] == s['place']['l']:
                    ok = C.switch_edge_blocks(body, bb, 0)
                    err = C.switch_edge_blocks(body, bb, 1)
                    out.append((ok, err, 'match'))
    for bb, t, i in uses_of_local(body, local):
        if i != 0:
            continue
        n = callee_name(t)
        if n.endswith('as std::ops::Try>::branch'):
            d = t['dest']['l']
            nb = t['target']
            blk = body.blocks[nb]
            tt = blk['term']
            if tt['k'] == 'switch':
                ok = C.switch_edge_blocks(body, nb, 0)
                err = C.switch_edge_blocks(body, nb, 1)
                out.append((ok, err, '?'))
        elif RESULT_ADAPTORS.search(n):
            out += try_edges(body, t['dest']['l'], _depth + 1)
    return out


def ok_block_of_call(body, bb):
    """for a fallible call at bb: the blocks entered only when it returned Ok"""
    t = body.blocks[bb]['term']
    return try_edges(body, t['dest']['l'])


def pub_api_bodies(f):
    """bodies reachable by a user: effectively-public fns, trait impl methods of exported traits, Drop impls"""
    out = []
    for b in f.fn_bodies():
        if b.kind == 'Closure':
            continue
        if b.doc_hidden:
            continue
        if b.reachable or (b.impl_trait and b.kind == 'AssocFn'):
            out.append(b)
    return out


def fmt_site(body, bb=None):
    return f"{body.path} ({body.loc(bb)})"


def field_store_sites(f, field_name, adt_suffix=None):
    """(body, bb, stmt) of every assignment whose destination place ends in a field named `field_name`"""
    out = []
    for b in f.fn_bodies():
        for bb in sorted(b.normal_blocks()):
            for s in b.blocks[bb]['stmts']:
                if s['k'] == 'assign' and s['place']['p']:
                    last = s['place']['p'][-1]
                    if last['k'] == 'field' and last.get('name') == field_name:
                        out.append((b, bb, s))
    return out


def aggregate_sites(f, adt_regex, variant=None):
    r = re.compile(adt_regex)
    out = []
    for b in f.fn_bodies():
        for bb in sorted(b.normal_blocks()):
            for s in b.blocks[bb]['stmts']:
                if s['k'] == 'assign' and s['rv']['k'] == 'agg' and s['rv'].get('ak') == 'adt' and r.search(s['rv']['adt']):
                    if variant is None or s['rv']['variant'] == variant:
                        out.append((b, bb, s))
    return out


def place_fields(pl):
    return [e.get('name') or str(e.get('i')) for e in pl['p'] if e['k'] == 'field']


def receiver_field_chain(body, prov, term, argi=0):
    """field names through which the receiver argument of a call is reached, e.g. ['writers_handle','spec_stack']"""
    a = term['args'][argi]
    if a['k'] not in ('copy', 'move'):
        return set()
    out = set()
    if a['place']['p']:
        out.add(tuple(place_fields(a['place'])))
    for fp in prov.field_paths(a['place']['l']):
        out.add(tuple(fp[1:]) + tuple(place_fields(a['place'])))
    return out


def deep_call_roots(ctx, body, roots, depth=3):
    """transitively add the roots of the arguments of crate-local calls among `roots`
    (a value returned by a crate function is taken to derive from any of its arguments)"""
    p = ctx.ip.prov(body.path)
    out = set(roots)
    frontier = list(roots)
    seen = set()
    d = 0
    while frontier and d < depth:
        nxt = []
        for r in frontier:
            if r[0] == 'call' and r[1] in ctx.f.bodies and r not in seen:
                seen.add(r)
                t = body.blocks[r[2]]['term']
                for a in t['args']:
                    rs = p.op_roots(a)
                    for x in rs:
                        if x not in out:
                            out.add(x)
                            nxt.append(x)
        frontier = nxt
        d += 1
    return out


def try_break_blocks(body):
    """blocks entered on the Break(residual) edge of a `?` (Try::branch + switch)"""
    out = set()
    for bb, t in body.calls():
        if callee_name(t).endswith('as std::ops::Try>::branch') and t['target'] is not None:
            nb = t['target']
            tt = body.blocks[nb]['term']
            if tt['k'] == 'switch':
                out.add(C.switch_edge_blocks(body, nb, 1))
    # the hand-written form of `?`: `match r { Ok(v) => .., Err(e) => return Err(..) }` - blocks that build the Err return value
    for bb in body.normal_blocks():
        for s in body.blocks[bb]['stmts']:
            if s['k'] == 'assign' and s['place']['l'] == 0 and not s['place']['p'] and s['rv']['k'] == 'agg' and \
                    (s['rv'].get('adt') or '').endswith('result::Result') and s['rv'].get('variant') == 'Err':
                out.add(bb)
    return out


def must_pass(body, through_blocks, start=0, avoid=()):
    """every normal path from `start` to a Return that never enters `avoid` passes one of through_blocks"""
    through = set(through_blocks)
    avoid = set(avoid)
    if start in through:
        return True
    seen = set()
    st = [start]
    while st:
        b = st.pop()
        if b in seen or b in through or b in avoid:
            continue
        seen.add(b)
        if body.blocks[b]['term']['k'] == 'return':
            return False
        st.extend(body.succ(b))
    return True


def must_pass_after(body, after_bb, through_blocks, avoid=()):
    through = set(through_blocks)
    avoid = set(avoid)
    seen = set()
    st = list(body.succ(after_bb))
    while st:
        b = st.pop()
        if b in seen or b in through or b in avoid:
            continue
        seen.add(b)
        if body.blocks[b]['term']['k'] == 'return':
            return False
        st.extend(body.succ(b))
    return True


def root_fn(path):
    """the function a closure belongs to: path without its `::{closure#n}` suffixes (closure numbering changes under edits)"""
    return re.sub(r'(::\{closure#\d+\})+$', '', path)


def with_closures(f, b):
    """the body and the closures defined inside it"""
    pre = b.path + '::{closure'
    return [b] + [x for x in f.fn_bodies() if x.path.startswith(pre)]


def calls_with_closures(f, b):
    for x in with_closures(f, b):
        for bb, t in x.calls():
            yield x, bb, t


def only_called_from(cg, fn, roots, depth=6):
    """every (direct/dyn, same-thread) call chain into `fn` starts in one of `roots`: fn is a private helper of those functions"""
    if fn in roots:
        return True
    if depth == 0:
        return False
    callers = {root_fn(a) for (a, bb, k) in cg.callers.get(fn, [])}
    callers.discard(fn)
    return bool(callers) and all(only_called_from(cg, c, roots, depth - 1) for c in callers)


def spawned_entries(cg, spawner):
    """the closures / functions handed to thread::spawn (Builder::spawn) by `spawner` or one of its closures"""
    out = []
    for a, es in cg.spawn_edges.items():
        if root_fn(a) == spawner:
            out += [c for (c, bb, k) in es]
    return sorted(set(out))


def thread_owners(cg):
    """body -> set of spawner functions on whose spawned thread the body runs (same-thread reachability from the thread entry)"""
    out = {}
    for a, es in cg.spawn_edges.items():
        for (c, bb, k) in es:
            for q in cg.reachable([c], spawn=False):
                out.setdefault(q, set()).add(root_fn(a))
    return out


def eff_arg_x(f, e, name=None, ty=None):
    """like eff_arg, but the structured expression of the argument"""
    from engine import AnchorError
    cb = f.bodies.get(e[0])
    idx = None
    if cb is not None:
        params = cb.locals[1:cb.arg_count + 1]
        if name:
            idx = next((i for i, l in enumerate(params) if l.get('name') == name), None)
        if idx is None and ty:
            c = [i for i, l in enumerate(params) if re.search(ty, l['ty'])]
            idx = c[0] if len(c) == 1 else None
    if idx is None or idx >= len(e[2]['x']):
        raise AnchorError(f"parameter {name or ty} of {e[0]} not found")
    return e[2]['x'][idx]


def eff_arg(f, e, name=None, ty=None):
    """the argument of effect entry `e` (callee = a crate function) that is bound to the parameter called `name`, or - if the
    name is gone - to the only parameter whose type matches `ty`: positions change when a private signature is reordered"""
    from engine import AnchorError
    cb = f.bodies.get(e[0])
    idx = None
    if cb is not None:
        params = cb.locals[1:cb.arg_count + 1]
        if name:
            idx = next((i for i, l in enumerate(params) if l.get('name') == name), None)
        if idx is None and ty:
            c = [i for i, l in enumerate(params) if re.search(ty, l['ty'])]
            idx = c[0] if len(c) == 1 else None
    if idx is None or idx >= len(e[1]):
        raise AnchorError(f"parameter {name or ty} of {e[0]} not found")
    return e[1][idx]


def ok_payload_selectors(f, fn_body, wanted):
    """field selectors (tuple index or field name) of the Ok payload of `fn_body`'s Result return type, by field TYPE:
    wanted = {label: type regex}.  `(Box<dyn Write>, PathBuf)` and `struct Opened { writer, path }` are the same payload."""
    from fdi import split_generics
    from engine import AnchorError
    rt = fn_body.locals[0]['ty']
    head, args = split_generics(rt)
    if not head.endswith('result::Result') or not args:
        raise AnchorError(f"{fn_body.path} does not return a Result ({rt})")
    okt = args[0]
    if okt.startswith('('):
        elems = split_generics('T<' + okt[1:-1] + '>')[1]
        fields = [(str(i), t) for i, t in enumerate(elems)]
    elif okt in f.adts:
        fields = [(fd['name'], fd['ty']) for fd in f.adts[okt]['variants'][0]['fields']]
    else:
        raise AnchorError(f"Ok payload of {fn_body.path} is neither a tuple nor a crate struct: {okt}")
    out = {}
    for label, rx in wanted.items():
        c = [n for n, t in fields if re.search(rx, t)]
        if len(c) != 1:
            raise AnchorError(f"Ok payload of {fn_body.path}: {len(c)} fields of type /{rx}/")
        out[label] = c[0]
    return out


class Relabel:
    """forward the obligations of rule ids of another property's module under this property's rule id"""

    def __init__(self, R, mapping):
        self.R, self.m = R, mapping
        self.stats = R.stats

    def check(self, rule, *a, **kw):
        return self.R.check(self.m.get(rule, rule), *a, **kw)

    def bad(self, rule, *a, **kw):
        return self.R.bad(self.m.get(rule, rule), *a, **kw)

    def ok(self, rule, *a, **kw):
        return self.R.ok(self.m.get(rule, rule), *a, **kw)

    def rule(self, *a, **kw):
        pass


def family_predicate_proxy(R, ctx, rule, text):
    """the whole-function tables of the directory listing and of filter_files (C14 R14.2) under another property's rule id:
    every file of the logger's own family is recognised, nothing else is"""
    import c14
    R.rule(rule, text)
    RR = Relabel(R, {'R14.2': rule})
    c14.listing_table(RR, ctx, 'parameters::file_spec::FileSpec::read_dir_related_files')
    c14.family_table(RR, ctx, 'parameters::file_spec::FileSpec::filter_files')
