"""Lock regions: which lock guards are (may-/must-) held at each call site, intra- and interprocedurally."""
import re
from collections import defaultdict
from facts import callee_name
from callgraph import effect_class

GUARD_HEADS = ['std::sync::MutexGuard<', 'std::sync::RwLockReadGuard<', 'std::sync::RwLockWriteGuard<',
               'std::io::StdoutLock<', 'std::io::StderrLock<', 'std::cell::RefMut<', 'std::cell::Ref<',
               'primary_writer::std_stream::StdstreamLock<']
REENTRANT = ('std::io::StdoutLock<', 'std::io::StderrLock<', 'primary_writer::std_stream::StdstreamLock<')
REFCELL = ('std::cell::RefMut<', 'std::cell::Ref<')


def _match_angle(s, i):
    """s[i] is '<'; returns index after the matching '>'"""
    d = 0
    j = i
    while j < len(s):
        if s[j] == '<':
            d += 1
        elif s[j] == '>' and s[j - 1] != '-':
            d -= 1
            if d == 0:
                return j + 1
        j += 1
    return len(s)


def guard_classes(ty):
    """guard types contained (by value) in a type string; references to guards do not count"""
    if ty.startswith('&') or ty.startswith('*'):
        return []
    out = []
    for h in GUARD_HEADS:
        start = 0
        while True:
            i = ty.find(h, start)
            if i < 0:
                break
            # is it behind a reference inside the type? (e.g. Option<&mut MutexGuard<..>>)
            pre = ty[:i].rstrip()
            if pre.endswith('&') or pre.endswith('&mut') or re.search(r"&'?\w* ?(mut )?$", pre):
                start = i + len(h)
                continue
            e = _match_angle(ty, i + len(h) - 1)
            out.append(ty[i:e])
            start = e
    return sorted(set(out))


def guard_kind(g):
    if g.startswith(REENTRANT):
        return 'reentrant'
    if g.startswith(REFCELL):
        return 'refcell'
    return 'lock'


def protected(g):
    """the protected type T of Guard<'_, T>"""
    m = re.match(r"^[\w:]+<'_, (.*)>$", g)
    return m.group(1) if m else g


def _moved_locals(op):
    if op['k'] == 'move':
        return [op['place']['l']]
    return []


class BodyLocks:
    def __init__(self, body):
        self.b = body
        self.guards = {}
        for i, l in enumerate(body.locals):
            gc = guard_classes(l['ty'])
            if gc:
                self.guards[i] = gc
        self.entry_args = {i for i in self.guards if 1 <= i <= body.arg_count}
        self._solve()

    def _stmt_effect(self, s, st):
        """apply a statement to the state (set of live guard locals)"""
        if s['k'] != 'assign':
            return
        rv = s['rv']
        ops = []
        if rv['k'] == 'use':
            ops = [rv['op']]
        elif rv['k'] == 'agg':
            ops = rv['ops']
        elif rv['k'] == 'cast':
            ops = [rv['op']]
        for o in ops:
            for l in _moved_locals(o):
                if l in self.guards:
                    st.discard(l)
        dl = s['place']['l']
        if dl in self.guards and not s['place']['p']:
            # (re)initialised if the source carries a guard
            carries = False
            for o in ops:
                if o['k'] in ('move', 'copy') and o['place']['l'] in self.guards:
                    carries = True
            if carries:
                st.add(dl)

    def _term_out(self, bb, st):
        """state on the normal out-edge(s) of bb, given state before the terminator"""
        t = self.b.blocks[bb]['term']
        st = set(st)
        if t['k'] == 'drop':
            if not t['place']['p']:
                st.discard(t['place']['l'])
        elif t['k'] == 'call':
            for a in t['args']:
                for l in _moved_locals(a):
                    st.discard(l)
            d = t['dest']
            if d['l'] in self.guards and not d['p']:
                st.add(d['l'])
        return st

    def _edge_kill(self, p, n):
        """drop elaboration of a partially moved enum (`if let Ok(g) = m.lock() {..}`): `SWITCH discriminant(_x)` with one
        arm that only drops _x and another that skips the drop.  On the skipping arm the content of _x was moved out:
        _x holds no guard there."""
        blk = self.b.blocks[p]
        t = blk['term']
        if t['k'] != 'switch' or t['discr']['k'] not in ('copy', 'move') or t['discr']['place']['p'] or len(blk['stmts']) != 1:
            return None
        s = blk['stmts'][0]
        if s['k'] != 'assign' or s['rv']['k'] != 'discr' or s['place']['l'] != t['discr']['place']['l'] or s['rv']['place']['p']:
            return None
        x = s['rv']['place']['l']
        if x not in self.guards:
            return None
        targets = [tb for _, tb in t['arms']] + [t['otherwise']]
        drops = [tb for tb in targets if tb is not None and self.b.blocks[tb]['term']['k'] == 'drop' and not self.b.blocks[tb]['stmts']
                 and self.b.blocks[tb]['term']['place']['l'] == x and not self.b.blocks[tb]['term']['place']['p']
                 and self.b.blocks[tb]['term'].get('line') == t.get('line')]
        if drops and n not in drops:
            return x
        return None

    def _block_states(self, bb, st_in):
        st = set(st_in)
        for s in self.b.blocks[bb]['stmts']:
            self._stmt_effect(s, st)
        return st

    def _solve(self):
        b = self.b
        nodes = sorted(b.normal_blocks())
        preds = b.preds()
        may_in = {n: set() for n in nodes}
        must_in = {n: None for n in nodes}   # None = TOP (unvisited)
        may_in[0] = set(self.entry_args)
        must_in[0] = set(self.entry_args)
        changed = True
        while changed:
            changed = False
            for n in nodes:
                if n != 0:
                    ps = [p for p in preds[n] if p in may_in]
                    nm = set()
                    nmust = None
                    for p in ps:
                        o_may = self._term_out(p, self._block_states(p, may_in[p]))
                        ek = self._edge_kill(p, n)
                        if ek is not None:
                            o_may.discard(ek)
                        nm |= o_may
                        if must_in[p] is not None:
                            o_must = self._term_out(p, self._block_states(p, must_in[p]))
                            if ek is not None:
                                o_must.discard(ek)
                            nmust = o_must if nmust is None else (nmust & o_must)
                    if nm != may_in[n]:
                        may_in[n] = nm
                        changed = True
                    if nmust != must_in[n]:
                        must_in[n] = nmust
                        changed = True
        self.may_in = may_in
        self.must_in = must_in

    def may_at_term(self, bb):
        return self._block_states(bb, self.may_in.get(bb, set()))

    def must_at_term(self, bb):
        m = self.must_in.get(bb)
        return self._block_states(bb, m if m is not None else set())

    def classes(self, locs):
        out = set()
        for l in locs:
            out.update(self.guards[l])
        return out


class LockAnalysis:
    """interprocedural may-held lock classes at every call site"""

    def __init__(self, facts, cg):
        self.f = facts
        self.cg = cg
        self.bl = {}
        for b in facts.fn_bodies():
            self.bl[b.path] = BodyLocks(b)
        self.entry = defaultdict(set)   # body path -> set of guard classes may-held at entry (same thread)
        self._fix()

    def _fix(self):
        changed = True
        while changed:
            changed = False
            for caller, es in self.cg.edges.items():
                bl = self.bl.get(caller)
                if bl is None:
                    continue
                for (c, bb, k) in es:
                    if bb is None:
                        held = set(self.entry[caller])
                    else:
                        held = bl.classes(bl.may_at_term(bb)) | self.entry[caller]
                    if not held <= self.entry[c]:
                        self.entry[c] |= held
                        changed = True

    def may_held(self, path, bb):
        bl = self.bl[path]
        return bl.classes(bl.may_at_term(bb)) | self.entry[path]

    def must_held_local(self, path, bb):
        bl = self.bl[path]
        return bl.classes(bl.must_at_term(bb))

    def acquisitions(self):
        """(body path, bb, acquired class, held-before classes)"""
        out = []
        for p, bl in self.bl.items():
            b = bl.b
            for bb, t in b.calls():
                n = callee_name(t)
                e = effect_class(n)
                if e in ('LOCK_MUTEX', 'LOCK_RW_READ', 'LOCK_RW_WRITE', 'LOCK_STD', 'TRY_BORROW'):
                    gc = guard_classes(t['dest_ty'])
                    out.append((p, bb, gc[0] if gc else t['dest_ty'], self.may_held(p, bb), e))
        return out
