"""A7 — may-panic site enumerator, loop inventory; sites are tagged with the locks that may be held."""
import re
from facts import callee_name
import cfg as C

UNWRAP = re.compile(r'^std::(option::Option::<T>|result::Result::<T, E>)::(unwrap|expect|unwrap_err|expect_err)$')
PANICKING = re.compile(r'^core::panicking::|^std::rt::begin_panic|^std::panicking::begin_panic|^core::option::(expect|unwrap)_failed|^core::result::unwrap_failed')
RANGE_INDEX = re.compile(r"(ops::Index<.*> for str>::index$|SliceIndex<str>.*>::index$|slice::index::<impl .*Index<I> for \[T\]>::index$|"
                         r"^<std::string::String as std::ops::Index<.*>>::index$|as std::ops::Index(Mut)?<.*>>::index(_mut)?$)")
BORROW = re.compile(r'^std::cell::RefCell::<T>::borrow(_mut)?$')
TLS = re.compile(r'^std::thread::LocalKey::<T>::with$')
# std operations that panic on an index / byte offset that is out of range or not on a char boundary
STD_INDEXED = re.compile(r"^std::string::String::(truncate|insert|insert_str|remove|split_off|drain|replace_range)$|^core::str::<impl str>::(split_at|split_at_mut)$|"
                         r"^std::vec::Vec::<T, A>::(remove|insert|swap_remove|split_off|drain)$|^core::slice::<impl \[T\]>::(split_at|split_at_mut|copy_from_slice|clone_from_slice|swap)$|"
                         r"^std::collections::VecDeque::<T, A>::(insert|swap)$")
ARITH = re.compile(r'^<std::time::(Instant|Duration|SystemTime) as std::ops::(Add|Sub)(<.*>)?>::(add|sub)$')


def sites_of(body):
    """list of dict(kind, what, bb, line, exp) for the may-panic constructs of one body (normal blocks only)"""
    out = []
    for bb in sorted(body.normal_blocks()):
        t = body.blocks[bb]['term']
        if t['k'] == 'assert':
            out.append({'kind': 'assert', 'what': t['msg'], 'bb': bb, 'line': t['line'], 'exp': t.get('exp', False)})
        elif t['k'] == 'call':
            n = callee_name(t)
            kind = None
            if UNWRAP.search(n):
                kind = 'unwrap'
                what = n.split('::')[2].split('<')[0] + '::' + n.split('::')[-1]
                targs = t['callee'].get('targs') or []
                what += '<' + (targs[0] if targs else '?')[:60] + '>'
                if 'result::Result' in n and len(targs) > 1:
                    what += ';E=' + targs[1][:60]      # the error type: `PoisonError<..>` means poison only, whatever wraps the lock call
            elif PANICKING.search(n):
                kind, what = 'panic', n.split('::')[-1]
            elif RANGE_INDEX.search(n):
                kind, what = 'index', (t['callee'].get('self_ty') or n)[-50:]
            elif BORROW.search(n):
                kind, what = 'borrow', n.split('::')[-1]
            elif TLS.search(n):
                kind, what = 'tls', 'LocalKey::with'
            elif ARITH.search(n):
                kind, what = 'time-arith', n
            elif STD_INDEXED.search(n):
                kind, what = 'index', n.split('::')[-2].split('<')[0] + '::' + n.split('::')[-1] + ' (panics on an out-of-range / non-boundary index)'
            if kind:
                out.append({'kind': kind, 'what': what, 'bb': bb, 'line': t['line'], 'exp': t.get('exp', False)})
    return out


def loops_of(body):
    """natural loops by back edges (target dominates source); returns list of dict(header, blocks, callees)"""
    dom = C.dominators(body)
    out = []
    for b in sorted(body.normal_blocks()):
        for s in body.succ(b):
            if s in dom.get(b, ()):   # back edge b -> s
                # loop body: nodes that reach b without passing s
                blocks = {s, b}
                st = [b]
                preds = body.preds()
                while st:
                    x = st.pop()
                    for p in preds.get(x, []):
                        if p not in blocks and p in dom and s in dom[p]:
                            blocks.add(p)
                            st.append(p)
                callees = sorted({callee_name(body.blocks[x]['term']) for x in blocks if body.blocks[x]['term']['k'] == 'call'})
                out.append({'header': s, 'blocks': blocks, 'callees': callees, 'line': body.blocks[s]['term']['line']})
    # merge loops with the same header
    merged = {}
    for l in out:
        m = merged.setdefault(l['header'], {'header': l['header'], 'blocks': set(), 'callees': set(), 'line': l['line']})
        m['blocks'] |= l['blocks']
        m['callees'] |= set(l['callees'])
    return list(merged.values())
