"""Loading and basic navigation of the MIR facts emitted by driver/ (fl-facts)."""
import json, re, os
from collections import defaultdict


def place_str(pl, body=None):
    s = f"_{pl['l']}"
    if body is not None:
        nm = body.locals[pl['l']].get('name')
        if nm:
            s = f"_{pl['l']}<{nm}>"
    for e in pl['p']:
        k = e['k']
        if k == 'deref':
            s = f"(*{s})"
        elif k == 'field':
            s = f"{s}.{e['name'] if e.get('name') else e['i']}"
        elif k == 'downcast':
            s = f"({s} as {e['variant']})"
        elif k == 'index':
            s = f"{s}[_{e['local']}]"
        else:
            s = f"{s}.<{k}>"
    return s


def const_repr(op):
    v = op.get('val')
    if op.get('fn'):
        return 'fn ' + op['fn']['path']
    if v:
        if v['k'] == 'scalar':
            if op.get('variant'):
                return f"{op['ty']}::{op['variant']}"
            return f"{v['v']}_{op['ty']}"
        if v['k'] == 'str':
            return json.dumps(v['v'])
        if v['k'] == 'bytes':
            return 'b' + json.dumps(bytes(v['v']).decode('latin1'))
        if v['k'] == 'zst':
            return f"<{op['ty']}>"
    return op.get('dbg', '?')


def op_str(op, body=None):
    k = op['k']
    if k in ('copy', 'move'):
        return f"{k} {place_str(op['place'], body)}"
    if k == 'const':
        d = op.get('def')
        return f"const {const_repr(op)}" + (f" [{d}]" if d else '')
    return op.get('dbg', '?')


def rv_str(rv, body=None):
    k = rv['k']
    if k == 'use':
        return op_str(rv['op'], body)
    if k == 'ref':
        return ('&mut ' if rv['mut'] else '&') + place_str(rv['place'], body)
    if k == 'binop':
        return f"{rv['op']}({op_str(rv['a'], body)}, {op_str(rv['b'], body)})"
    if k == 'unop':
        return f"{rv['op']}({op_str(rv['a'], body)})"
    if k == 'cast':
        return f"{op_str(rv['op'], body)} as {rv['ty']} [{rv['ck']}]"
    if k == 'discr':
        return f"discriminant({place_str(rv['place'], body)})"
    if k == 'agg':
        ops = ', '.join(op_str(o, body) for o in rv['ops'])
        if rv['ak'] == 'adt':
            return f"{rv['adt']}::{rv['variant']} {{{ops}}}"
        if rv['ak'] == 'closure':
            return f"closure {rv['closure']} [{ops}]"
        return f"{rv['ak']}({ops})"
    if k == 'tlsref':
        return f"tls {rv['def']}"
    return rv.get('dbg', k)


def callee_name(term):
    """Canonical name of a call's callee: the resolved implementation if rustc could resolve it
    statically, otherwise the declared path (trait method for dyn calls)."""
    c = term['callee']
    if c['k'] == 'def':
        if c.get('resolved') and c.get('resolved_kind') in ('item', 'intrinsic', 'cloneshim'):
            return c['resolved']
        return c['path']
    if c['k'] == 'ptr':
        return 'fnptr:' + c['ty']
    return 'unknown:' + c['ty']


class Body:
    def __init__(self, j):
        self.j = j
        self.path = j['path']
        self.owner = j['owner']
        self.kind = j['kind']
        self.span = j['span']
        self.file = j['span']['file']
        self.line = j['span']['line']
        self.arg_count = j['arg_count']
        self.locals = j['locals']
        self.blocks = j['blocks']
        self.promoted = j['promoted']
        self.impl_trait = j.get('impl_trait')
        self.impl_self = j.get('impl_self')
        self.sig = j.get('sig')
        self.is_pub = j.get('pub', False)
        self.reachable = j.get('reachable', False)
        self.doc_hidden = j.get('doc_hidden', False)
        self.captures = j.get('captures', [])
        self.closure_parent = j.get('closure_parent')
        self.root = j.get('root') or self.owner
        self._succ = None
        self._pred = None

    # --- CFG -----------------------------------------------------------------------------
    def term(self, bb):
        return self.blocks[bb]['term']

    def succ(self, bb, unwind=False):
        t = self.blocks[bb]['term']
        k = t['k']
        out = []
        if k == 'goto':
            out = [t['target']]
        elif k == 'switch':
            out = [a[1] for a in t['arms']] + [t['otherwise']]
        elif k in ('drop', 'assert'):
            out = [t['target']]
        elif k == 'call':
            out = [t['target']] if t['target'] is not None else []
        if unwind and t.get('unwind') is not None:
            out = out + [t['unwind']]
        seen = []
        for x in out:
            if x not in seen:
                seen.append(x)
        return seen

    def preds(self):
        if self._pred is None:
            self._pred = defaultdict(list)
            for i in range(len(self.blocks)):
                for s in self.succ(i):
                    self._pred[s].append(i)
        return self._pred

    def normal_blocks(self):
        """blocks reachable from bb0 over normal (non-unwind) edges"""
        seen = {0}
        st = [0]
        while st:
            b = st.pop()
            for s in self.succ(b):
                if s not in seen:
                    seen.add(s)
                    st.append(s)
        return seen

    def calls(self, normal_only=True):
        nb = self.normal_blocks() if normal_only else range(len(self.blocks))
        for i in sorted(nb):
            t = self.blocks[i]['term']
            if t['k'] == 'call':
                yield i, t

    def return_blocks(self):
        return [i for i in self.normal_blocks() if self.blocks[i]['term']['k'] == 'return']

    def local_ty(self, l):
        return self.locals[l]['ty']

    def local_name(self, l):
        return self.locals[l].get('name')

    def loc(self, bb=None):
        if bb is None:
            return f"{self.file}:{self.line}"
        return f"{self.file}:{self.blocks[bb]['term']['line']}"

    # --- pretty printing -------------------------------------------------------------------
    def pretty(self):
        out = [f"fn {self.path}  [{self.kind}] {self.file}:{self.line} sig={self.sig}"]
        for i, l in enumerate(self.locals):
            out.append(f"    let _{i}: {l['ty']}" + (f"  // {l['name']}" if l.get('name') else ''))
        for i, b in enumerate(self.blocks):
            out.append(f"  bb{i}{' (cleanup)' if b['cleanup'] else ''}:")
            for s in b['stmts']:
                if s['k'] == 'assign':
                    out.append(f"    {place_str(s['place'], self)} = {rv_str(s['rv'], self)}   // L{s['line']}")
                else:
                    out.append(f"    {s['k']} {s.get('dbg', '')}")
            t = b['term']
            k = t['k']
            if k == 'call':
                args = ', '.join(op_str(a, self) for a in t['args'])
                out.append(f"    {place_str(t['dest'], self)} = CALL {callee_name(t)}({args}) -> bb{t['target']} unwind {t['unwind']}   // L{t['line']}{' EXP' if t['exp'] else ''}")
            elif k == 'switch':
                arms = ', '.join(f"{a[0]}->bb{a[1]}" for a in t['arms'])
                out.append(f"    SWITCH {op_str(t['discr'], self)} [{arms}, else->bb{t['otherwise']}]   // L{t['line']}")
            elif k == 'drop':
                out.append(f"    DROP {place_str(t['place'], self)} : {t['ty']} -> bb{t['target']}   // L{t['line']}")
            elif k == 'assert':
                out.append(f"    ASSERT {op_str(t['cond'], self)} == {t['expected']} [{t['msg']}] -> bb{t['target']}   // L{t['line']}")
            elif k == 'goto':
                out.append(f"    GOTO bb{t['target']}")
            else:
                out.append(f"    {k.upper()} {t.get('dbg', '')}")
        return '\n'.join(out)


class Facts:
    def __init__(self, path, normalise=True):
        with open(path) as f:
            text = f.read()
        self.aliases = []
        if normalise:
            import baseline
            cfg = re.search(r'"config":\s*"([\w]+)"', text[-400:] + text[:400])
            j, self.aliases = baseline.normalise_text(text, cfg.group(1) if cfg else '?')
        else:
            j = json.loads(text)
        self.j = j
        self.crate = j['crate']
        self.bodies = {}
        for b in j['bodies']:
            self.bodies[b['path']] = Body(b)
        self.adts = {a['path']: a for a in j['adts']}
        self.impls = j['impls']
        self.traits = {t['path']: t for t in j['traits']}
        self.statics = j['statics']
        self.consts = {c['path']: c for c in j['consts']}
        self.crate_attrs = j['crate_attrs']
        self.config = j.get('config', '?')

    def body(self, path):
        LOOKUPS.add(path)
        return self.bodies.get(path)

    def fn_bodies(self):
        return [b for b in self.bodies.values() if b.promoted is None and b.kind in ('Fn', 'AssocFn', 'Closure')]

    def find(self, regex):
        r = re.compile(regex)
        return [b for p, b in self.bodies.items() if r.search(p)]

    def one(self, regex):
        m = [b for b in self.find(regex) if b.promoted is None]
        if len(m) != 1:
            raise AnchorError(f"anchor /{regex}/ matched {len(m)} bodies: {[b.path for b in m][:6]}")
        LOOKUPS.add(m[0].path)
        return m[0]

    def stats(self):
        nb = len(self.fn_bodies())
        nc = sum(1 for b in self.fn_bodies() for _ in b.calls())
        return {'bodies': nb, 'call_sites': nc}


LOOKUPS = set()   # bodies looked up by name as anchors; read by tools/footprint.py only


class AnchorError(Exception):
    pass
