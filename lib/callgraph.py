"""Call graph over the crate's MIR bodies, with closure, fn-item-as-value, dyn-dispatch and fn-pointer edges,
and a classification of external callees into effect classes."""
import re
from collections import defaultdict
from facts import callee_name

FORMAT_FN_RE = re.compile(r"^(for<[^>]*> )?fn\(&'?\w* ?mut \(dyn std::io::Write[^)]*\), &'?\w* ?mut deferred_now::DeferredNow, "
                          r"&'?\w* ?log::Record<'?\w*>\) -> std::result::Result<\(\), std::io::Error>$")

# ---- effect classes of external callees (exact canonical names or regexes) -------------------------
EFFECTS = [
    ('FS_RENAME', r'^std::fs::rename$'),
    ('FS_REMOVE', r'^std::fs::remove_file$|^std::fs::remove_dir'),
    ('FS_OPEN', r'^std::fs::OpenOptions::open$'),
    ('FS_CREATE', r'^std::fs::File::create$|^std::fs::File::create_new$'),
    ('FS_OPEN_R', r'^std::fs::File::open$'),
    ('FS_SYMLINK', r'^std::os::unix::fs::symlink$'),
    ('FS_READDIR', r'^std::fs::read_dir$'),
    ('FS_META', r'^std::fs::metadata$|^std::fs::symlink_metadata$|^std::path::Path::(exists|is_file|is_dir)$'),
    ('FS_MKDIR', r'^std::fs::create_dir_all$|^std::fs::DirBuilder::create$'),
    ('FS_WRITE_WHOLE', r'^std::fs::write$|^std::fs::copy$|^std::fs::remove_dir_all$|^std::fs::hard_link$|^std::fs::set_permissions$'),
    ('CLOCK', r'^chrono::Local::now$|^chrono::Utc::now$|^std::time::SystemTime::now$'),
    ('GATE', r'^log::set_max_level$'),
    ('CHAN_SEND', r'^crossbeam_channel::Sender::<T>::send$|^std::sync::mpsc::Sender::<T>::send$|^crossbeam_channel::Sender::<T>::try_send$'),
    ('CHAN_RECV', r'^crossbeam_channel::Receiver::<T>::recv$|^std::sync::mpsc::Receiver::<T>::recv$'),
    ('CHAN_RECV_TIMEOUT', r'Receiver::<T>::recv_timeout$'),
    ('JOIN', r'^std::thread::JoinHandle::<T>::join$'),
    ('SPAWN', r'^std::thread::Builder::spawn$|^std::thread::spawn$|^std::thread::Builder::spawn_scoped$'),
    ('LOCK_MUTEX', r'^std::sync::Mutex::<T>::lock$'),
    ('LOCK_RW_READ', r'^std::sync::RwLock::<T>::read$'),
    ('LOCK_RW_WRITE', r'^std::sync::RwLock::<T>::write$'),
    ('LOCK_STD', r'^std::io::Std(out|err)::lock$'),
    ('TRY_BORROW', r'^std::cell::RefCell::<T>::try_borrow_mut$'),
    ('BORROW_PANIC', r'^std::cell::RefCell::<T>::borrow(_mut)?$'),
    ('GZ_FINISH', r'^flate2::write::GzEncoder::<W>::finish$'),
    ('GZ_NEW', r'^flate2::write::GzEncoder::<W>::new$'),
    ('IO_COPY', r'^std::io::copy$'),
    ('FORGET', r'^std::mem::forget$|^std::mem::ManuallyDrop::<T>::new$|^std::boxed::Box::<T(, A)?>::leak$'),
    ('PANIC', r'^core::panicking::|^std::rt::begin_panic|^std::panicking::begin_panic'),
    ('UNWRAP', r'^std::(option::Option|result::Result)::<T(, E)?>::(unwrap|expect|unwrap_err|expect_err)$'),
]
_EFF = [(n, re.compile(r)) for n, r in EFFECTS]


def effect_class(name):
    for n, r in _EFF:
        if r.search(name):
            return n
    return None


def is_write_all(term):
    n = callee_name(term)
    return n.endswith('::write_all') or n == 'std::io::Write::write_all'


def is_partial_write(term):
    """`Write::write` (the partial write) — by declared trait method"""
    c = term['callee']
    return c['k'] == 'def' and c.get('trait') == 'std::io::Write' and c['path'] == 'std::io::Write::write'


def is_flush(term):
    c = term['callee']
    return c['k'] == 'def' and c.get('trait') == 'std::io::Write' and c['path'] == 'std::io::Write::flush'


def trait_method(term):
    c = term['callee']
    if c['k'] == 'def' and c.get('trait'):
        return c['path']
    return None


def self_ty(term):
    c = term['callee']
    return c.get('self_ty') or c.get('resolved_self') or c.get('impl_self') or ''


class CallGraph:
    USER = '<USER>'

    def __init__(self, facts):
        self.f = facts
        self.edges = defaultdict(list)    # caller path -> list of (callee path, bb, kind)
        self.spawn_edges = defaultdict(list)
        self.ext = defaultdict(list)      # caller path -> list of (ext name, bb, term)
        self.callers = defaultdict(list)
        self.impl_methods = defaultdict(list)   # trait method path -> [impl method paths in crate]
        self.format_fns = []
        self._build()

    def _build(self):
        f = self.f
        # trait method -> impls
        for imp in f.impls:
            if imp['trait']:
                for it in imp['items']:
                    if it['path'] in f.bodies:
                        self.impl_methods[f"{imp['trait']}::{it['name']}"].append(it['path'])
        for tp, t in f.traits.items():
            for it in t['items']:
                if it['has_default'] and it['path'] in f.bodies:
                    self.impl_methods[it['path']].append(it['path'])
        for b in f.fn_bodies():
            if b.sig and FORMAT_FN_RE.search(b.sig) and b.kind == 'Fn':
                self.format_fns.append(b.path)
        # which concrete types are ever coerced to a trait object inside the crate (unsizing casts): the candidates of a
        # `dyn StdTrait` call are the crate impls whose self type occurs among these sources
        self.unsize_sources = defaultdict(set)
        for b in f.fn_bodies():
            for blk in b.blocks:
                for s_ in blk['stmts']:
                    if s_['k'] == 'assign' and s_['rv']['k'] == 'cast' and 'Unsize' in s_['rv'].get('ck', '') and 'dyn ' in s_['rv']['ty']:
                        op = s_['rv']['op']
                        if op['k'] in ('copy', 'move'):
                            src = b.locals[op['place']['l']]['ty']
                            for m_ in re.finditer(r'dyn ([\w:]+)', s_['rv']['ty']):
                                self.unsize_sources[m_.group(1)].add(src)
        self.impl_self = {}
        for imp in f.impls:
            if imp['trait']:
                for it in imp['items']:
                    self.impl_self[it['path']] = imp['self_ty']
        for b in f.fn_bodies():
            self._body_edges(b)
        for a, es in self.edges.items():
            for (c, bb, k) in es:
                self.callers[c].append((a, bb, k))
        for a, es in self.spawn_edges.items():
            for (c, bb, k) in es:
                self.callers[c].append((a, bb, 'spawn'))

    def _closure_locals(self, b):
        """local -> closure path for locals assigned a closure aggregate (and simple moves of them)"""
        m = {}
        for blk in b.blocks:
            for s in blk['stmts']:
                if s['k'] == 'assign' and s['rv']['k'] == 'agg' and s['rv'].get('ak') == 'closure' and not s['place']['p']:
                    m[s['place']['l']] = s['rv']['closure']
        changed = True
        while changed:
            changed = False
            for blk in b.blocks:
                for s in blk['stmts']:
                    if s['k'] == 'assign' and s['rv']['k'] == 'use' and s['rv']['op']['k'] in ('move', 'copy') and not s['place']['p']:
                        src = s['rv']['op']['place']
                        if not src['p'] and src['l'] in m and s['place']['l'] not in m:
                            m[s['place']['l']] = m[src['l']]
                            changed = True
        return m

    def _body_edges(self, b):
        f = self.f
        clos = self._closure_locals(b)
        passed = set()
        for bb, t in b.calls(normal_only=False):
            name = callee_name(t)
            c = t['callee']
            eff = effect_class(name)
            # closures / fn items passed as arguments
            is_spawn = eff == 'SPAWN' or name.startswith('notify_debouncer_mini::new_debouncer')
            for a in t['args']:
                if a['k'] in ('move', 'copy') and not a['place']['p'] and a['place']['l'] in clos:
                    cp = clos[a['place']['l']]
                    passed.add(cp)
                    (self.spawn_edges if is_spawn else self.edges)[b.path].append((cp, bb, 'closure-arg'))
                elif a['k'] == 'const' and a.get('fn'):
                    fp = a['fn'].get('resolved') or a['fn']['path']
                    if fp in f.bodies:
                        (self.spawn_edges if is_spawn else self.edges)[b.path].append((fp, bb, 'fn-value'))
                    else:
                        self.ext[b.path].append((fp, bb, t))
                elif a['k'] == 'const' and a.get('closure'):
                    cp = a['closure']
                    passed.add(cp)
                    (self.spawn_edges if is_spawn else self.edges)[b.path].append((cp, bb, 'closure-arg'))
            if c['k'] == 'def':
                if name in f.bodies:
                    self.edges[b.path].append((name, bb, 'direct'))
                elif c.get('trait') and (c.get('resolved_kind') in (None, 'virtual')) and c['path'] in self.impl_methods or \
                        (c.get('trait') and c['path'] in self.impl_methods and 'dyn ' in (c.get('self_ty') or '')):
                    std_trait = c['trait'].split('::')[0] in ('std', 'core', 'alloc')
                    srcs = self.unsize_sources.get(c['trait'], set())
                    for imp in self.impl_methods[c['path']]:
                        if std_trait:
                            st_ = (self.impl_self.get(imp) or '').split('<')[0]
                            if not st_ or not any(st_ in x for x in srcs):
                                continue
                        self.edges[b.path].append((imp, bb, 'dyn'))
                    if std_trait:
                        self.ext[b.path].append((name, bb, t))
                    else:
                        self.ext[b.path].append((self.USER + ':' + c['path'], bb, t))
                elif c.get('trait') and c['trait'].split('::')[0] not in ('std', 'core', 'alloc') and c.get('resolved') is None \
                        and c['trait'] in f.traits:
                    # crate trait, unresolved, no impls with bodies -> user code
                    self.ext[b.path].append((self.USER + ':' + c['path'], bb, t))
                else:
                    self.ext[b.path].append((name, bb, t))
                    # calling a closure through Fn* traits with a known closure type
                    if c.get('trait', '').startswith('std::ops::Fn') or c.get('trait', '').startswith('core::ops::function::Fn'):
                        st = c.get('self_ty') or ''
                        if 'fn(' in st and FORMAT_FN_RE.search(st):
                            self._fmt_edges(b, bb, t)
            elif c['k'] == 'ptr':
                if FORMAT_FN_RE.search(c['ty']):
                    self._fmt_edges(b, bb, t)
                else:
                    self.ext[b.path].append(('fnptr:' + c['ty'], bb, t))
            else:
                self.ext[b.path].append((name, bb, t))
        # closures created but not passed to a call here: still may-call (returned/stored closures)
        for l, cp in clos.items():
            if cp not in passed:
                self.edges[b.path].append((cp, None, 'closure-created'))

    def _fmt_edges(self, b, bb, t):
        for fp in self.format_fns:
            self.edges[b.path].append((fp, bb, 'fmtptr'))
        self.ext[b.path].append((self.USER + ':FormatFunction', bb, t))

    # ------------------------------------------------------------------------------------
    def reachable(self, roots, spawn=True, stop=()):
        seen = set()
        st = list(roots)
        while st:
            x = st.pop()
            if x in seen or x in stop:
                continue
            seen.add(x)
            for (c, bb, k) in self.edges.get(x, []):
                st.append(c)
            if spawn:
                for (c, bb, k) in self.spawn_edges.get(x, []):
                    st.append(c)
        return seen

    def may_effects(self, root, spawn=False, stop=()):
        """set of effect classes / external names reachable from root (same thread unless spawn)"""
        out = set()
        for p in self.reachable([root], spawn=spawn, stop=stop):
            for (n, bb, t) in self.ext.get(p, []):
                out.add(n)
        return out

    def reaches_effect(self, root, pred, spawn=False, stop=()):
        """list of (body path, bb, name) for external callees satisfying pred reachable from root"""
        out = []
        for p in sorted(self.reachable([root], spawn=spawn, stop=stop)):
            for (n, bb, t) in self.ext.get(p, []):
                if pred(n, t):
                    out.append((p, bb, n))
        return out

    def call_sites_reaching(self, body, pred, spawn=False, stop=()):
        """call sites (bb) in `body` that are, or transitively reach, an external callee satisfying pred"""
        out = []
        memo = {}

        def reach(p):
            if p not in memo:
                memo[p] = bool(self.reaches_effect(p, pred, spawn=spawn, stop=stop))
            return memo[p]

        for (n, bb, t) in self.ext.get(body.path, []):
            if pred(n, t):
                out.append((bb, n, 'direct'))
        for (c, bb, k) in self.edges.get(body.path, []):
            if bb is not None and c not in stop and reach(c):
                out.append((bb, c, k))
        return sorted(set(out), key=lambda x: (x[0], x[1]))

    def chain(self, root, pred, spawn=False):
        """one call chain root -> ... -> body containing an external callee satisfying pred"""
        prev = {root: None}
        st = [root]
        while st:
            x = st.pop(0)
            for (n, bb, t) in self.ext.get(x, []):
                if pred(n, t):
                    path = [f"{n}"]
                    cur = x
                    while cur is not None:
                        path.append(cur)
                        cur = prev[cur]
                    return list(reversed(path))
            es = list(self.edges.get(x, [])) + (list(self.spawn_edges.get(x, [])) if spawn else [])
            for (c, bb, k) in es:
                if c not in prev:
                    prev[c] = x
                    st.append(c)
        return None
