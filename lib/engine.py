"""Check runner: extracts facts for the tier's configurations, runs the property's rule module on each,
aggregates verdicts (keys are configuration independent) and writes evidence."""
import importlib, os, sys, time, traceback

HERE = os.path.dirname(os.path.abspath(__file__))
VERIF = os.path.dirname(HERE)
sys.path.insert(0, HERE)
sys.path.insert(0, os.path.join(VERIF, 'rules'))

import extract
from facts import Facts, AnchorError
from callgraph import CallGraph
from locks import LockAnalysis
from prov import InterProv
from report import Report, CheckError

_CTX_CACHE = {}


class Ctx:
    def __init__(self, cfg, facts_file):
        self.cfg = cfg
        self.f = Facts(facts_file)
        self.features = set(extract.ALL_FEATURES) if cfg == 'all' else self._features(cfg)
        self._cg = None
        self._la = None
        self._ip = None

    @staticmethod
    def _features(cfg):
        base = {'colors', 'textfilter'}
        if cfg == 'nodefault':
            return set()
        extra = {
            'default': set(), 'async': {'async'}, 'compress': {'compress'}, 'buffer_writer': {'buffer_writer'},
            'json': {'json'}, 'kv': {'kv'}, 'specfile_wn': {'specfile_without_notification'},
            'specfile': {'specfile', 'specfile_without_notification'}, 'syslog_writer': {'syslog_writer'},
            'trc': {'trc', 'async', 'specfile', 'specfile_without_notification'},
        }[cfg]
        return base | extra

    def has(self, feat):
        return feat in self.features

    tier = 'quick'

    def k(self, quick, thorough):
        """tier dependent bound (loop unrolling, inline depth)"""
        return thorough if Ctx.tier == 'thorough' else quick

    @property
    def cg(self):
        if self._cg is None:
            self._cg = CallGraph(self.f)
        return self._cg

    @property
    def locks(self):
        if self._la is None:
            self._la = LockAnalysis(self.f, self.cg)
        return self._la

    @property
    def ip(self):
        if self._ip is None:
            self._ip = InterProv(self.f, self.cg)
        return self._ip

    def body(self, regex):
        return self.f.one(regex)

    def opt_body(self, regex):
        m = [b for b in self.f.find(regex) if b.promoted is None]
        return m[0] if len(m) == 1 else None


def get_ctx(cfg, repo=None):
    key = (cfg, repo)
    if key not in _CTX_CACHE:
        ff = extract.extract(cfg, repo or extract.REPO)
        _CTX_CACHE[key] = Ctx(cfg, ff)
    return _CTX_CACHE[key]


def run_check(prop, tier):
    mod = importlib.import_module(prop.lower())
    Ctx.tier = tier
    R = Report(prop, tier)
    cfgs = extract.QUICK if tier == 'quick' else extract.THOROUGH
    for cfg in cfgs:
        R.cur_cfg = cfg
        try:
            ctx = get_ctx(cfg)
        except extract.ExtractError as e:
            R.error(f"extraction failed for configuration {cfg}: {str(e)[:2000]}")
            continue
        R.cfgs.append(cfg)
        st = ctx.f.stats()
        R.stats.setdefault('bodies_analysed', {})[cfg] = st['bodies']
        R.stats.setdefault('call_sites', {})[cfg] = st['call_sites']
        R.stats['tree_hash'] = ctx.f.j.get('tree_hash')
        if ctx.f.aliases:
            R.stats.setdefault('renamed_anchors_resolved_against_baseline', {})[cfg] = ctx.f.aliases
        try:
            mod.run(R, ctx)
        except AnchorError as e:
            R.error(f"[{cfg}] missing/ambiguous anchor: {e}")
        except CheckError as e:
            R.error(f"[{cfg}] {e}")
        except Exception as e:
            R.error(f"[{cfg}] internal error in rule module: {e!r} :: {traceback.format_exc()[-1500:]}")
    R.cur_cfg = None
    floors = getattr(mod, 'FLOORS', {})
    # vacuity guard: per-rule instance floors (numbers confirmed by hand on the pinned tree)
    per_rule = {}
    for o in R.obligations:
        per_rule.setdefault(o['rule'], set()).add(o['key'])
    for rid, fl in floors.items():
        n = len(per_rule.get(rid, ()))
        if n < fl and not R.errors:
            R.error(f"rule {rid}: only {n} instances found, floor is {fl} (confirmed by hand) - rule would pass vacuously")
    import fdi, facts as _facts
    roots = lambda names: sorted({n.split('::{closure')[0] for n in names})
    return R.finish(mod.EXPLANATION, mod.ASSUMPTIONS, mod.NOT_DECIDED, extra={'instance_floors': floors,
                    'instances_per_rule': {k: len(v) for k, v in sorted(per_rule.items())}, 'decision_tables': dict(fdi.STATS),
                    'functions_interpreted_by_decision_tables': roots(fdi.FOOTPRINT),
                    'anchor_functions_looked_up': roots(_facts.LOOKUPS)})
