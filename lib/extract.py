"""Runs the fact extractor on /repo's current working tree (one run per feature configuration),
caching by a hash of the tree so that the 20 checks of one run share one extraction."""
import hashlib, os, subprocess, sys, fcntl, glob, shutil, time, json

VERIF = os.path.dirname(os.path.dirname(os.path.abspath(__file__)))
REPO = os.environ.get('FL_REPO', '/repo')
CACHE = os.path.join(VERIF, '.cache')
DRIVER = os.path.join(VERIF, 'driver', 'target', 'release', 'fl-facts')

ALL_FEATURES = ['async', 'buffer_writer', 'colors', 'compress', 'dont_minimize_extra_stacks', 'json', 'kv',
                'specfile', 'specfile_without_notification', 'syslog_writer', 'textfilter', 'trc']

CONFIGS = {
    'default': [],
    'all': ['--all-features'],
    'nodefault': ['--no-default-features'],
    'async': ['--features', 'async'],
    'compress': ['--features', 'compress'],
    'buffer_writer': ['--features', 'buffer_writer'],
    'json': ['--features', 'json'],
    'kv': ['--features', 'kv'],
    'specfile_wn': ['--features', 'specfile_without_notification'],
    'specfile': ['--features', 'specfile'],
    'syslog_writer': ['--features', 'syslog_writer'],
    'trc': ['--features', 'trc'],
}
QUICK = ['default', 'all']
THOROUGH = list(CONFIGS)


class ExtractError(Exception):
    pass


def tree_hash(repo=REPO):
    h = hashlib.sha256()
    files = []
    for root, dirs, fs in os.walk(os.path.join(repo, 'src')):
        dirs.sort()
        for f in sorted(fs):
            files.append(os.path.join(root, f))
    for f in ('Cargo.toml', 'Cargo.lock'):
        p = os.path.join(repo, f)
        if os.path.exists(p):
            files.append(p)
    for p in files:
        h.update(os.path.relpath(p, repo).encode())
        h.update(b'\0')
        with open(p, 'rb') as fh:
            h.update(fh.read())
        h.update(b'\0')
    with open(DRIVER, 'rb') as fh:  # a rebuilt driver invalidates cached facts
        h.update(hashlib.sha256(fh.read()).digest())
    return h.hexdigest()[:16]


def sysroot_lib():
    out = subprocess.run(['rustc', '+nightly', '--print', 'sysroot'], capture_output=True, text=True, check=True)
    return os.path.join(out.stdout.strip(), 'lib')


def facts_path(cfg, repo=REPO, crate='flexi_logger'):
    return os.path.join(CACHE, 'facts', f"{crate}-{cfg}-{tree_hash(repo)}.json")


def extract(cfg, repo=REPO, crate='flexi_logger', verbose=False):
    """returns the path of the fact file for (cfg, current tree); runs the driver if necessary"""
    if not os.path.exists(DRIVER):
        raise ExtractError(f"driver not built: {DRIVER} (run setup_cmd)")
    os.makedirs(os.path.join(CACHE, 'facts'), exist_ok=True)
    out = facts_path(cfg, repo, crate)
    if os.path.exists(out):
        return out
    tag = os.environ.get('FL_CACHE_TAG', '')     # parallel self-test jobs (each on its own scratch clone) use their own cargo target directory
    lock = open(os.path.join(CACHE, f'lock-{crate}-{cfg}{tag}'), 'w')
    fcntl.flock(lock, fcntl.LOCK_EX)
    try:
        if os.path.exists(out):
            return out
        target = os.path.join(CACHE, f'target-{crate}-{cfg}{tag}')
        # cargo's freshness cache would skip the wrapper: forget the member's fingerprint
        for fp in glob.glob(os.path.join(target, 'debug', '.fingerprint', f'{crate}-*')):
            shutil.rmtree(fp, ignore_errors=True)
        tmp = out + f'.tmp{os.getpid()}'
        env = dict(os.environ)
        env.update({
            'LD_LIBRARY_PATH': sysroot_lib() + ':' + env.get('LD_LIBRARY_PATH', ''),
            'RUSTFLAGS': '-Zmir-opt-level=0 -Awarnings',
            'RUSTC_WORKSPACE_WRAPPER': DRIVER,
            'FL_FACTS_CRATE': crate,
            'FL_FACTS_OUT': tmp,
            'CARGO_TARGET_DIR': target,
            'CARGO_NET_OFFLINE': 'true',
            'CARGO_INCREMENTAL': '0',
        })
        cmd = ['cargo', '+nightly', 'check', '--offline', '--lib'] + CONFIGS[cfg]
        t0 = time.time()
        r = subprocess.run(cmd, cwd=repo, env=env, capture_output=True, text=True)
        if r.returncode != 0 or not os.path.exists(tmp):
            tail = '\n'.join((r.stdout + r.stderr).splitlines()[-40:])
            raise ExtractError(f"fact extraction failed for config {cfg} (exit {r.returncode}):\n{tail}")
        # stamp the configuration into the document
        with open(tmp) as f:
            j = json.load(f)
        j['config'] = cfg
        j['tree_hash'] = tree_hash(repo)
        j['extract_s'] = round(time.time() - t0, 2)
        with open(tmp, 'w') as f:
            json.dump(j, f)
        os.replace(tmp, out)
        # keep the cache small: drop fact files of other trees for this cfg
        for old in glob.glob(os.path.join(CACHE, 'facts', f'{crate}-{cfg}-*.json')):
            if old != out and time.time() - os.path.getmtime(old) > 3600:
                try:
                    os.remove(old)
                except OSError:
                    pass
        if verbose:
            print(f"extracted {cfg} in {time.time() - t0:.1f}s -> {out}", file=sys.stderr)
        return out
    finally:
        fcntl.flock(lock, fcntl.LOCK_UN)
        lock.close()


if __name__ == '__main__':
    cfgs = sys.argv[1:] or QUICK
    for c in cfgs:
        print(extract(c, verbose=True))
