"""Iterator adaptors and consumers for the decision-table interpreter.

A `for` loop and the equivalent combinator chain (`iter().find(..)`, `.map(..).max()`, `.fold(..)`, `.any(..)`) must
produce the same decision rows, otherwise a rule written against one form raises an alarm on the other.  Adaptors are
lazy values `Agg('iter:<kind>', [inner, closure])`; every consumer is the documented loop over `next()`; `next()` of a
base iterator (slice::Iter, hash_map::Values, Split, ...) is the same designated effect / atom that a `for` loop over
that iterator produces, so the rows (atoms `variant(<.. as Iterator>::next#k)`, payload `...next#k.0`) coincide.
The number of `next()` calls per consumer is bounded like a MIR loop (loop_k + 1 calls, then the path is cut)."""
import re
import fdi as F

ADAPTORS = ('map', 'filter', 'filter_map', 'copied', 'cloned', 'inspect', 'take_while', 'map_while')
CONSUMERS = ('find', 'find_map', 'any', 'all', 'fold', 'for_each', 'max', 'min', 'position', 'reduce')

ITEM_TY = [
    (r"^std::slice::Iter<('\w+, )?(.*)>$", lambda m: '&' + m.group(2)),
    (r"^std::slice::IterMut<('\w+, )?(.*)>$", lambda m: '&mut ' + m.group(2)),
    (r"^std::collections::vec_deque::Iter<('\w+, )?(.*)>$", lambda m: '&' + m.group(2)),
    (r"^std::option::Iter<('\w+, )?(.*)>$", lambda m: '&' + m.group(2)),
    (r"^std::vec::IntoIter<(.*)>$", lambda m: F.split_generics('X<' + m.group(1) + '>')[1][0]),
    (r"^std::collections::hash_map::Values<('\w+, )?(.*)>$", lambda m: '&' + F.split_generics('X<' + m.group(2) + '>')[1][-1]),
    (r"^std::str::(R?Split(N|Terminator|Inclusive)?|SplitWhitespace|Lines)<", lambda m: '&str'),
    (r"^std::str::Chars<", lambda m: 'char'),
]
GENERIC_NAME = {
    'std::slice::Iter': "std::slice::Iter<'a, T>", 'std::slice::IterMut': "std::slice::IterMut<'a, T>", 'std::vec::IntoIter': 'std::vec::IntoIter<T, A>',
    'std::collections::hash_map::Values': "std::collections::hash_map::Values<'a, K, V>", 'std::collections::vec_deque::Iter': "std::collections::vec_deque::Iter<'a, T>",
    'std::str::Split': "std::str::Split<'a, P>", 'std::str::RSplit': "std::str::RSplit<'a, P>", 'std::str::Chars': "std::str::Chars<'a>",
}


def item_type(ty):
    for rx, fn in ITEM_TY:
        m = re.match(rx, ty or '')
        if m:
            try:
                return fn(m)
            except Exception:
                return '?'
    return '?'


def next_name(ty, back=False):
    head = F.split_generics(ty)[0] if ty else '?'
    return f"<{GENERIC_NAME.get(head, head + '<..>' if ty and '<' in ty else head)} as std::iter::{'DoubleEnded' if back else ''}Iterator>::next{'_back' if back else ''}"


def _val(I, st, v):
    v = I.resolve(st, v)
    for _ in range(3):
        if isinstance(v, F.Ref):
            v = I.resolve(st, I.read_cell_path(st, v.cell, v.proj))
    return v


def is_adaptor(v):
    return isinstance(v, F.Agg) and isinstance(v.adt, str) and v.adt.startswith('iter:')


def guarded(I, st, fn, *a):
    """run a continuation for state st; a cut / undecided path is accounted for and reported as consumed"""
    try:
        return bool(fn(st, *a))
    except F.LoopCut:
        I.cut_rows += 1
        return True
    except F.Undecided as e:
        st.undecided = str(e)
        I.rows.append(F.Row(st))
        return True


def fork_variants(I, st, v, fn):
    """fn(state, variant, payload) for every feasible variant of the Option/Result-like value v.  Forked states are
    queued unless their continuation consumed them; returns the consumed flag of `st` itself."""
    v = _val(I, st, v)
    if isinstance(v, F.Agg) and v.variant is not None:
        return guarded(I, st, fn, v.variant, v.fields[0] if v.fields else None)
    if isinstance(v, F.Sym):
        vs = I.adt_variants(v.ty) if v.ty else None
        if not vs:
            raise F.Undecided(f"variant of {v.n}: unknown type {v.ty}")
        atom = f"variant({v.n})"
        cur = st.cond_map.get(atom)
        st.atom_info.setdefault(atom, {'kind': 'variant', 'of': v.x, 'ty': v.ty})
        todo = [x for x in vs if cur is None or cur == x[0]]
        res = True
        for i, (vn, fl, ftys) in enumerate(todo):
            last = i == len(todo) - 1
            s2 = st if last else st.fork()
            if cur is None:
                s2.decide(atom, vn)
            r = I.refine_sym(s2, v, vn)
            if r is not None:
                s2.refine[v.n] = r
            payload = r.fields[0] if (r is not None and r.fields) else None
            c = guarded(I, s2, fn, vn, payload)
            if last:
                res = c
            elif not c:
                I.work.append(s2)
        return res
    raise F.Undecided(f"variant of {v!r}")


def fork_bool(I, st, b, fn):
    b = _val(I, st, b)
    if isinstance(b, F.Const):
        return guarded(I, st, fn, bool(b.v))
    if isinstance(b, F.Sym):
        cur = st.cond_map.get(b.n)
        st.atom_info.setdefault(b.n, {'kind': 'bool', 'x': b.x})
        if cur is not None:
            return guarded(I, st, fn, bool(cur))
        s2 = st.fork()
        s2.decide(b.n, True)
        if not guarded(I, s2, fn, True):
            I.work.append(s2)
        st.decide(b.n, False)
        return guarded(I, st, fn, False)
    raise F.Undecided(f"closure result {b!r} is not a boolean")


def apply(I, st, clo, cargs, k):
    """call closure / fn value; k(state, result) continues.  Returns consumed flag."""
    def cont(s3, caller, rv):
        return guarded(I, s3, k, rv)
    if I.call_closure(st, clo, cargs, cont):
        return False          # frame pushed: the state goes on inside the closure
    cv = I.resolve(st, clo)
    if isinstance(cv, F.FnItem):
        rv = I.extern_value(st, cv.path, cargs, None, fn=st.frames[-1].body.path)
    elif any(isinstance(a, F.Unknown) for a in cargs):
        rv = F.Unknown(f"{cv.name()} on unknown")
    else:
        rv = F.Sym(f"{cv.name()}({','.join(I.describe(st, a) for a in cargs)})", None, ('call', cv.name(), tuple(I.xof(st, a) for a in cargs)))
    return k(st, rv)


def iter_next(I, st, itv, n, k_some, k_none, line=None):
    """one `next()` on the iterator value itv; n = next() calls issued so far by this consumer.
    k_some(state, element, n') / k_none(state, n') continue; returns consumed flag."""
    itv = _val(I, st, itv)
    if is_adaptor(itv):
        kind = itv.adt[5:]
        inner, fn = itv.fields[0], (itv.fields[1] if len(itv.fields) > 1 else None)
        if kind == 'map':
            return iter_next(I, st, inner, n, lambda s, x, n2: apply(I, s, fn, [x], lambda s2, r: k_some(s2, r, n2)), k_none, line)
        if kind in ('copied', 'cloned'):
            def deref(s, x, n2):
                xv = I.resolve(s, x)
                if isinstance(xv, F.Ref):
                    xv = F.clone_value(I.read_cell_path(s, xv.cell, xv.proj))
                return k_some(s, xv, n2)
            return iter_next(I, st, inner, n, deref, k_none, line)
        if kind == 'inspect':
            return iter_next(I, st, inner, n, lambda s, x, n2: apply(I, s, fn, [F.Ref(s.alloc(x))], lambda s2, r: k_some(s2, x, n2)), k_none, line)
        if kind == 'filter':
            def some(s, x, n2):
                return apply(I, s, fn, [F.Ref(s.alloc(x))],
                             lambda s2, b: fork_bool(I, s2, b, lambda s3, bv: k_some(s3, x, n2) if bv else iter_next(I, s3, itv, n2, k_some, k_none, line)))
            return iter_next(I, st, inner, n, some, k_none, line)
        if kind == 'filter_map':
            def some(s, x, n2):
                return apply(I, s, fn, [x], lambda s2, o: fork_variants(
                    I, s2, o, lambda s3, vn, pl: k_some(s3, pl, n2) if vn == 'Some' else iter_next(I, s3, itv, n2, k_some, k_none, line)))
            return iter_next(I, st, inner, n, some, k_none, line)
        # truncating adaptors: the first element that fails the test ENDS the iteration (the elements behind it are never looked at); the rows
        # show this as a None that is not the None of the underlying iterator
        if kind == 'take_while':
            def some(s, x, n2):
                return apply(I, s, fn, [F.Ref(s.alloc(x))], lambda s2, b: fork_bool(I, s2, b, lambda s3, bv: k_some(s3, x, n2) if bv else k_none(s3, n2)))
            return iter_next(I, st, inner, n, some, k_none, line)
        if kind == 'map_while':
            def some(s, x, n2):
                return apply(I, s, fn, [x], lambda s2, o: fork_variants(I, s2, o, lambda s3, vn, pl: k_some(s3, pl, n2) if vn == 'Some' else k_none(s3, n2)))
            return iter_next(I, st, inner, n, some, k_none, line)
        raise F.Undecided(f"iterator adaptor {kind}")
    if isinstance(itv, F.Unknown):
        raise F.Undecided(f"next() on {itv!r}")
    if n >= I.loop_k + 1:
        raise F.LoopCut()
    ty = getattr(itv, 'ty', None)
    name = next_name(ty)
    ity = item_type(ty)
    res = I.extern_value(st, name, [F.Ref(st.alloc(itv))], f"std::option::Option<{ity}>", line=line, fn=st.frames[-1].body.path, unique=True)
    if isinstance(res, F.Unknown):
        raise F.Undecided(f"next() on unknown iterator")
    return fork_variants(I, st, res, lambda s, vn, pl: k_some(s, pl, n + 1) if vn == 'Some' else k_none(s, n + 1))


# ------------------------------------------------------------------------------------------------ models
def _top(I, st, fn):
    if not guarded(I, st, fn):
        I.work.append(st)
    return F.CONSUMED


def m_adaptor(I, st, fr, t, args, name):
    kind = name.split('::')[-1]
    src = I.resolve(st, args[0])
    if isinstance(src, F.Unknown):
        return NotImplemented
    return F.Agg('iter:' + kind, None, [src] + list(args[1:2]))


def m_adaptor_next(I, st, fr, t, args, name):
    itv = _val(I, st, args[0])
    if not is_adaptor(itv):
        return NotImplemented
    some = lambda s, x, n: I.ret(s, s.frames[-1], t, F.Agg('std::option::Option', 'Some', [x]))
    none = lambda s, n: I.ret(s, s.frames[-1], t, F.Agg('std::option::Option', 'None', []))
    return _top(I, st, lambda s: iter_next(I, s, itv, 0, some, none, t['line']))


def m_into_iter_identity(I, st, fr, t, args, name):
    return args[0]


def m_consumer(I, st, fr, t, args, name):
    meth = name.split('::')[-1]
    it = args[0]
    itv = _val(I, st, it)
    if isinstance(itv, F.Unknown) or isinstance(itv, F.Const):
        return NotImplemented
    line = t['line']
    SOME = lambda x: F.Agg('std::option::Option', 'Some', [x])
    NONE = F.Agg('std::option::Option', 'None', [])
    done = lambda s, v: I.ret(s, s.frames[-1], t, v)

    if meth in ('find', 'any', 'all', 'position'):
        pred = args[1]

        def loop(s, n):
            def some(s2, x, n2):
                parg = F.Ref(s2.alloc(x)) if meth == 'find' else x

                def decided(s4, bv):
                    if meth == 'find':
                        return done(s4, SOME(x)) if bv else loop(s4, n2)
                    if meth == 'any':
                        return done(s4, F.Const(True)) if bv else loop(s4, n2)
                    if meth == 'all':
                        return loop(s4, n2) if bv else done(s4, F.Const(False))
                    return done(s4, SOME(F.Const(n2 - 1))) if bv else loop(s4, n2)
                return apply(I, s2, pred, [parg], lambda s3, b: fork_bool(I, s3, b, decided))

            def none(s2, n2):
                return done(s2, {'find': NONE, 'position': NONE, 'any': F.Const(False), 'all': F.Const(True)}[meth])
            return iter_next(I, s, itv, n, some, none, line)
        return _top(I, st, lambda s: loop(s, 0))

    if meth == 'find_map':
        fn = args[1]

        def loop(s, n):
            return iter_next(I, s, itv, n,
                             lambda s2, x, n2: apply(I, s2, fn, [x], lambda s3, o: fork_variants(
                                 I, s3, o, lambda s4, vn, pl: done(s4, SOME(pl)) if vn == 'Some' else loop(s4, n2))),
                             lambda s2, n2: done(s2, NONE), line)
        return _top(I, st, lambda s: loop(s, 0))

    if meth in ('fold', 'for_each'):
        init = args[1] if meth == 'fold' else F.Agg('tuple', None, [])
        fn = args[2] if meth == 'fold' else args[1]

        def loop(s, acc, n):
            return iter_next(I, s, itv, n,
                             lambda s2, x, n2: apply(I, s2, fn, [acc, x] if meth == 'fold' else [x], lambda s3, r: loop(s3, r if meth == 'fold' else acc, n2)),
                             lambda s2, n2: done(s2, acc), line)
        return _top(I, st, lambda s: loop(s, init, 0))

    if meth == 'reduce':
        fn = args[1]

        def loop(s, acc, n):
            return iter_next(I, s, itv, n,
                             lambda s2, x, n2: loop(s2, x, n2) if acc is None else apply(I, s2, fn, [acc, x], lambda s3, r: loop(s3, r, n2)),
                             lambda s2, n2: done(s2, NONE if acc is None else SOME(acc)), line)
        return _top(I, st, lambda s: loop(s, None, 0))

    if meth in ('max', 'min'):
        def combine(s, a, b):
            return F.Sym(f"{meth}({I.describe(s, a)},{I.describe(s, b)})", getattr(a, 'ty', None), ('call', f"std::cmp::{meth}", (I.xof(s, a), I.xof(s, b))))

        def loop(s, acc, n):
            return iter_next(I, s, itv, n,
                             lambda s2, x, n2: loop(s2, x if acc is None else combine(s2, acc, x), n2),
                             lambda s2, n2: done(s2, NONE if acc is None else SOME(acc)), line)
        return _top(I, st, lambda s: loop(s, None, 0))
    return NotImplemented


def m_bool_then(I, st, fr, t, args, name):
    """bool::then(b, f) = if b { Some(f()) } else { None };  bool::then_some(b, v) = if b { Some(v) } else { None }"""
    SOME = lambda x: F.Agg('std::option::Option', 'Some', [x])
    NONE = F.Agg('std::option::Option', 'None', [])
    done = lambda s, v: I.ret(s, s.frames[-1], t, v)
    lazy = name.endswith('::then')

    def decided(s, bv):
        if not bv:
            return done(s, NONE)
        if not lazy:
            return done(s, SOME(args[1]))
        return apply(I, s, args[1], [], lambda s2, r: done(s2, SOME(r)))
    return _top(I, st, lambda s: fork_bool(I, s, args[0], decided))


def register(models):
    models[r'^core::bool::<impl bool>::(then|then_some)$'] = m_bool_then
    models[r'^std::iter::Iterator::(' + '|'.join(ADAPTORS) + r')$'] = m_adaptor
    models[r'^<std::iter::(Map|Filter|FilterMap|Copied|Cloned|Inspect|TakeWhile|MapWhile)<.*> as std::iter::Iterator>::next$'] = m_adaptor_next
    models[r'^<I as std::iter::IntoIterator>::into_iter$'] = m_into_iter_identity
    models[r'(^std::iter::Iterator::|as std::iter::Iterator>::)(' + '|'.join(CONSUMERS) + r')$'] = m_consumer


# ------------------------------------------------------------------------------------------------ opt-in: vectors as finite lists
def vec_models():
    """models=vec_models(): `Vec::new`/`push`/`collect` build a finite list value Agg('vec', [elements]), so that a filter written as
    an iterator chain ending in collect() and the same filter written as a `for` loop with push() yield the same result value.
    Opt-in, because most rules designate Vec<u8> operations as effects and rely on their havoc naming."""
    def unit():
        return F.Agg('tuple', None, [])

    def m_new(I, st, fr, t, args, name):
        if not (t.get('dest_ty') or '').startswith('std::vec::Vec<'):
            return NotImplemented
        return F.Agg('vec', None, [])

    def target(I, st, a):
        if isinstance(a, F.Ref):
            v = I.resolve(st, I.read_cell_path(st, a.cell, a.proj))
            return v if isinstance(v, F.Agg) and v.adt == 'vec' else None
        return None

    def m_push(I, st, fr, t, args, name):
        v = target(I, st, args[0])
        if v is None:
            return NotImplemented
        v.fields.append(args[1])
        return unit()

    def m_len(I, st, fr, t, args, name):
        v = target(I, st, args[0])
        if v is None:
            return NotImplemented
        return F.Const(len(v.fields)) if name.endswith('::len') else F.Const(len(v.fields) == 0)

    def m_collect(I, st, fr, t, args, name):
        if not (t.get('dest_ty') or '').startswith('std::vec::Vec<'):
            return NotImplemented
        itv = _val(I, st, args[0])
        if isinstance(itv, (F.Unknown, F.Const)):
            return NotImplemented

        def loop(s, acc, n):
            return iter_next(I, s, itv, n, lambda s2, x, n2: loop(s2, acc + [x], n2),
                             lambda s2, n2: I.ret(s2, s2.frames[-1], t, F.Agg('vec', None, list(acc))), t['line'])
        return _top(I, st, lambda s: loop(s, [], 0))
    def m_reorder(I, st, fr, t, args, name):
        v = target(I, st, args[0])
        if v is None or len(v.fields) > 1:
            return NotImplemented          # only the trivial cases: order of 0 or 1 elements
        return unit()

    def m_slice_of_vec(I, st, fr, t, args, name):
        # `Vec<T> as DerefMut` (receiver of slice methods): the list itself
        v = target(I, st, args[0])
        if v is None:
            return NotImplemented
        return args[0]
    return {
        r'slice::<impl \[T\]>::(sort\w*|reverse)$': m_reorder,
        r'^<std::vec::Vec<T, A> as std::ops::Deref(Mut)?>::deref(_mut)?$': m_slice_of_vec,
        r'^std::vec::Vec::<T>::(new|with_capacity)$': m_new,
        r'^std::vec::Vec::<T, A>::push$': m_push,
        r'^std::vec::Vec::<T, A>::(len|is_empty)$': m_len,
        r'(^std::iter::Iterator::|as std::iter::Iterator>::)collect$': m_collect,
    }
