"""Value provenance: flow-insensitive, field-insensitive reaching definitions per body, with pass-through
callees, expanded interprocedurally through parameters (callers) and closure captures (creation site)."""
import re
from facts import callee_name, const_repr

PASS = re.compile(
    r"(::deref$|::deref_mut$|::clone$|::as_ref$|::as_mut$|::borrow$|::borrow_mut$|::as_deref$|::as_deref_mut$|"
    r"^<.* as std::convert::(From|Into)<.*>>::(from|into)$|^<.* as std::convert::(From|Into)<.*>>::(from|into)$|"
    r"::into_iter$|::iter$|::iter_mut$|^<.* as std::iter::Iterator>::(next|enumerate|by_ref|rev|cloned|copied|peekable|skip|take|chain|flatten|map|filter|filter_map)$|"
    r"^std::iter::Iterator::(next|enumerate|by_ref|rev|cloned|copied|peekable|skip|take|chain|flatten|map|filter|filter_map|collect)$|"
    r"::(unwrap|expect|unwrap_or|unwrap_or_default|unwrap_or_else|ok|ok_or|as_path|as_str|as_bytes|as_os_str|as_slice|to_owned|to_string|to_path_buf|to_os_string|to_vec|into_boxed_slice|into_inner|copied|cloned)$|"
    r"^<.* as std::ops::Try>::branch$|^<.* as std::ops::FromResidual.*>::from_residual$|"
    r"^std::path::Path::new$|^std::path::Path::with_extension$|^std::boxed::Box::<T(, A)?>::new$|^std::sync::Arc::<T(, A)?>::new$|::to_string_lossy$|"
    r"^<.* as std::string::ToString>::to_string$|^<.* as std::borrow::ToOwned>::to_owned$|^std::option::Option::<T>::(map|and_then|take|replace|get_or_insert_with)$|"
    r"^std::result::Result::<T, E>::(map|map_err|and_then|or_else|inspect_err)$|^std::mem::(take|replace)$)")


def is_pass(name):
    return bool(PASS.search(name))


class Prov:
    def __init__(self, body):
        self.b = body
        self.defs = {}   # local -> list of ('stmt', rv, bb) | ('call', term, bb)
        for bb, blk in enumerate(body.blocks):
            for s in blk['stmts']:
                if s['k'] == 'assign':
                    self.defs.setdefault(s['place']['l'], []).append(('stmt', s, bb))
            t = blk['term']
            if t['k'] == 'call':
                self.defs.setdefault(t['dest']['l'], []).append(('call', t, bb))
        # writes through &mut passed to calls are not tracked (field-insensitive over-approximation is applied
        # only to direct assignments); rules that need them use explicit effect sites instead.

    def roots(self, local, seen=None, through_pass=True):
        """set of root descriptors for a local:
           ('param', i) ('const', repr, def) ('call', name, bb) ('agg', adt/variant, bb) ('closure', path)
           ('tls', def) ('binop', op, bb) ('unknown', text)"""
        if seen is None:
            seen = set()
        if local in seen:
            return set()
        seen.add(local)
        out = set()
        b = self.b
        if 1 <= local <= b.arg_count:
            out.add(('param', local))
        for d in self.defs.get(local, []):
            if d[0] == 'stmt':
                out |= self._rv_roots(d[1]['rv'], d[2], seen, through_pass)
            else:
                t = d[1]
                name = callee_name(t)
                if through_pass and is_pass(name) and t['args']:
                    a = t['args'][0]
                    out |= self.op_roots(a, seen, through_pass)
                    if name.endswith(('::unwrap_or', '::unwrap_or_else', '::chain', '::replace')) and len(t['args']) > 1:
                        out |= self.op_roots(t['args'][1], seen, through_pass)
                    out.add(('via', name, d[2]))
                else:
                    out.add(('call', name, d[2]))
        if not out and local == 0:
            out.add(('unknown', 'return slot'))
        return out

    def op_roots(self, op, seen=None, through_pass=True):
        if seen is None:
            seen = set()
        if op['k'] in ('copy', 'move'):
            return self.roots(op['place']['l'], seen, through_pass)
        if op['k'] == 'const':
            if op.get('closure'):
                return {('closure', op['closure'])}
            if op.get('fn'):
                return {('fn', op['fn'].get('resolved') or op['fn']['path'])}
            return {('const', const_repr(op), op.get('def'))}
        return {('unknown', op.get('dbg', '?'))}

    def _rv_roots(self, rv, bb, seen, tp):
        k = rv['k']
        if k == 'use' or k == 'cast' or k == 'repeat':
            return self.op_roots(rv['op'], seen, tp)
        if k in ('ref', 'rawptr', 'discr'):
            return self.roots(rv['place']['l'], seen, tp)
        if k == 'agg':
            out = set()
            if rv['ak'] == 'closure':
                return {('closure', rv['closure'])}
            for o in rv['ops']:
                out |= self.op_roots(o, seen, tp)
            if rv['ak'] == 'adt':
                out.add(('agg', f"{rv['adt']}::{rv['variant']}", bb))
            return out
        if k == 'binop':
            return self.op_roots(rv['a'], seen, tp) | self.op_roots(rv['b'], seen, tp) | {('binop', rv['op'], bb)}
        if k == 'unop':
            return self.op_roots(rv['a'], seen, tp) | {('unop', rv['op'], bb)}
        if k == 'tlsref':
            return {('tls', rv['def'])}
        return {('unknown', rv.get('dbg', k))}

    # field-sensitive helper: which named fields of self (param 1) does a local come from
    def field_paths(self, local, seen=None):
        """set of field-name tuples read from parameters, e.g. ('param1','config','append')"""
        if seen is None:
            seen = set()
        if local in seen:
            return set()
        seen.add(local)
        out = set()
        for d in self.defs.get(local, []):
            if d[0] == 'stmt':
                rv = d[1]['rv']
                pl = None
                if rv['k'] in ('use', 'cast') and rv['op']['k'] in ('copy', 'move'):
                    pl = rv['op']['place']
                elif rv['k'] in ('ref', 'discr'):
                    pl = rv['place']
                if pl is not None:
                    names = tuple(e.get('name') or str(e.get('i')) for e in pl['p'] if e['k'] == 'field')
                    base = pl['l']
                    if 1 <= base <= self.b.arg_count:
                        out.add((f'param{base}',) + names)
                    for sub in self.field_paths(base, seen):
                        out.add(sub + names)
                elif rv['k'] == 'unop':
                    if rv['a']['k'] in ('copy', 'move'):
                        for sub in self.field_paths(rv['a']['place']['l'], seen):
                            out.add(sub + (f"<{rv['op']}>",))
            else:
                t = d[1]
                name = callee_name(t)
                if is_pass(name) and t['args'] and t['args'][0]['k'] in ('copy', 'move'):
                    pl = t['args'][0]['place']
                    names = tuple(e.get('name') or str(e.get('i')) for e in pl['p'] if e['k'] == 'field')
                    if 1 <= pl['l'] <= self.b.arg_count:
                        out.add((f'param{pl["l"]}',) + names)
                    for sub in self.field_paths(pl['l'], seen):
                        out.add(sub + names)
        return out


class InterProv:
    """expands ('param', i) roots through callers and closure captures"""

    def __init__(self, facts, cg):
        self.f = facts
        self.cg = cg
        self._prov = {}

    def prov(self, path):
        if path not in self._prov:
            self._prov[path] = Prov(self.f.bodies[path])
        return self._prov[path]

    def expand(self, path, roots, depth=4, seen=None):
        """replace param roots by the roots of the corresponding arguments at every (direct) call site;
        roots that cannot be expanded stay.  Returns set of (body path, root)."""
        if seen is None:
            seen = set()
        out = set()
        b = self.f.bodies[path]
        for r in roots:
            if r[0] != 'param' or depth == 0:
                out.add((path, r))
                continue
            key = (path, r)
            if key in seen:
                continue
            seen.add(key)
            i = r[1]
            callers = [(a, bb, k) for (a, bb, k) in self.cg.callers.get(path, []) if bb is not None]
            expanded = False
            if b.kind == 'Closure' and i == 1:
                # captured environment: creation site operands
                for (a, bb, k) in self.cg.callers.get(path, []):
                    ab = self.f.bodies[a]
                    pa = self.prov(a)
                    for blk_i, blk in enumerate(ab.blocks):
                        for s in blk['stmts']:
                            if s['k'] == 'assign' and s['rv']['k'] == 'agg' and s['rv'].get('closure') == path:
                                rs = set()
                                for o in s['rv']['ops']:
                                    rs |= pa.op_roots(o)
                                out |= self.expand(a, rs, depth - 1, seen)
                                expanded = True
            else:
                for (a, bb, k) in callers:
                    if k not in ('direct', 'dyn'):
                        continue
                    ab = self.f.bodies[a]
                    t = ab.blocks[bb]['term']
                    if t['k'] != 'call' or len(t['args']) < i:
                        continue
                    rs = self.prov(a).op_roots(t['args'][i - 1])
                    out |= self.expand(a, rs, depth - 1, seen)
                    expanded = True
            if not expanded:
                out.add((path, r))
        return out
