"""Verdict plumbing: obligations, violations, known findings, evidence files, exit codes."""
import json, os, sys, time

VERIF = os.path.dirname(os.path.dirname(os.path.abspath(__file__)))
# self-test runs against a scratch copy of the repository (FL_REPO) write their evidence / replay files elsewhere (FL_OUT), never into /verif
OUTROOT = os.environ.get('FL_OUT') or VERIF


class CheckError(Exception):
    """the check cannot decide (missing anchor, UNDECIDED table, extraction failure) -> exit 2"""


class Report:
    def __init__(self, prop, tier):
        self.prop = prop
        self.tier = tier
        self.t0 = time.time()
        self.obligations = []      # dicts: rule, key, ok, text, cfg
        self.violations = {}       # key -> dict
        self.samples = []
        self.notes = []
        self.cfgs = []
        self.stats = {}
        self.rules = {}
        self.errors = []
        kf = os.path.join(VERIF, 'known_findings.json')
        self.known = {}
        self.fixed = []
        if os.path.exists(kf):
            j = json.load(open(kf))
            for e in j.get('findings', []):
                if e['property'] == prop:
                    self.known[e['key']] = e
            self.fixed = [e for e in j.get('fixed', []) if e['property'] == prop]
        self.known_seen = {}
        self.cur_cfg = None

    # ------------------------------------------------------------------------------------
    def rule(self, rid, text):
        self.rules[rid] = text

    def ok(self, rule, key, text, sample=None, nontrivial=True):
        self.obligations.append({'rule': rule, 'key': key, 'ok': True, 'cfg': self.cur_cfg, 'nontrivial': nontrivial})
        if sample is not None or len([s for s in self.samples if s['rule'] == rule]) < 2:
            self.samples.append({'rule': rule, 'site': key, 'verdict': 'holds', 'facts': sample if sample is not None else text, 'cfg': self.cur_cfg})

    def bad(self, rule, key, text, where=None, witness=None):
        """a deviation: either a listed known finding (exact key) or a violation"""
        full = f"{rule}|{key}"
        if 'UNDECIDED' in text:
            # the analysis left its supported fragment: neither a pass nor a violation (DESIGN 2.4/5)
            self.obligations.append({'rule': rule, 'key': key, 'ok': False, 'cfg': self.cur_cfg, 'nontrivial': False})
            self.error(f"[{self.cur_cfg}] rule {rule} at {key}: {text[:400]}")
            return
        self.obligations.append({'rule': rule, 'key': key, 'ok': False, 'cfg': self.cur_cfg, 'nontrivial': True})
        if full in self.known:
            self.known_seen.setdefault(full, {'text': text, 'where': where, 'cfgs': []})['cfgs'].append(self.cur_cfg)
            return
        v = self.violations.setdefault(full, {'rule': rule, 'key': key, 'text': text, 'where': where, 'witness': witness, 'cfgs': []})
        v['cfgs'].append(self.cur_cfg)

    def check(self, rule, key, cond, text_ok, text_bad=None, where=None, witness=None, sample=None):
        if cond:
            self.ok(rule, key, text_ok, sample=sample)
        else:
            self.bad(rule, key, text_bad or ('NOT: ' + text_ok), where=where, witness=witness)
        return cond

    def error(self, msg):
        self.errors.append(msg)

    def note(self, msg):
        self.notes.append(msg)

    # ------------------------------------------------------------------------------------
    def finish(self, explanation, assumptions, not_decided, extra=None):
        wall = time.time() - self.t0
        outdir = os.path.join(OUTROOT, 'out', self.prop)
        os.makedirs(outdir, exist_ok=True)
        for f in os.listdir(outdir):
            if f.startswith('violation-'):
                os.remove(os.path.join(outdir, f))
        lines = []
        for full, k in sorted(self.known_seen.items()):
            e = self.known[full]
            lines.append(f"KNOWN-FINDING: property={self.prop} {e.get('id', '')} {full} :: {e['what']}")
        n = 0
        for full, v in sorted(self.violations.items()):
            n += 1
            p = os.path.join(outdir, f'violation-{n}.json')
            with open(p, 'w') as f:
                json.dump({'property': self.prop, **v}, f, indent=1)
            lines.append(f"VIOLATION property={self.prop} replay={p}")
            lines.append(f"    rule {v['rule']}: {v['text']}")
            if v.get('where'):
                lines.append(f"    at {v['where']}   (configs: {','.join(sorted(set(c for c in v['cfgs'] if c)))})")
            if v.get('witness'):
                for w in (v['witness'] if isinstance(v['witness'], list) else [v['witness']]):
                    lines.append(f"    witness: {w}")
        for e in self.errors:
            lines.append(f"CHECK-ERROR property={self.prop} reason={e}")
        distinct = {(o['rule'], o['key']) for o in self.obligations if o['nontrivial']}
        discharged = sum(1 for o in self.obligations if o['ok'])
        stale = [k for k in self.known if k not in self.known_seen]
        cov = {
            'explanation': explanation,
            'configs': self.cfgs,
            'rules': self.rules,
            'obligations': len(self.obligations),
            'discharged': discharged + sum(len(v['cfgs']) for v in self.known_seen.values()) * 0,
            'evaluations': max(1, len(self.obligations)),
            'distinct_nontrivial': len(distinct),
            'rule': 'one evaluation = one rule instance (rule id, site/table row) decided on the MIR facts of one feature configuration; '
                    'distinct = distinct (rule, site/row) pairs whose verdict depended on at least one analysed construct',
            'samples': self.samples[:40],
            'known_findings_observed': sorted(self.known_seen),
            'known_findings_stale': stale,
            'fixed_entries': [f"fixed: property={e['property']} {e['commit']} {e['what']}" for e in self.fixed],
            'not_decided': not_decided,
            'checker_cmd': f"bin/check {self.prop} --tier {self.tier}",
            'trusted_base': ['rustc nightly front end + MIR construction', 'driver/ (fl-facts extractor)', 'documented std/log/chrono/flate2/crossbeam semantics'],
            'errors': self.errors,
            'notes': self.notes,
        }
        cov.update(self.stats)
        if extra:
            cov.update(extra)
        ev = {
            'property_id': self.prop,
            'tier': self.tier,
            'seed': int(os.environ.get('VERIF_SEED', '0') or 0),
            'level': 'other',
            'coverage': cov,
            'assumptions': assumptions,
            'wall_s': round(wall, 2),
            'violations': len(self.violations),
        }
        os.makedirs(os.path.join(OUTROOT, 'evidence'), exist_ok=True)
        with open(os.path.join(OUTROOT, 'evidence', f'{self.prop}.json'), 'w') as f:
            json.dump(ev, f, indent=1)
        print(f"[{self.prop}] tier={self.tier} configs={','.join(self.cfgs)} obligations={len(self.obligations)} "
              f"distinct={len(distinct)} known={len(self.known_seen)} violations={len(self.violations)} errors={len(self.errors)} wall={wall:.1f}s")
        for l in lines:
            print(l)
        if self.violations:
            return 1
        if self.errors:
            return 2
        return 0
