"""CFG queries on a Body: dominators, post-dominators, reachability, path enumeration."""
from functools import lru_cache


def _dom(n, entry, succ_of, nodes):
    """iterative dominator sets over the given node set"""
    preds = {x: [] for x in nodes}
    for x in nodes:
        for s in succ_of(x):
            if s in preds:
                preds[s].append(x)
    dom = {x: set(nodes) for x in nodes}
    dom[entry] = {entry}
    changed = True
    order = sorted(nodes)
    while changed:
        changed = False
        for x in order:
            if x == entry:
                continue
            ps = [dom[p] for p in preds[x]]
            new = set.intersection(*ps) if ps else set()
            new = new | {x}
            if new != dom[x]:
                dom[x] = new
                changed = True
    return dom


def dominators(body):
    if getattr(body, '_dom', None) is None:
        nodes = body.normal_blocks()
        body._dom = _dom(len(body.blocks), 0, lambda b: body.succ(b), nodes)
    return body._dom


def dominates(body, a, b):
    """block a dominates block b (normal edges)"""
    d = dominators(body)
    return b in d and a in d[b]


def reachable_from(body, start, avoid=(), unwind=False):
    """blocks reachable from the *successors* of start... no: from start itself (inclusive), never entering `avoid`"""
    avoid = set(avoid)
    seen = set()
    st = [start]
    while st:
        b = st.pop()
        if b in seen or b in avoid:
            continue
        seen.add(b)
        st.extend(body.succ(b, unwind=unwind))
    return seen


def reachable_after(body, start, avoid=(), unwind=False):
    """blocks reachable from the successors of `start` (start only if on a cycle)"""
    avoid = set(avoid)
    seen = set()
    st = list(body.succ(start, unwind=unwind))
    while st:
        b = st.pop()
        if b in seen or b in avoid:
            continue
        seen.add(b)
        st.extend(body.succ(b, unwind=unwind))
    return seen


def path_exists(body, a, b, avoid=()):
    """is there a normal path from the end of block a to the start of block b?"""
    return b in reachable_after(body, a, avoid=avoid)


def every_path_to_return_passes(body, start, through, avoid_edges=()):
    """from the successors of `start`, does every normal path to a Return pass through one of the blocks in
    `through`?  (blocks in `through` are barriers)"""
    seen = set()
    st = list(body.succ(start))
    through = set(through)
    while st:
        b = st.pop()
        if b in seen or b in through:
            continue
        seen.add(b)
        if body.blocks[b]['term']['k'] == 'return':
            return False
        st.extend(body.succ(b))
    return True


def post_dominates_entry(body, blocks):
    """every normal path entry -> return passes through one of `blocks`"""
    blocks = set(blocks)
    if 0 in blocks:
        return True
    seen = set()
    st = [0]
    while st:
        b = st.pop()
        if b in seen or b in blocks:
            continue
        seen.add(b)
        if body.blocks[b]['term']['k'] == 'return':
            return False
        st.extend(body.succ(b))
    return True


def enumerate_paths(body, start=0, limit=20000, stop=None):
    """acyclic normal paths from start to return (each block at most once per path); yields lists of blocks"""
    out = []
    count = [0]

    def rec(b, path, onpath):
        if count[0] > limit:
            raise RuntimeError('path limit')
        path.append(b)
        onpath.add(b)
        t = body.blocks[b]['term']
        if t['k'] == 'return' or (stop and b in stop):
            out.append(list(path))
            count[0] += 1
        else:
            for s in body.succ(b):
                if s not in onpath:
                    rec(s, path, onpath)
        path.pop()
        onpath.discard(b)

    rec(start, [], set())
    return out


def switch_edge_blocks(body, bb, value):
    """target of SwitchInt in block bb for a given value string (falls to otherwise)"""
    t = body.blocks[bb]['term']
    assert t['k'] == 'switch'
    for v, tgt in t['arms']:
        if v == str(value):
            return tgt
    return t['otherwise']
