"""FDI — finite-domain decision-table interpreter over MIR facts (DESIGN §2.2 A5).

An abstract interpreter: values are constants, enum/struct/tuple trees, references to cells, token lists for
strings and *named atoms* (`Sym`).  Branching on an atom forks the row; each fork is recorded as (atom, value) in
the row's condition.  Order comparisons of two non-constant values are decided by an ordering atom over
{lt, eq, gt}.  Crate-local callees are inlined, closures are invoked by the models of the std combinators, a
declared iterator loop is unrolled k times.  Everything outside the supported fragment yields an `Unknown`
value; if a branch or a result depends on an Unknown the row is marked UNDECIDED.  No solver, no path conditions
over unbounded values: the domain of every atom is finite and enumerated exhaustively.
"""
import copy, re
from facts import callee_name, const_repr, place_str


FOOTPRINT = set()   # bodies abstractly executed (entry or inlined); read by tools/footprint.py only


class Undecided(Exception):
    pass


class LoopCut(Exception):
    """the declared unrolling bound was reached: the row is truncated by design (not a verdict)"""


# ------------------------------------------------------------------------------------------------ values
class V:
    pass


class Const(V):
    def __init__(self, v, ty=None):
        self.v = v
        self.ty = ty

    def __repr__(self):
        return f"{self.v!r}"

    def name(self):
        return repr(self.v)


class Sym(V):
    """a named atom (finite domain decided lazily when branched upon)"""

    def __init__(self, name, ty=None, x=None):
        self.n = name
        self.ty = ty
        self.x = x if x is not None else ('atom', name)

    def __repr__(self):
        return f"${self.n}"

    def name(self):
        return self.n


class Unknown(V):
    def __init__(self, why):
        self.why = why
        self.ty = None

    def __repr__(self):
        return f"?({self.why})"

    def name(self):
        return f"?{self.why}"


class Agg(V):
    """struct / enum variant / tuple value"""

    def __init__(self, adt, variant, fields, ty=None, origin=None):
        self.adt = adt          # adt path or 'tuple'
        self.variant = variant  # variant name (or None for tuples)
        self.fields = fields    # list of V
        self.ty = ty
        self.origin = origin    # name of the Sym this was refined from (for reporting)
        self.ox = None          # structured expression of that Sym

    def __repr__(self):
        if self.adt == 'tuple':
            return '(' + ', '.join(map(repr, self.fields)) + ')'
        short = self.adt.split('::')[-1]
        return f"{short}::{self.variant}" + ('(' + ', '.join(map(repr, self.fields)) + ')' if self.fields else '')

    def name(self):
        if self.origin:
            return self.origin
        return repr(self)


class Ref(V):
    def __init__(self, cell, proj=()):
        self.cell = cell
        self.proj = tuple(proj)
        self.ty = None

    def __repr__(self):
        return f"&c{self.cell}{''.join('.' + str(p) for p in self.proj)}"

    def name(self):
        return repr(self)


class Closure(V):
    def __init__(self, path, captures):
        self.path = path
        self.captures = captures
        self.ty = None

    def __repr__(self):
        return f"closure<{self.path.split('::')[-2:]}>"

    def name(self):
        return f"closure:{self.path}"


class FnItem(V):
    def __init__(self, path):
        self.path = path
        self.ty = None

    def __repr__(self):
        return f"fn<{self.path}>"

    def name(self):
        return f"fn:{self.path}"


class Tokens(V):
    """String under construction: list of tokens (constants or atom names)"""

    def __init__(self, toks, ty='std::string::String'):
        self.toks = list(toks)
        self.ty = ty

    def __repr__(self):
        return 'str[' + '|'.join(map(str, self.toks)) + ']'

    def name(self):
        return repr(self)


def clone_value(v):
    """values are immutable except aggregates (written in place through places): copy those, share the rest"""
    if isinstance(v, Agg):
        c = Agg(v.adt, v.variant, [clone_value(x) for x in v.fields], v.ty, v.origin)
        c.ox = v.ox
        return c
    if isinstance(v, Closure):
        return Closure(v.path, [clone_value(x) for x in v.captures])
    return v


# ------------------------------------------------------------------------------------------------ types
BUILTIN_ADTS = {
    'std::option::Option': [('None', []), ('Some', ['0'])],
    'std::result::Result': [('Ok', ['0']), ('Err', ['0'])],
    'std::ops::ControlFlow': [('Continue', ['0']), ('Break', ['0'])],
    'std::sync::TryLockError': [('Poisoned', ['0']), ('WouldBlock', [])],
    'std::cmp::Ordering': [('Less', []), ('Equal', []), ('Greater', [])],
}
BUILTIN_DISCR = {'std::cmp::Ordering': {'Less': -1, 'Equal': 0, 'Greater': 1}}


def split_generics(ty):
    """'a::B<X, Y<Z>>' -> ('a::B', ['X', 'Y<Z>'])"""
    i = ty.find('<')
    if i < 0 or not ty.endswith('>'):
        return ty, []
    head = ty[:i]
    inner = ty[i + 1:-1]
    args, d, cur = [], 0, ''
    for ch in inner:
        if ch in '<([':
            d += 1
        elif ch in '>)]':
            d -= 1
        if ch == ',' and d == 0:
            args.append(cur.strip())
            cur = ''
        else:
            cur += ch
    if cur.strip():
        args.append(cur.strip())
    args = [a for a in args if not a.startswith("'")]
    return head, args


def strip_ref(ty):
    t = ty
    while True:
        m = re.match(r"^&('\w+ )?(mut )?(.*)$", t)
        if not m:
            return t
        t = m.group(3)


def is_ref_ty(ty):
    return ty.startswith('&')


def strip_one_ref(ty):
    m = re.match(r"^&('\w+ )?(mut )?(.*)$", ty)
    return m.group(3) if m else ty


# ------------------------------------------------------------------------------------------------ state
class Frame:
    def __init__(self, body, cells, ret_to=None):
        self.body = body
        self.cells = cells          # local index -> cell id
        self.bb = 0
        self.ret_to = ret_to        # (dest place of caller, caller target bb) or callable continuation tag
        self.loop_visits = {}


class State:
    def __init__(self):
        self.heap = []              # list of V
        self.frames = []
        self.cond = []              # list of (atom name, value)
        self.cond_map = {}
        self.effects = []           # list of (name, [arg reprs], extra)
        self.refine = {}            # sym name -> V (refined aggregate)
        self.notes = []
        self.counter = {}
        self.undecided = None
        self.result = None
        self.steps = 0
        self.atom_info = {}

    def fork(self):
        s = State()
        s.heap = [clone_value(v) for v in self.heap]
        s.frames = []
        for fr in self.frames:
            nf = Frame(fr.body, dict(fr.cells), fr.ret_to)
            nf.bb = fr.bb
            nf.loop_visits = dict(fr.loop_visits)
            nf.pending = getattr(fr, 'pending', None)
            s.frames.append(nf)
        s.cond = list(self.cond)
        s.cond_map = dict(self.cond_map)
        s.effects = list(self.effects)
        s.refine = {k: clone_value(v) for k, v in self.refine.items()}
        s.notes = list(self.notes)
        s.counter = dict(self.counter)
        s.steps = self.steps
        s.atom_info = dict(self.atom_info)
        s.input_cells = list(getattr(self, 'input_cells', []))
        return s

    def alloc(self, v):
        self.heap.append(v)
        return len(self.heap) - 1

    def fresh(self, tag):
        self.counter[tag] = self.counter.get(tag, 0) + 1
        return f"{tag}#{self.counter[tag]}"

    def decide(self, atom, value):
        self.cond.append((atom, value))
        self.cond_map[atom] = value


class Row:
    def __init__(self, st):
        self.cond = list(st.cond)
        self.cmap = dict(st.cond_map)
        self.effects = list(st.effects)
        self.result = st.result
        self.undecided = st.undecided
        self.notes = list(st.notes)
        self.atom_info = dict(st.atom_info)
        self.final = getattr(st, 'final', None)

    def get(self, atom, default=None):
        return self.cmap.get(atom, default)

    def long(self, text, depth=4):
        """effect results are named `callee#k`; expand them to `callee#k(args)` (nested up to `depth`)"""
        text = str(text)
        for _ in range(depth):
            changed = False
            for i, e in enumerate(self.effects):
                tok = f"{e[0]}#{i + 1}"
                j = text.find(tok)
                while j >= 0:
                    end = j + len(tok)
                    if end >= len(text) or (text[end] != '(' and not text[end].isdigit()):
                        ins = '(' + ','.join(e[1]) + ')'
                        text = text[:end] + ins + text[end:]
                        changed = True
                        end += len(ins)
                    j = text.find(tok, end)
            if not changed:
                break
        return text

    def effect_names(self):
        return [e[0] for e in self.effects]

    def __repr__(self):
        c = ', '.join(f"{a}={v}" for a, v in self.cond)
        return f"[{c}] -> {self.result!r} effects={[(e[0], e[1]) for e in self.effects]}" + (f" UNDECIDED({self.undecided})" if self.undecided else '')


# ------------------------------------------------------------------------------------------------ interpreter
class FDI:
    def __init__(self, facts, effects=(), models=None, inline_depth=6, loop_k=2, max_rows=20000, max_steps=4000,
                 no_inline=(), opaque_types=(), pure_ext=True, no_models=()):
        self.f = facts
        self.effects = [(re.compile(r) if isinstance(r, str) else r) for r in effects]
        self.models = dict(DEFAULT_MODELS)
        if models:
            self.models.update(models)
        self._model_res = [(re.compile(k), v) for k, v in self.models.items() if v is not None]
        self.no_models = [re.compile(r) for r in no_models]     # callees a rule wants as opaque atoms / effects although a default model exists
        self.inline_depth = inline_depth
        self.loop_k = loop_k
        self.max_rows = max_rows
        self.max_steps = max_steps
        self.no_inline = [re.compile(r) for r in list(no_inline) + DEFAULT_NO_INLINE]
        self.opaque_types = [re.compile(r) for r in opaque_types]
        self.rows = []
        self.work = []

    # ---------------------------------------------------------------- type helpers
    def adt_variants(self, ty):
        """[(variant name, [field names], [field types])] for a type string, or None"""
        t = strip_ref(ty)
        head, args = split_generics(t)
        if head in BUILTIN_ADTS:
            out = []
            for vn, fl in BUILTIN_ADTS[head]:
                ftys = []
                if fl:
                    if head == 'std::sync::TryLockError':
                        ftys = [f"std::sync::PoisonError<{args[0]}>" if args else '?']
                    elif head == 'std::result::Result':
                        ftys = [args[0] if vn == 'Ok' else (args[1] if len(args) > 1 else '?')] if args else ['?']
                    elif head == 'std::ops::ControlFlow':
                        ftys = [args[1] if vn == 'Continue' and len(args) > 1 else (args[0] if args else '?')]
                    else:
                        ftys = [args[0] if args else '?']
                out.append((vn, fl, ftys))
            return out
        if head in self.f.adts:
            a = self.f.adts[head]
            return [(v['name'], [fd['name'] for fd in v['fields']], [fd['ty'] for fd in v['fields']]) for v in a['variants']]
        if t.startswith('(') and t.endswith(')'):
            _, args = split_generics('T<' + t[1:-1] + '>')
            return [(None, [str(i) for i in range(len(args))], args)]
        return None

    def adt_head(self, ty):
        t = strip_ref(ty)
        if t.startswith('('):
            return 'tuple'
        return split_generics(t)[0]

    def variant_index(self, adt, variant):
        if adt in BUILTIN_ADTS:
            return [v[0] for v in BUILTIN_ADTS[adt]].index(variant)
        a = self.f.adts[adt]
        for v in a['variants']:
            if v['name'] == variant:
                return v['idx']
        raise KeyError(variant)

    def variant_discr(self, adt, variant):
        if adt in BUILTIN_DISCR:
            return BUILTIN_DISCR[adt][variant]
        if adt in BUILTIN_ADTS:
            return [v[0] for v in BUILTIN_ADTS[adt]].index(variant)
        a = self.f.adts[adt]
        for v in a['variants']:
            if v['name'] == variant:
                return int(v['discr']) if v['discr'] is not None else v['idx']
        raise KeyError(variant)

    def is_opaque(self, ty):
        return any(r.search(ty) for r in self.opaque_types)

    # ---------------------------------------------------------------- refinement of atoms
    def refine_sym(self, st, sym, variant=None):
        """turn a Sym of ADT type into an Agg with fresh field atoms (fork over variants is the caller's job)"""
        ty = sym.ty or '?'
        vs = self.adt_variants(ty)
        if vs is None:
            return None
        head = self.adt_head(ty)
        for (vn, fl, ftys) in vs:
            if vn == variant or (variant is None and len(vs) == 1):
                fields = [Sym(f"{sym.n}.{fn}", fty, ('field', sym.x, fn)) for fn, fty in zip(fl, ftys)]
                r = Agg(head, vn, fields, ty=ty, origin=sym.n)
                r.ox = sym.x
                return r
        return None

    def resolve(self, st, v):
        """follow refinements of a Sym"""
        while isinstance(v, Sym) and v.n in st.refine:
            v = st.refine[v.n]
        return v

    # ---------------------------------------------------------------- places
    def read_cell_path(self, st, cell, proj):
        v = st.heap[cell]
        for p in proj:
            v = self.resolve(st, v)
            v = self._project(st, v, p, write=False)
        return self.resolve(st, v)

    def _project(self, st, v, p, write):
        """p = ('f', index, name, ty) | ('d', variant name)"""
        if isinstance(v, Ref) and p[0] in ('d', 'f'):
            # an `Option<&T>` that a pass-through model represents by `&Option<T>`: the payload is a reference into the pointee
            return Ref(v.cell, list(v.proj) + [p])
        if p[0] == 'd':
            if isinstance(v, Sym):
                r = self.refine_sym(st, v, p[1])
                if r is None:
                    return Sym(f"{v.n} as {p[1]}", v.ty)
                # a downcast is only executed after the discriminant was tested -> the refinement is justified
                st.refine[v.n] = r
                return r
            return v
        if p[0] == 'i':
            if isinstance(v, Const) and isinstance(v.v, (bytes, str)):
                return Const(v.v[p[1]] if isinstance(v.v, bytes) else ord(v.v[p[1]])) if p[1] < len(v.v) else Unknown('index out of range')
            if isinstance(v, Agg) and v.adt == 'array' and p[1] < len(v.fields):
                return v.fields[p[1]]
            if isinstance(v, Sym):
                return Sym(f"{v.n}[{p[1]}]", 'u8', ('index', v.x, p[1]))
            return Unknown(f"index of {type(v).__name__}")
        if p[0] == 'f':
            if isinstance(v, Agg) and v.adt == 'opaque' and p[1] >= len(v.fields):
                base = v.origin or 'opaque'
                for i in range(len(v.fields), p[1] + 1):
                    v.fields.append(Sym(f"{base}.{i}", None, ('field', ('atom', base), str(i))))
            if isinstance(v, Agg):
                if p[1] < len(v.fields):
                    fv = v.fields[p[1]]
                    if isinstance(fv, Sym) and (fv.ty in (None, '?')) and p[3]:
                        fv.ty = p[3]
                    return fv
                return Unknown(f"field {p[1]} out of range of {v!r}")
            if isinstance(v, Sym):
                r = self.refine_sym(st, v)
                if r is not None and p[1] < len(r.fields):
                    st.refine[v.n] = r
                    return r.fields[p[1]]
                return Sym(f"{v.n}.{p[2] or p[1]}", p[3], ('field', v.x, p[2] or str(p[1])))
            if isinstance(v, Unknown):
                return v
            if isinstance(v, Closure):
                return v.captures[p[1]] if p[1] < len(v.captures) else Unknown('capture')
            return Unknown(f"field of {type(v).__name__}")
        return Unknown('proj')

    def eval_place(self, st, fr, pl):
        """returns (cell, proj) location of a place, following derefs"""
        cell = fr.cells[pl['l']]
        proj = []
        for e in pl['p']:
            k = e['k']
            if k == 'deref':
                v = self.read_cell_path(st, cell, proj)
                if isinstance(v, Ref):
                    cell, proj = v.cell, list(v.proj)
                elif isinstance(v, Sym):
                    # reference / box atom: materialise a cell holding the pointee atom
                    key = f"@ptr:{v.n}"
                    if key not in st.refine:
                        is_r = bool(v.ty) and is_ref_ty(v.ty)
                        pointee_ty = strip_one_ref(v.ty) if is_r else self._box_inner(v.ty)
                        c = st.alloc(Sym(f"*{v.n}" if is_r else v.n, pointee_ty, ('deref', v.x) if is_r else v.x))
                        st.refine[key] = Ref(c)
                    r = st.refine[key]
                    cell, proj = r.cell, list(r.proj)
                elif isinstance(v, Unknown):
                    c = st.alloc(Unknown(f"deref of {v!r}"))
                    cell, proj = c, []
                else:
                    pass   # Box/Arc/guard modelled transparently: the value itself is the pointee
            elif k == 'field':
                proj.append(('f', e['i'], e.get('name'), e.get('ty')))
            elif k == 'downcast':
                proj.append(('d', e['variant']))
            elif k == 'constindex' and not e.get('from_end'):
                proj.append(('i', e['offset']))
            else:
                c = st.alloc(Unknown(f"projection {k}"))
                cell, proj = c, []
        return cell, proj

    @staticmethod
    def _box_inner(ty):
        if ty and ty.startswith('std::boxed::Box<'):
            return split_generics(ty)[1][0]
        return ty

    def read_place(self, st, fr, pl):
        cell, proj = self.eval_place(st, fr, pl)
        return self.read_cell_path(st, cell, proj)

    def write_loc(self, st, cell, proj, val):
        if not proj:
            st.heap[cell] = val
            return
        root = st.heap[cell]
        root = self.resolve(st, root)
        if isinstance(root, Sym):
            r = self._refine_for_write(st, root, proj[0])
            if r is None:
                st.heap[cell] = Unknown('write into opaque atom')
                return
            root = r
        st.heap[cell] = root
        cur = root
        for i, p in enumerate(proj):
            last = i == len(proj) - 1
            if p[0] == 'd':
                continue
            if not isinstance(cur, Agg) or p[1] >= len(cur.fields):
                return
            if last:
                cur.fields[p[1]] = val
                return
            nxt = self.resolve(st, cur.fields[p[1]])
            if isinstance(nxt, Sym):
                nxt2 = self._refine_for_write(st, nxt, proj[i + 1])
                if nxt2 is None:
                    cur.fields[p[1]] = Unknown('write into opaque atom')
                    return
                nxt = nxt2
            cur.fields[p[1]] = nxt
            cur = nxt

    def _refine_for_write(self, st, sym, nextp):
        variant = nextp[1] if nextp[0] == 'd' else None
        r = self.refine_sym(st, sym, variant)
        if r is None and nextp[0] == 'f':
            # struct-like value of a type without ADT facts (closure environment, foreign struct): open-ended field list
            r = Agg('opaque', None, [Sym(f"{sym.n}.{i}", None, ('field', sym.x, str(i))) for i in range(nextp[1] + 1)], ty=sym.ty, origin=sym.n)
        if r is not None:
            st.refine[sym.n] = r
        return r

    def write_place(self, st, fr, pl, val):
        cell, proj = self.eval_place(st, fr, pl)
        self.write_loc(st, cell, proj, val)

    # ---------------------------------------------------------------- operands / rvalues
    def eval_operand(self, st, fr, op):
        k = op['k']
        if k in ('copy', 'move'):
            v = self.read_place(st, fr, op['place'])
            return v
        if k == 'const':
            if op.get('fn'):
                return FnItem(op['fn'].get('resolved') or op['fn']['path'])
            if op.get('closure'):
                return Closure(op['closure'], [])
            val = op.get('val')
            ty = op.get('ty')
            if val:
                if val['k'] == 'scalar':
                    if op.get('variant'):
                        head = self.adt_head(ty)
                        return Agg(head, op['variant'], [], ty=ty)
                    s = val['v']
                    if ty == 'char' and len(s) >= 3 and s[0] == "'" and s[-1] == "'":
                        try:
                            import ast
                            return Const(ast.literal_eval(s), ty)
                        except Exception:
                            return Const(s[1:-1], ty)
                    if s in ('true', 'false'):
                        return Const(s == 'true', ty)
                    try:
                        return Const(int(s), ty)
                    except ValueError:
                        return Const(s, ty)
                if val['k'] == 'str':
                    return Const(val['v'], ty)
                if val['k'] == 'bytes':
                    return Const(bytes(val['v']), ty)
                if val['k'] == 'zst':
                    vs = self.adt_variants(ty) if ty else None
                    if vs and len(vs) == 1 and not vs[0][1]:
                        return Agg(self.adt_head(ty), vs[0][0], [], ty=ty)
                    return Const(None, ty)
            if op.get('def') and op.get('promoted') is not None:
                pv = self.eval_promoted(st, f"{op['def']}::promoted[{op['promoted']}]")
                if pv is not None:
                    return pv
            if op.get('def'):
                return Sym(f"const:{op['def']}", ty)
            return Sym(f"const:{op.get('dbg')}", ty)
        return Unknown('operand')

    def eval_promoted(self, st, path):
        """promoted constants are straight-line bodies: evaluate bb0's statements in a scratch frame"""
        body = self.f.bodies.get(path)
        if body is None or len(body.blocks) != 1:
            return None
        cells = {i: st.alloc(Unknown(f"uninit promoted _{i}")) for i in range(len(body.locals))}
        fr = Frame(body, cells, None)
        for s_ in body.blocks[0]['stmts']:
            if s_['k'] == 'assign':
                v = self.eval_rvalue(st, fr, s_['rv'])
                if isinstance(v, tuple):
                    return None
                self.write_place(st, fr, s_['place'], v)
        return st.heap[cells[0]]

    def eval_rvalue(self, st, fr, rv):
        """returns a value, or a list of (state-mutator, value) alternatives via self._alts"""
        k = rv['k']
        if k == 'use':
            return self.eval_operand(st, fr, rv['op'])
        if k == 'ref' or k == 'rawptr':
            cell, proj = self.eval_place(st, fr, rv['place'])
            return Ref(cell, proj)
        if k == 'cast':
            v = self.eval_operand(st, fr, rv['op'])
            if isinstance(v, Const) and isinstance(v.v, bool) and rv['ck'] == 'int2int':
                return Const(int(v.v), rv['ty'])
            if isinstance(v, Agg) and rv['ck'].startswith('Int') or (isinstance(v, Agg) and 'int' in rv['ck'].lower()):
                # enum as integer
                try:
                    return Const(self.variant_discr(v.adt, v.variant), rv['ty'])
                except Exception:
                    return Unknown('enum cast')
            if isinstance(v, Sym) and rv['ck'] in ('int2int',):
                return Sym(v.n, rv['ty'])
            if isinstance(v, Sym) and ('IntToInt' in rv['ck'] or 'int' in rv['ck'].lower()) and v.ty and self.adt_variants(v.ty):
                return Sym(f"{v.n} as int", rv['ty'])
            return v
        if k == 'agg':
            ops = [self.eval_operand(st, fr, o) for o in rv['ops']]
            if rv['ak'] == 'adt':
                return Agg(rv['adt'], rv['variant'], ops)
            if rv['ak'] == 'tuple':
                return Agg('tuple', None, ops)
            if rv['ak'] == 'closure':
                return Closure(rv['closure'], ops)
            return Agg('array', None, ops)
        if k == 'unop':
            a = self.eval_operand(st, fr, rv['a'])
            a = self.resolve(st, a)
            if rv['op'] == 'Not':
                if isinstance(a, Const) and isinstance(a.v, bool):
                    return Const(not a.v, a.ty)
                if isinstance(a, Sym):
                    return ('fork-bool', a, lambda b: Const(not b))
            if rv['op'] == 'PtrMetadata':
                return Sym(f"len({a.name()})", 'usize')
            return Sym(f"{rv['op']}({a.name()})", getattr(a, 'ty', None))
        if k == 'binop':
            a = self.resolve(st, self.eval_operand(st, fr, rv['a']))
            b = self.resolve(st, self.eval_operand(st, fr, rv['b']))
            return self.binop(st, rv['op'], a, b)
        if k == 'discr':
            v = self.read_place(st, fr, rv['place'])
            v = self.resolve(st, v)
            for _ in range(3):
                if isinstance(v, Ref):
                    v = self.resolve(st, self.read_cell_path(st, v.cell, v.proj))
            if isinstance(v, Agg):
                if v.adt in ('tuple', 'array'):
                    return Const(0)
                try:
                    return Const(self.variant_discr(v.adt, v.variant))
                except Exception:
                    return Unknown(f"discriminant of {v!r}")
            if isinstance(v, Sym):
                ty = v.ty if v.ty not in (None, '?') else rv.get('ty')
                if v.ty in (None, '?'):
                    v.ty = ty
                vs = self.adt_variants(ty) if ty else None
                if vs is None:
                    return Unknown(f"discriminant of atom {v.n}: unknown type {ty}")
                return ('fork-variant', v, vs)
            return Unknown(f"discriminant of {v!r}")
        if k == 'tlsref':
            return Sym(f"tls:{rv['def']}")
        return Unknown(f"rvalue {k}")

    def binop(self, st, op, a, b):
        cmpops = {'Eq', 'Ne', 'Lt', 'Le', 'Gt', 'Ge'}
        base = op.replace('WithOverflow', '').replace('Unchecked', '')
        if isinstance(a, Unknown) or isinstance(b, Unknown):
            return Unknown(f"{op} on unknown")
        if isinstance(a, Const) and isinstance(b, Const) and a.v is not None and b.v is not None:
            try:
                r = {'Eq': lambda: a.v == b.v, 'Ne': lambda: a.v != b.v, 'Lt': lambda: a.v < b.v, 'Le': lambda: a.v <= b.v,
                     'Gt': lambda: a.v > b.v, 'Ge': lambda: a.v >= b.v, 'Add': lambda: a.v + b.v, 'Sub': lambda: a.v - b.v,
                     'Mul': lambda: a.v * b.v, 'BitAnd': lambda: a.v & b.v, 'BitOr': lambda: a.v | b.v, 'BitXor': lambda: a.v ^ b.v}[base]()
                if op.endswith('WithOverflow'):
                    return Agg('tuple', None, [Const(r), Const(False)])
                return Const(r)
            except Exception:
                return Unknown(f"const {op}")
        if op in cmpops:
            # bool compared with constant bool
            if isinstance(b, Const) and isinstance(b.v, bool) and isinstance(a, Sym):
                neg = (op == 'Eq' and b.v is False) or (op == 'Ne' and b.v is True)
                return ('fork-bool', a, (lambda x: Const(not x)) if neg else (lambda x: Const(x)))
            return ('fork-order', a, b, op)
        if base in ('Add', 'Sub', 'Mul', 'Div', 'Rem', 'BitAnd', 'BitOr', 'BitXor', 'Shl', 'Shr'):
            sign = {'Add': '+', 'Sub': '-', 'Mul': '*', 'Div': '/', 'Rem': '%', 'BitAnd': '&', 'BitOr': '|', 'BitXor': '^', 'Shl': '<<', 'Shr': '>>'}[base]
            an, bn = a.name(), b.name()
            if base in ('Add', 'Mul', 'BitAnd', 'BitOr', 'BitXor') and bn < an:
                an, bn = bn, an
            la, lb = self._lin(a), self._lin(b)
            if base == 'Add' and isinstance(b, Const) and b.v == 0:
                r = a
            elif base == 'Add' and isinstance(a, Const) and a.v == 0:
                r = b
            elif base in ('Add', 'Sub') and la and lb and (la[1] is None or lb[1] is None) and not (base == 'Sub' and lb[1] is not None):
                c = la[0] + (lb[0] if base == 'Add' else -lb[0])
                atom = la[1] or lb[1]
                if atom is None:
                    r = Const(c)
                elif c == 0:
                    r = atom
                else:
                    r = Sym(f"({c}+{atom.n})", getattr(atom, 'ty', None), ('lin', c, atom.x))
                    r.lin = (c, atom)
            else:
                r = Sym(f"({an}{sign}{bn})", getattr(a, 'ty', None), ('op', sign, self.xof(st, a), self.xof(st, b)))
            if op.endswith('WithOverflow'):
                st.notes.append(f"overflow-check {an}{sign}{bn}")
                return Agg('tuple', None, [r, Const(False)])
            return r
        if base == 'Cmp':
            return ('fork-order', a, b, 'Cmp')
        return Unknown(f"binop {op}")

    @staticmethod
    def _lin(v):
        """(constant, atom or None) if v is an integer constant, an atom, or constant+atom"""
        if isinstance(v, Const) and isinstance(v.v, int) and not isinstance(v.v, bool):
            return (v.v, None)
        if isinstance(v, Sym):
            if hasattr(v, 'lin'):
                return v.lin
            return (0, v)
        return None

    # ---------------------------------------------------------------- ordering atoms
    def order_alternatives(self, st, a, b, op):
        """returns list of (decision or None, Const result)"""
        an, bn = a.name(), b.name()
        swap = False
        if bn < an:
            an, bn = bn, an
            swap = True
        atom = f"ord({an},{bn})"
        cur = st.cond_map.get(atom)
        if atom not in st.atom_info:
            xa, xb = self.xof(st, a), self.xof(st, b)
            st.atom_info[atom] = {'kind': 'ord', 'a': xb if swap else xa, 'b': xa if swap else xb}

        def res(rel):  # rel is relation of an to bn: lt/eq/gt
            if swap:
                rel = {'lt': 'gt', 'gt': 'lt', 'eq': 'eq'}[rel]
            if op == 'Cmp':
                return Agg('std::cmp::Ordering', {'lt': 'Less', 'eq': 'Equal', 'gt': 'Greater'}[rel], [])
            return Const({'Eq': rel == 'eq', 'Ne': rel != 'eq', 'Lt': rel == 'lt', 'Le': rel != 'gt', 'Gt': rel == 'gt', 'Ge': rel != 'lt'}[op])

        if cur in ('lt', 'eq', 'gt'):
            return [(None, res(cur))]
        if op in ('Eq', 'Ne'):
            if cur == 'ne':
                return [(None, Const(op == 'Ne'))]
            return [((atom, 'eq'), Const(op == 'Eq')), ((atom, 'ne'), Const(op == 'Ne'))]
        if cur == 'ne':
            return [((atom, r), res(r)) for r in ('lt', 'gt')]
        return [((atom, r), res(r)) for r in ('lt', 'eq', 'gt')]

    # ---------------------------------------------------------------- driving
    def run(self, path, args=None, arg_names=None, setup=None):
        """abstractly execute body `path`.  args: list of V (one per parameter) or None for fresh atoms named after
        the parameters.  Returns list of Row."""
        body = self.f.bodies[path]
        FOOTPRINT.add(path)
        st = State()
        cells = {}
        for i, l in enumerate(body.locals):
            cells[i] = st.alloc(Unknown(f"uninit _{i}"))
        fr = Frame(body, cells, None)
        st.frames.append(fr)
        for i in range(1, body.arg_count + 1):
            if args is not None and i - 1 < len(args) and args[i - 1] is not None:
                v = args[i - 1]
            else:
                nm = (arg_names[i - 1] if arg_names else None) or body.locals[i].get('name') or f"arg{i}"
                v = self.make_input(st, nm, body.locals[i]['ty'])
            st.heap[cells[i]] = v
        st.input_cells = [cells[i] for i in range(1, body.arg_count + 1)]
        if setup:
            setup(self, st, fr)
        self.rows = []
        self.cut_rows = 0
        self.work = [st]
        while self.work:
            s = self.work.pop()
            try:
                self.step_until_done(s)
            except Undecided as e:
                s.undecided = str(e)
                self.rows.append(Row(s))
            except LoopCut:
                self.cut_rows += 1
            if len(self.rows) > self.max_rows:
                raise Undecided(f"more than {self.max_rows} rows")
        STATS['fdi_runs'] += 1
        STATS['table_rows_enumerated'] += len(self.rows)
        STATS['rows_cut_at_unrolling_bound'] += self.cut_rows
        STATS['rows_undecided'] += sum(1 for r in self.rows if r.undecided)
        return self.rows

    def make_input(self, st, name, ty):
        """an input atom; references are materialised as Ref to a cell holding the pointee atom"""
        if ty and is_ref_ty(ty):
            c = st.alloc(self.make_input(st, name, strip_one_ref(ty)))
            return Ref(c)
        return Sym(name, ty, ('in', name))

    def finish(self, st, result):
        st.result = result
        st.final = [self.deep_resolve(st, st.heap[c]) for c in getattr(st, 'input_cells', [])]
        self.rows.append(Row(st))

    def step_until_done(self, st):
        while True:
            st.steps += 1
            if st.steps > self.max_steps:
                raise Undecided('step limit')
            fr = st.frames[-1]
            blk = fr.body.blocks[fr.bb]
            start_i = getattr(fr, 'stmt_i', 0)
            forked = False
            for si in range(start_i, len(blk['stmts'])):
                s = blk['stmts'][si]
                if s['k'] == 'assign':
                    v = self.eval_rvalue(st, fr, s['rv'])
                    if isinstance(v, tuple):
                        alts = self.alternatives(st, v)
                        self._fork_assign(st, fr, s['place'], alts, next_stmt=si + 1)
                        forked = True
                        break
                    self.write_place(st, fr, s['place'], v)
                elif s['k'] == 'setdiscr':
                    pass
            if forked:
                return
            fr.stmt_i = 0
            t = blk['term']
            k = t['k']
            if k == 'goto':
                self.goto(st, fr, t['target'])
            elif k == 'switch':
                v = self.resolve(st, self.eval_operand(st, fr, t['discr']))
                if isinstance(v, Const):
                    val = int(v.v) if not isinstance(v.v, str) else v.v
                    tgt = t['otherwise']
                    for a, bb in t['arms']:
                        if str(a) == str(val):
                            tgt = bb
                    self.goto(st, fr, tgt)
                elif isinstance(v, Sym):
                    st.atom_info.setdefault(v.n, {'kind': 'switch', 'x': v.x})
                    # fork over the arms
                    arms = [(a, bb) for a, bb in t['arms']] + [('other', t['otherwise'])]
                    is_bool = (t.get('discr_ty') == 'bool')
                    cur = st.cond_map.get(v.n)
                    first = True
                    alts = []
                    for a, bb in arms:
                        if is_bool:
                            val = (a != '0') if a != 'other' else (not any(x[0] != '0' for x in t['arms']) or True)
                            if a == 'other':
                                # otherwise for a bool switch with arm 0 -> true
                                val = True if any(x[0] == '0' for x in t['arms']) else False
                            dec = val
                        else:
                            dec = a
                        if cur is not None and cur != dec:
                            continue
                        alts.append((dec, bb))
                    if not alts:
                        raise Undecided(f"no feasible arm for {v.n}")
                    for i, (dec, bb) in enumerate(alts):
                        s2 = st if i == len(alts) - 1 else st.fork()
                        if cur is None:
                            s2.decide(v.n, dec)
                        f2 = s2.frames[-1]
                        self.goto(s2, f2, bb)
                        if s2 is not st:
                            self.work.append(s2)
                else:
                    raise Undecided(f"switch on {v!r} in {fr.body.path} bb{fr.bb} (L{t['line']})")
            elif k == 'return':
                rv = st.heap[fr.cells[0]]
                st.frames.pop()
                if not st.frames:
                    self.finish(st, self.deep_resolve(st, rv))
                    return
                caller = st.frames[-1]
                cont = fr.ret_to
                if callable(cont):
                    if cont(st, caller, rv) is True:
                        return          # the continuation consumed the state (forked / finished / cut)
                else:
                    dest, target = cont
                    self.write_place(st, caller, dest, rv)
                    if target is None:
                        raise Undecided('return into diverging call')
                    self.goto(st, caller, target)
            elif k == 'drop':
                self.goto(st, fr, t['target'])
            elif k == 'assert':
                st.notes.append(f"assert[{t['msg']}]@{fr.body.path}:L{t['line']}")
                self.goto(st, fr, t['target'])
            elif k == 'call':
                if self.do_call(st, fr, t):
                    return
            elif k == 'unreachable':
                # infeasible alternative (e.g. otherwise arm of an exhaustive match)
                return
            else:
                raise Undecided(f"terminator {k}")

    def goto(self, st, fr, bb):
        # loop bound: a block may be entered at most loop_k+1 times per activation
        n = fr.loop_visits.get(bb, 0) + 1
        fr.loop_visits[bb] = n
        if n > self.loop_k + 1:
            st.notes.append('loop-cut')
            raise LoopCut()
        fr.bb = bb
        fr.stmt_i = 0

    def alternatives(self, st, tagged):
        """expand a fork request into [(decision or None, value, post(st))]"""
        kind = tagged[0]
        if kind == 'fork-bool':
            sym, fn = tagged[1], tagged[2]
            cur = st.cond_map.get(sym.n)
            st.atom_info.setdefault(sym.n, {'kind': 'bool', 'x': sym.x})
            if cur is not None:
                return [(None, fn(bool(cur)), None)]
            return [((sym.n, True), fn(True), None), ((sym.n, False), fn(False), None)]
        if kind == 'fork-order':
            a, b, op = tagged[1], tagged[2], tagged[3]
            return [(d, v, None) for d, v in self.order_alternatives(st, a, b, op)]
        if kind == 'fork-variant':
            sym, vs = tagged[1], tagged[2]
            atom = f"variant({sym.n})"
            cur = st.cond_map.get(atom)
            st.atom_info.setdefault(atom, {'kind': 'variant', 'of': sym.x, 'ty': sym.ty})
            head = self.adt_head(sym.ty)
            out = []
            for (vn, fl, ftys) in vs:
                if cur is not None and cur != vn:
                    continue
                def post(s2, vn=vn, sym=sym):
                    r = self.refine_sym(s2, sym, vn)
                    if r is not None:
                        s2.refine[sym.n] = r
                try:
                    d = self.variant_discr(head, vn) if vn is not None else 0
                except Exception:
                    d = 0
                out.append(((atom, vn) if cur is None else None, Const(d), post))
            return out
        if kind == 'alts':
            return tagged[1]
        raise Undecided(f"fork kind {kind}")

    def _fork_assign(self, st, fr, place, alts, next_stmt):
        if not alts:
            return
        for i, (dec, val, post) in enumerate(alts):
            s2 = st if i == len(alts) - 1 else st.fork()
            f2 = s2.frames[-1]
            if dec is not None:
                s2.decide(dec[0], dec[1])
            if post:
                post(s2)
            self.write_place(s2, f2, place, val)
            f2.stmt_i = next_stmt
            self.work.append(s2)

    def deep_resolve(self, st, v, depth=0):
        v = self.resolve(st, v)
        if depth > 6:
            return v
        if isinstance(v, Agg):
            return Agg(v.adt, v.variant, [self.deep_resolve(st, x, depth + 1) for x in v.fields], v.ty, v.origin)
        if isinstance(v, Ref):
            try:
                tv = self.read_cell_path(st, v.cell, v.proj)
                return Agg('ref', None, [self.deep_resolve(st, tv, depth + 1)])
            except Exception:
                return v
        return v

    # ---------------------------------------------------------------- calls
    def arg_values(self, st, fr, t):
        return [self.resolve(st, self.eval_operand(st, fr, a)) for a in t['args']]

    def ret(self, st, fr, t, val):
        """complete a call with a value (or fork alternatives)"""
        if isinstance(val, tuple):
            alts = self.alternatives(st, val)
            for i, (dec, v, post) in enumerate(alts):
                s2 = st if i == len(alts) - 1 else st.fork()
                f2 = s2.frames[-1]
                if dec is not None:
                    s2.decide(dec[0], dec[1])
                if post:
                    post(s2)
                self.write_place(s2, f2, t['dest'], v)
                if t['target'] is None:
                    continue
                self.goto(s2, f2, t['target'])
                self.work.append(s2)
            return True   # current state consumed (all alternatives queued)
        self.write_place(st, fr, t['dest'], val)
        if t['target'] is None:
            return True
        self.goto(st, fr, t['target'])
        return False

    def do_call(self, st, fr, t):
        """returns True if the current state was consumed (forked / finished)"""
        name = callee_name(t)
        c = t['callee']
        args = self.arg_values(st, fr, t)
        # effects designated by the rule
        is_effect = False
        for r in self.effects:
            if r.search(name):
                st.effects.append((name, [self.describe(st, a) for a in args], {'line': t['line'], 'fn': fr.body.path, 'x': [self.xof(st, a) for a in args],
                                                                                'n': len(st.effects) + 1, 'ci': len(st.cond)}))
                is_effect = True
                break
        # models
        for r, m in self._model_res:
            if r.search(name) and not any(x.search(name) for x in self.no_models):
                out = m(self, st, fr, t, args, name)
                if out is NotImplemented:
                    continue
                if out is CONSUMED:
                    return True
                return self.ret(st, fr, t, out)
        # fn pointer / closure values called through Fn traits are handled by models; crate-local: inline
        if c['k'] == 'def' and name in self.f.bodies and len(st.frames) <= self.inline_depth and not any(r.search(name) for r in self.no_inline):
            cb = self.f.bodies[name]
            if cb.kind == 'Closure' and len(args) == 2 and isinstance(args[1], Agg) and args[1].adt == 'tuple' and cb.arg_count != 2:
                args = [args[0]] + list(args[1].fields)      # "rust-call" ABI: the argument tuple is spread
            elif cb.kind == 'Closure' and len(args) == 2 and isinstance(args[1], Agg) and args[1].adt == 'tuple' and len(args[1].fields) == 1:
                args = [args[0], args[1].fields[0]]
            self.push_frame(st, name, args, (t['dest'], t['target']))
            return False
        if c['k'] == 'ptr':
            fv = self.resolve(st, self.eval_operand(st, fr, c['op']))
            if isinstance(fv, FnItem) and fv.path in self.f.bodies and len(st.frames) <= self.inline_depth:
                self.push_frame(st, fv.path, args, (t['dest'], t['target']))
                return False
            return self.ret(st, fr, t, Sym(f"callptr:{fv.name()}({','.join(a.name() for a in args)})", t['dest_ty']))
        # not interpreted: whatever is reachable through a `&mut` argument may have been changed by the callee
        self.havoc_mut_args(st, fr, t, args)
        # unknown callee: pure-function assumption -> an atom named after callee and arguments
        if any(isinstance(a, Unknown) for a in args):
            return self.ret(st, fr, t, Unknown(f"{name} on unknown"))
        if is_effect:
            k = len(st.effects)
            # effect results are unique per path through their index: the arguments stay in the effect entry / in .x
            return self.ret(st, fr, t, Sym(f"{name}#{k}", t['dest_ty'], ('eff', name, k, tuple(self.xof(st, a) for a in args))))
        return self.ret(st, fr, t, Sym(f"{name}({','.join(self.describe(st, a) for a in args)})", t['dest_ty'],
                                       ('call', name, tuple(self.xof(st, a) for a in args))))

    def extern_value(self, st, name, args, dest_ty, line=None, fn=None, unique=False):
        """result of a call that is not interpreted, issued by a model: effect entry if designated, atom otherwise.  `unique`: the
        call is not a pure function of its arguments (Iterator::next): if the rule did not designate it, the result still gets a
        name of its own (`name#u<k>`) but no effect entry (the rule's effect list stays what the rule asked for)"""
        for r in self.effects:
            if r.search(name):
                st.effects.append((name, [self.describe(st, a) for a in args], {'line': line, 'fn': fn, 'x': [self.xof(st, a) for a in args],
                                                                                'n': len(st.effects) + 1, 'ci': len(st.cond)}))
                k = len(st.effects)
                return Sym(f"{name}#{k}", dest_ty, ('eff', name, k, tuple(self.xof(st, a) for a in args)))
        if any(isinstance(a, Unknown) for a in args):
            return Unknown(f"{name} on unknown")
        if unique:
            k = 'u' + st.fresh('uniq').split('#')[1]
            return Sym(f"{name}#{k}", dest_ty, ('eff', name, k, tuple(self.xof(st, a) for a in args)))
        return Sym(f"{name}({','.join(self.describe(st, a) for a in args)})", dest_ty, ('call', name, tuple(self.xof(st, a) for a in args)))

    def havoc_mut_args(self, st, fr, t, args):
        for i, a in enumerate(t['args']):
            if a['k'] not in ('copy', 'move') or a['place']['p']:
                continue
            ty = fr.body.locals[a['place']['l']]['ty']
            if not ty.startswith('&') or not re.match(r"^&('\w+ )?mut ", ty):
                continue
            v = args[i]
            if isinstance(v, Ref):
                try:
                    old = self.read_cell_path(st, v.cell, v.proj)
                except Exception:
                    continue
                k = st.fresh('havoc')
                base = self.describe(st, old)
                base = base.split("'")[0]
                self.write_loc(st, v.cell, v.proj, Sym(f"{base}'{k.split('#')[1]}", strip_one_ref(ty), ('havoc', self.xof(st, old), callee_name(t))))

    def describe(self, st, v, depth=0):
        v = self.resolve(st, v)
        if isinstance(v, Ref) and depth < 4:
            try:
                return '&' + self.describe(st, self.read_cell_path(st, v.cell, v.proj), depth + 1)
            except Exception:
                return repr(v)
        if isinstance(v, Agg):
            if v.origin:
                return v.origin
            if v.adt == 'tuple':
                return '(' + ','.join(self.describe(st, x, depth + 1) for x in v.fields) + ')'
            if v.adt.startswith('iter:'):
                return f"{v.adt[5:]}({','.join(self.describe(st, x, depth + 1) for x in v.fields)})"
            return f"{v.adt.split('::')[-1]}::{v.variant}" + ('(' + ','.join(self.describe(st, x, depth + 1) for x in v.fields) + ')' if v.fields else '')
        return v.name()

    def xof(self, st, v, depth=0):
        """structured expression of a value (for rules that inspect atoms)"""
        v = self.resolve(st, v)
        if isinstance(v, Ref):
            if depth < 5:
                try:
                    return ('ref', self.xof(st, self.read_cell_path(st, v.cell, v.proj), depth + 1))
                except Exception:
                    pass
            return ('ref', ('cell', v.cell))
        if isinstance(v, Const):
            return ('const', v.v)
        if isinstance(v, Sym):
            return v.x
        if isinstance(v, Agg):
            if v.origin and depth > 0:
                return v.ox if v.ox is not None else ('atom', v.origin)
            return ('agg', v.adt, v.variant, tuple(self.xof(st, x, depth + 1) for x in v.fields))
        if isinstance(v, Tokens):
            return ('tokens', tuple(v.toks))
        if isinstance(v, (Closure, FnItem)):
            return ('fn', v.path)
        return ('unknown', getattr(v, 'why', '?'))

    def push_frame(self, st, path, args, ret_to):
        body = self.f.bodies[path]
        FOOTPRINT.add(path)
        cells = {}
        for i, l in enumerate(body.locals):
            cells[i] = st.alloc(Unknown(f"uninit _{i}"))
        nf = Frame(body, cells, ret_to)
        for i in range(1, body.arg_count + 1):
            st.heap[cells[i]] = args[i - 1] if i - 1 < len(args) else Unknown('missing arg')
        st.frames.append(nf)

    def call_closure(self, st, clo, call_args, cont):
        """invoke closure/fn value `clo` with explicit args; cont(st, caller_frame, retval) continues the caller.
        returns True if frame pushed"""
        clo = self.resolve(st, clo)
        if isinstance(clo, Ref):
            clo = self.read_cell_path(st, clo.cell, clo.proj)
        if isinstance(clo, FnItem):
            if clo.path in self.f.bodies:
                self.push_frame(st, clo.path, call_args, cont)
                return True
            return False
        if isinstance(clo, Closure) and clo.path in self.f.bodies:
            body = self.f.bodies[clo.path]
            env_ty = body.locals[1]['ty'] if len(body.locals) > 1 else ''
            if is_ref_ty(env_ty):
                c = st.alloc(clo)
                env = Ref(c)
            else:
                env = clo
            self.push_frame(st, clo.path, [env] + list(call_args), cont)
            return True
        return False


CONSUMED = object()
STATS = {'fdi_runs': 0, 'table_rows_enumerated': 0, 'rows_cut_at_unrolling_bound': 0, 'rows_undecided': 0}
# reporting helpers: their inside (error channel selection, formatting) is never part of a decision under analysis
DEFAULT_NO_INLINE = [r'^util::eprint_(err|msg)$']


# ------------------------------------------------------------------------------------------------ std models
def m_passthrough(I, st, fr, t, args, name):
    if name in I.f.bodies:
        return NotImplemented      # a crate-local impl (e.g. From<u8> for Duplicate) is interpreted, not skipped
    return args[0]


SMART = re.compile(r"^(std::sync::(MutexGuard|RwLockReadGuard|RwLockWriteGuard|Arc)|std::boxed::Box|std::cell::(RefMut|Ref)|std::rc::Rc)<('_, )?(.*)>$")


def m_deref(I, st, fr, t, args, name):
    a = args[0]
    # Deref of Arc/Box/MutexGuard/...: the smart pointer is modelled as its pointee; an atom of smart-pointer type is
    # re-typed to the pointee type (memoised, so that every deref of one guard reaches the same cell)
    v = a
    if isinstance(a, Ref):
        try:
            v = I.resolve(st, I.read_cell_path(st, a.cell, a.proj))
        except Exception:
            return a
    if isinstance(v, Sym) and v.ty:
        m = SMART.match(v.ty)
        if m:
            inner = split_generics('X<' + m.group(5) + '>')[1]
            inner_ty = inner[0] if inner else m.group(5)
            key = f"@deref:{v.n}"
            if key not in st.refine:
                c = st.alloc(Sym(v.n, inner_ty, v.x))
                st.refine[key] = Ref(c)
            return st.refine[key]
    return a


def m_clone(I, st, fr, t, args, name):
    a = args[0]
    if isinstance(a, Ref):
        v = I.read_cell_path(st, a.cell, a.proj)
        return clone_value(v)
    return clone_value(a)


def _opt_variant(I, st, v):
    v = I.resolve(st, v)
    if isinstance(v, Ref):
        v = I.resolve(st, I.read_cell_path(st, v.cell, v.proj))
    return v


def m_is_variant(variant, negate=False):
    def m(I, st, fr, t, args, name):
        v = _opt_variant(I, st, args[0])
        if isinstance(v, Agg):
            r = (v.variant == variant)
            return Const(r != negate)
        if isinstance(v, Sym):
            vs = I.adt_variants(v.ty) if v.ty else None
            if not vs:
                return Sym(f"{name.split('::')[-1]}({v.n})", 'bool')
            atom = f"variant({v.n})"
            st.atom_info.setdefault(atom, {'kind': 'variant', 'of': v.x, 'ty': v.ty})
            cur = st.cond_map.get(atom)
            alts = []
            for (vn, fl, ftys) in vs:
                if cur is not None and cur != vn:
                    continue
                def post(s2, vn=vn, v=v):
                    r = I.refine_sym(s2, v, vn)
                    if r is not None:
                        s2.refine[v.n] = r
                alts.append(((atom, vn) if cur is None else None, Const((vn == variant) != negate), post))
            return ('alts', alts)
        return Unknown(f"{name} on {v!r}")
    return m


def m_unwrap_like(I, st, fr, t, args, name):
    """Option::unwrap/expect, Result::unwrap/expect: value of the success variant (failure = may-panic, noted)"""
    v = _opt_variant(I, st, args[0])
    if isinstance(v, Agg) and v.fields:
        if v.variant in ('Some', 'Ok'):
            return v.fields[0]
        st.notes.append(f"unwrap-on-{v.variant}")
        return CONSUMED_PATH(I, st)
    if isinstance(v, Agg) and v.variant in ('None',):
        st.notes.append('unwrap-on-None')
        return CONSUMED_PATH(I, st)
    if isinstance(v, Sym):
        st.notes.append(f"unwrap({v.n})")
        return Sym(f"{v.n}.unwrap", t['dest_ty'], ('field', v.x, '0'))
    return Unknown('unwrap')


def CONSUMED_PATH(I, st):
    # the path panics: it does not produce a row
    return CONSUMED


def _with_option(I, st, v, on_none, on_some):
    """helper: v is an Option-like value; returns alternatives by forking on its variant"""
    v = _opt_variant(I, st, v)
    if isinstance(v, Agg):
        if v.variant in ('None',):
            return on_none(st)
        return on_some(st, v.fields[0] if v.fields else Const(None))
    return None


def m_unwrap_or(I, st, fr, t, args, name):
    v = _opt_variant(I, st, args[0])
    if isinstance(v, Agg):
        if v.variant in ('Some', 'Ok'):
            return v.fields[0]
        return args[1]
    if isinstance(v, Sym):
        vs = I.adt_variants(v.ty) if v.ty else None
        if vs:
            atom = f"variant({v.n})"
            st.atom_info.setdefault(atom, {'kind': 'variant', 'of': v.x, 'ty': v.ty})
            cur = st.cond_map.get(atom)
            alts = []
            for (vn, fl, ftys) in vs:
                if cur is not None and cur != vn:
                    continue
                if vn in ('Some', 'Ok'):
                    val = Sym(f"{v.n}.0", ftys[0] if ftys else None, ('field', v.x, '0'))
                else:
                    val = args[1]
                def post(s2, vn=vn, v=v):
                    r = I.refine_sym(s2, v, vn)
                    if r is not None:
                        s2.refine[v.n] = r
                alts.append(((atom, vn) if cur is None else None, val, post))
            return ('alts', alts)
    return Unknown('unwrap_or')


def _fork_option_then(I, st, fr, t, v, handler):
    """fork on the variant of Option/Result value v, then run handler(state, frame, variant name, payload) which must
    complete the call in that state (via I.ret or by pushing a frame).  Returns CONSUMED."""
    v = _opt_variant(I, st, v)
    if isinstance(v, Agg):
        done = handler(st, st.frames[-1], v.variant, v.fields[0] if v.fields else None)
        if not done:
            I.work.append(st)
        return CONSUMED
    if isinstance(v, Sym):
        vs = I.adt_variants(v.ty) if v.ty else None
        if not vs:
            return None
        atom = f"variant({v.n})"
        st.atom_info.setdefault(atom, {'kind': 'variant', 'of': v.x, 'ty': v.ty})
        cur = st.cond_map.get(atom)
        todo = [x for x in vs if cur is None or cur == x[0]]
        for i, (vn, fl, ftys) in enumerate(todo):
            s2 = st if i == len(todo) - 1 else st.fork()
            if cur is None:
                s2.decide(atom, vn)
            r = I.refine_sym(s2, v, vn)
            if r is not None:
                s2.refine[v.n] = r
            payload = r.fields[0] if (r is not None and r.fields) else None
            done = handler(s2, s2.frames[-1], vn, payload)
            if not done:
                I.work.append(s2)
        return CONSUMED
    return None


def m_map_or(I, st, fr, t, args, name):
    # Option/Result combinators taking closures: fork on the variant, then invoke the closure (interpreted if its
    # body is in the crate, otherwise its result is an atom named after the callee and its arguments)
    meth = name.split('::')[-1]
    opt = args[0]
    is_opt = 'Option' in name
    head = 'std::option::Option' if is_opt else 'std::result::Result'
    okv = 'Some' if is_opt else 'Ok'

    def invoke(s2, f2, callee, cargs, wrap):
        """returns True if the state was consumed (frame pushed -> caller re-queues), else completes the call"""
        def cont(s3, caller, rv):
            I.write_place(s3, caller, t['dest'], wrap(rv))
            I.goto(s3, caller, t['target'])
        if I.call_closure(s2, callee, cargs, cont):
            return False      # frame pushed; state continues (not consumed)
        cv = I.resolve(s2, callee)
        if isinstance(cv, FnItem):
            rv = I.extern_value(s2, cv.path, cargs, None, line=t['line'], fn=f2.body.path)      # a designated effect stays one when passed as a fn value
        else:
            rv = Sym(f"{cv.name()}({','.join(I.describe(s2, a) for a in cargs)})", None, ('call', cv.name(), tuple(I.xof(s2, a) for a in cargs)))
        return I.ret(s2, f2, t, wrap(rv))

    ident = lambda x: x

    def handler(s2, f2, vn, payload):
        succ = vn in ('Some', 'Ok')
        if meth == 'map_or':
            return invoke(s2, f2, args[2], [payload], ident) if succ else I.ret(s2, f2, t, args[1])
        if meth == 'map_or_else':
            if succ:
                return invoke(s2, f2, args[2], [payload], ident)
            return invoke(s2, f2, args[1], [] if is_opt else [payload], ident)
        if meth in ('is_some_and', 'is_ok_and'):
            return invoke(s2, f2, args[1], [payload], ident) if succ else I.ret(s2, f2, t, Const(False))
        if meth == 'is_none_or':
            return invoke(s2, f2, args[1], [payload], ident) if succ else I.ret(s2, f2, t, Const(True))
        if meth in ('map', 'and_then'):
            if succ:
                wrap = (lambda rv: Agg(head, okv, [rv])) if meth == 'map' else ident
                return invoke(s2, f2, args[1], [payload], wrap)
            return I.ret(s2, f2, t, Agg(head, vn, [payload] if (payload is not None and vn == 'Err') else []))
        if meth == 'unwrap_or_else':
            if succ:
                return I.ret(s2, f2, t, payload)
            return invoke(s2, f2, args[1], [] if is_opt else [payload], ident)
        if meth == 'or_else':
            if succ:
                return I.ret(s2, f2, t, Agg(head, vn, [payload]))
            return invoke(s2, f2, args[1], [] if is_opt else [payload], ident)
        if meth in ('map_err', 'inspect_err', 'inspect'):
            if meth == 'inspect':
                if not succ:
                    return I.ret(s2, f2, t, Agg(head, vn, [payload] if payload is not None else []))
                c = s2.alloc(payload)
                return invoke(s2, f2, args[1], [Ref(c)], lambda rv: Agg(head, okv, [payload]))
            if succ:
                return I.ret(s2, f2, t, Agg('std::result::Result', 'Ok', [payload]))
            if meth == 'map_err':
                return invoke(s2, f2, args[1], [payload], lambda rv: Agg('std::result::Result', 'Err', [rv]))
            c = s2.alloc(payload)
            return invoke(s2, f2, args[1], [Ref(c)], lambda rv: Agg('std::result::Result', 'Err', [payload]))
        return I.ret(s2, f2, t, Unknown(f"{name}: not modelled"))

    r = _fork_option_then(I, st, fr, t, opt, handler)
    if r is None:
        return Unknown(f"{name} on non-option {opt!r}")
    return r


def m_try_branch(I, st, fr, t, args, name):
    """<Result/Option as Try>::branch -> ControlFlow"""
    v = _opt_variant(I, st, args[0])
    is_opt = 'Option' in (t['callee'].get('self_ty') or '')

    def conv(vn, payload):
        if vn in ('Ok', 'Some'):
            return Agg('std::ops::ControlFlow', 'Continue', [payload])
        inner = Agg('std::option::Option', 'None', []) if vn == 'None' else Agg('std::result::Result', 'Err', [payload])
        return Agg('std::ops::ControlFlow', 'Break', [inner])
    if isinstance(v, Agg):
        return conv(v.variant, v.fields[0] if v.fields else None)
    if isinstance(v, Sym):
        vs = I.adt_variants(v.ty) if v.ty else None
        if vs:
            atom = f"variant({v.n})"
            st.atom_info.setdefault(atom, {'kind': 'variant', 'of': v.x, 'ty': v.ty})
            cur = st.cond_map.get(atom)
            alts = []
            for (vn, fl, ftys) in vs:
                if cur is not None and cur != vn:
                    continue
                payload = Sym(f"{v.n}.0", ftys[0] if ftys else None, ('field', v.x, '0')) if fl else None
                alts.append(((atom, vn) if cur is None else None, conv(vn, payload), None))
            return ('alts', alts)
    return Unknown('Try::branch')


def m_from_residual(I, st, fr, t, args, name):
    v = _opt_variant(I, st, args[0])
    if isinstance(v, Agg):
        if v.variant == 'Err':
            return Agg('std::result::Result', 'Err', [Sym(f"from({I.describe(st, v.fields[0])})", None) if v.fields else Const(None)])
        if v.variant == 'None':
            return Agg('std::option::Option', 'None', [])
    return Sym(f"residual({I.describe(st, v)})", t['dest_ty'])


def m_opt_as_ref(I, st, fr, t, args, name):
    """Option/Result::as_ref / as_mut / as_deref(_mut): `&Option<T>` -> `Option<&T>` with the payload a reference into the pointee"""
    a = args[0]
    if not isinstance(a, Ref):
        return a
    v = I.resolve(st, I.read_cell_path(st, a.cell, a.proj))
    head = 'std::option::Option' if 'Option' in name else 'std::result::Result'

    def mk(vn, has_payload):
        return Agg(head, vn, [Ref(a.cell, list(a.proj) + [('d', vn), ('f', 0, '0', None)])] if has_payload else [])
    if isinstance(v, Agg) and v.variant is not None:
        return mk(v.variant, bool(v.fields))
    # an atom: stay lazy (`&Option<T>` stands for `Option<&T>`; discriminant reads and payload projections follow the reference),
    # so that a pass-through use (e.g. handing `x.as_deref()` to a callee) does not fork
    return a


def m_opt_copied(I, st, fr, t, args, name):
    v = _opt_variant(I, st, args[0])
    if isinstance(v, Agg) and v.variant in ('Some', 'Ok') and v.fields and isinstance(v.fields[0], Ref):
        r = v.fields[0]
        try:
            return Agg(v.adt, v.variant, [clone_value(I.read_cell_path(st, r.cell, r.proj))])
        except Exception:
            return v
    if isinstance(v, Agg):
        return v
    return args[0]


def m_result_ok(I, st, fr, t, args, name):
    """Result::ok / Result::err: Option of the respective payload"""
    want = 'Ok' if name.endswith('::ok') else 'Err'
    v = _opt_variant(I, st, args[0])
    some = lambda x: Agg('std::option::Option', 'Some', [x])
    none = Agg('std::option::Option', 'None', [])
    if isinstance(v, Agg) and v.variant in ('Ok', 'Err'):
        return some(v.fields[0]) if v.variant == want and v.fields else (none if v.variant != want else some(Const(None)))
    if isinstance(v, Sym):
        vs = I.adt_variants(v.ty) if v.ty else None
        if vs:
            atom = f"variant({v.n})"
            st.atom_info.setdefault(atom, {'kind': 'variant', 'of': v.x, 'ty': v.ty})
            cur = st.cond_map.get(atom)
            alts = []
            for (vn, fl, ftys) in vs:
                if cur is not None and cur != vn:
                    continue
                def post(s2, vn=vn, v=v):
                    r = I.refine_sym(s2, v, vn)
                    if r is not None:
                        s2.refine[v.n] = r
                val = some(Sym(f"{v.n}.0", ftys[0] if ftys else None, ('field', v.x, '0'))) if vn == want else Agg('std::option::Option', 'None', [])
                alts.append(((atom, vn) if cur is None else None, val, post))
            return ('alts', alts)
    return NotImplemented


def m_with_extension(I, st, fr, t, args, name):
    """Path::with_extension(p, ext) = { let mut b = p.to_path_buf(); b.set_extension(ext); b } - same effect entry and the same
    havoc-named value as the two-step form, so that rules see one shape"""
    a = args[0]
    old = I.read_cell_path(st, a.cell, a.proj) if isinstance(a, Ref) else a
    c = st.alloc(clone_value(old))
    I.extern_value(st, 'std::path::PathBuf::set_extension', [Ref(c), args[1]], 'bool', line=t['line'], fn=fr.body.path)
    k = st.fresh('havoc')
    base = I.describe(st, old).split("'")[0]
    return Sym(f"{base}'{k.split('#')[1]}", 'std::path::PathBuf', ('havoc', I.xof(st, old), 'std::path::PathBuf::set_extension'))


def m_option_take(I, st, fr, t, args, name):
    a = args[0]
    if isinstance(a, Ref):
        v = I.read_cell_path(st, a.cell, a.proj)
        I.write_loc(st, a.cell, a.proj, Agg('std::option::Option', 'None', []))
        return v
    return Unknown('take')


def m_bool_atom(label):
    def m(I, st, fr, t, args, name):
        return Sym(f"{label}({','.join(I.describe(st, a) for a in args)})", 'bool')
    return m


def m_call_fn(I, st, fr, t, args, name):
    """<F as FnOnce/FnMut/Fn>::call*(f, (args,))"""
    clo = args[0]
    tup = I.resolve(st, args[1]) if len(args) > 1 else Agg('tuple', None, [])
    cargs = tup.fields if isinstance(tup, Agg) and tup.adt == 'tuple' else []

    # a function item called through the Fn traits (`helper(self, FileLogWriterBuilder::append)`) is the same call as the direct one: the rule's
    # designation (effect entry / not inlined) applies to it as well
    cv = I.resolve(st, clo)
    if isinstance(cv, Ref):
        try:
            cv = I.read_cell_path(st, cv.cell, cv.proj)
        except Exception:
            pass
    if isinstance(cv, FnItem) and (any(r.search(cv.path) for r in I.effects) or any(r.search(cv.path) for r in I.no_inline)):
        return I.extern_value(st, cv.path, list(cargs), t.get('dest_ty'), line=t.get('line'), fn=fr.body.path)

    def cont(s3, caller, rv):
        I.write_place(s3, caller, t['dest'], rv)
        I.goto(s3, caller, t['target'])
    if I.call_closure(st, clo, cargs, cont):
        I.work.append(st)
        return CONSUMED
    return NotImplemented


def m_matches_eq(I, st, fr, t, args, name):
    """PartialEq::eq / ne between two values: structural when both are known aggregates/constants"""
    if name in I.f.bodies:
        return NotImplemented          # a crate impl (derived PartialEq of a crate type): interpreted
    a0 = _opt_variant(I, st, args[0])
    if name.endswith('::ne') and isinstance(a0, Agg) and a0.adt in I.f.adts:
        # the provided `ne` of a crate type: !eq, with the crate's (derived) eq interpreted
        eqp = f"<{a0.adt} as std::cmp::PartialEq>::eq"
        if eqp in I.f.bodies:
            def cont(s3, caller, rv):
                rv = I.resolve(s3, rv)
                if isinstance(rv, Const):
                    I.write_place(s3, caller, t['dest'], Const(not rv.v))
                    I.goto(s3, caller, t['target'])
                    return None
                raise Undecided(f"{eqp} returned {rv!r}")
            I.push_frame(st, eqp, [args[0], args[1]], cont)
            I.work.append(st)
            return CONSUMED
    a = _opt_variant(I, st, args[0])
    b = _opt_variant(I, st, args[1])
    a = _opt_variant(I, st, a)
    b = _opt_variant(I, st, b)
    neg = name.endswith('::ne')
    if isinstance(a, Agg) and isinstance(b, Agg) and not a.fields and not b.fields:
        return Const((a.variant == b.variant) != neg)
    # two known variants of the same enum (Option<u32> fields of a derived PartialEq): different variants are unequal, equal
    # single-payload variants compare their payloads
    for _ in range(3):
        if isinstance(a, Agg) and isinstance(b, Agg) and a.adt == b.adt and a.variant is not None and b.variant is not None:
            if a.variant != b.variant:
                return Const(neg)
            if len(a.fields) == 1 and len(b.fields) == 1:
                a, b = _opt_variant(I, st, a.fields[0]), _opt_variant(I, st, b.fields[0])
                continue
        break
    if isinstance(a, Agg) and isinstance(b, Agg) and not a.fields and not b.fields:
        return Const((a.variant == b.variant) != neg)
    if isinstance(a, Const) and isinstance(b, Const):
        return Const((a.v == b.v) != neg)
    return ('fork-order', a, b, 'Ne' if neg else 'Eq')


def m_partial_ord(I, st, fr, t, args, name):
    a = _opt_variant(I, st, args[0])
    b = _opt_variant(I, st, args[1])
    op = {'lt': 'Lt', 'le': 'Le', 'gt': 'Gt', 'ge': 'Ge'}[name.split('::')[-1]]
    # log::Level / LevelFilter constants have documented discriminants Off=0 < Error=1 < ... < Trace=5
    la, lb = _level_num(a), _level_num(b)
    if la is not None and lb is not None:
        return Const({'Lt': la < lb, 'Le': la <= lb, 'Gt': la > lb, 'Ge': la >= lb}[op])
    return ('fork-order', a, b, op)


LEVELS = {'Off': 0, 'Error': 1, 'Warn': 2, 'Info': 3, 'Debug': 4, 'Trace': 5}


def _level_num(v):
    if isinstance(v, Agg) and v.adt in ('log::Level', 'log::LevelFilter') and v.variant in LEVELS:
        return LEVELS[v.variant]
    return None


def m_cmp_max(I, st, fr, t, args, name):
    a, b = args[0], args[1]
    return Sym(f"max({I.describe(st, a)},{I.describe(st, b)})", t['dest_ty'])


DEFAULT_MODELS = {
    r'as std::ops::Deref>::deref$|as std::ops::DerefMut>::deref_mut$': m_deref,
    r'as std::convert::AsRef<.*>>::as_ref$|as std::borrow::Borrow<.*>>::borrow$|as std::convert::AsMut<.*>>::as_mut$|^std::convert::AsRef::as_ref$|^std::borrow::Borrow::borrow$': m_passthrough,
    r'^std::option::Option::<T>::(as_ref|as_mut|as_deref|as_deref_mut)$|^std::result::Result::<T, E>::(as_ref|as_mut|as_deref|as_deref_mut)$': m_opt_as_ref,
    r'^std::option::Option::<T>::(copied|cloned)$|^std::option::Option::<&(mut )?T>::(copied|cloned)$|^std::result::Result::<&(mut )?T, E>::(copied|cloned)$': m_opt_copied,
    r'as std::clone::Clone>::clone$': m_clone,
    r'^std::path::Path::to_path_buf$': m_clone,        # an owned copy of the same path value
    r'^std::path::Path::with_extension$': m_with_extension,
    r'as std::convert::(From|Into)<.*>>::(from|into)$': m_passthrough,
    r'^std::option::Option::<T>::is_some$|^std::result::Result::<T, E>::is_ok$': None,  # filled below
    r'as std::ops::Try>::branch$': m_try_branch,
    r'as std::ops::FromResidual<.*>>::from_residual$': m_from_residual,
    r'^std::option::Option::<T>::take$': m_option_take,
    r'^std::result::Result::<T, E>::(ok|err)$': m_result_ok,
    r'^std::option::Option::<T>::(map_or|map_or_else|is_some_and|is_none_or|map|and_then|unwrap_or_else|or_else)$': m_map_or,
    r'^std::result::Result::<T, E>::(map_or|map_or_else|is_ok_and|map|and_then|unwrap_or_else|or_else|map_err|inspect_err|inspect)$': m_map_or,
    r'^std::option::Option::<T>::(unwrap|expect)$|^std::result::Result::<T, E>::(unwrap|expect)$': m_unwrap_like,
    r'^std::option::Option::<T>::unwrap_or$|^std::result::Result::<T, E>::unwrap_or$': m_unwrap_or,
    r'as std::ops::Fn(Once|Mut)?<.*>>::call(_once|_mut)?$': m_call_fn,
    r'^std::ops::Fn(Once|Mut)?::call(_once|_mut)?$': m_call_fn,        # unresolved form inside a generic function (`f: impl FnOnce(..)`)
    r'as std::cmp::PartialEq(<.*>)?>::(eq|ne)$|^std::cmp::PartialEq::(eq|ne)$|<impl std::cmp::PartialEq(<.*>)? for .*>::(eq|ne)$': m_matches_eq,
    r'as std::cmp::PartialOrd(<.*>)?>::(lt|le|gt|ge)$|^std::cmp::PartialOrd::(lt|le|gt|ge)$': m_partial_ord,
}
import fdi_iter as _it      # noqa: E402  (iterator adaptors and consumers; registers its models below)
_it.register(DEFAULT_MODELS)
DEFAULT_MODELS[r'^std::option::Option::<T>::is_some$'] = m_is_variant('Some')
DEFAULT_MODELS[r'^std::option::Option::<T>::is_none$'] = m_is_variant('None')
DEFAULT_MODELS[r'^std::result::Result::<T, E>::is_ok$'] = m_is_variant('Ok')
DEFAULT_MODELS[r'^std::result::Result::<T, E>::is_err$'] = m_is_variant('Err')
DEFAULT_MODELS[r'^std::ops::ControlFlow::<B, C>::is_break$'] = m_is_variant('Break')
DEFAULT_MODELS[r'^std::ops::ControlFlow::<B, C>::is_continue$'] = m_is_variant('Continue')
del DEFAULT_MODELS[r'^std::option::Option::<T>::is_some$|^std::result::Result::<T, E>::is_ok$']
