"""Rename resilience.  The rules name crate-private functions, fields and parameters (anchors) as they are called on the
reference tree.  A behaviour-preserving edit may rename or move them; the facts are therefore normalised against a stored
baseline (baseline/<config>.json, written by tools/gen_baseline.py from the reference tree) before any rule runs:

* a baseline function that no longer exists is matched with a function that did not exist in the baseline when both have
  the same signature and sufficiently similar sets of external callees (unique best match); every occurrence of the new
  path is rewritten to the baseline path;
* a baseline field that no longer exists is matched with a new field of the same ADT, same position and same type;
* parameter names of functions present in both are rewritten positionally to the baseline names.

The aliases applied are reported in the evidence.  Anything that cannot be matched uniquely is left alone: the rule that
needs the anchor then fails closed with a CHECK-ERROR (missing anchor), never with a violation."""
import json, os, re

BASE_DIR = os.path.join(os.path.dirname(os.path.dirname(os.path.abspath(__file__))), 'baseline')


def norm_sig(sig):
    if not sig:
        return ''
    s = re.sub(r"for<[^>]*> ", '', sig)
    s = re.sub(r"'\w+ ", '', s)
    s = re.sub(r"'\w+", "'_", s)
    return s


def summarize(j):
    """the baseline record of one facts file"""
    fns = {}
    for b in j['bodies']:
        if b.get('promoted') is not None or b['kind'] not in ('Fn', 'AssocFn'):
            continue
        ext, loc = set(), set()
        for x in j['bodies']:
            if x.get('promoted') is not None:
                continue
            if x['path'] == b['path'] or x['path'].startswith(b['path'] + '::{closure'):
                for blk in x['blocks']:
                    t = blk['term']
                    if t['k'] == 'call' and t['callee'].get('k') == 'def':
                        (loc if t['callee'].get('local') else ext).add(t['callee']['path'])
        fns[b['path']] = {'sig': norm_sig(b.get('sig')), 'argc': b['arg_count'], 'params': [l.get('name') for l in b['locals'][1:b['arg_count'] + 1]],
                          'ptys': [l.get('ty') for l in b['locals'][1:b['arg_count'] + 1]],
                          'ext': sorted(ext), 'loc': sorted(loc), 'impl_self': b.get('impl_self'), 'impl_trait': b.get('impl_trait')}
    adts = {}
    for a in j['adts']:
        adts[a['path']] = [{'name': v['name'], 'fields': [[fd['name'], fd['ty']] for fd in v['fields']]} for v in a['variants']]
    return {'fns': fns, 'adts': adts}


def _summarize_fast(j):
    # closures grouped by owner once (summarize() above is quadratic)
    by_root = {}
    for x in j['bodies']:
        if x.get('promoted') is not None:
            continue
        root = re.sub(r'(::\{closure#\d+\})+$', '', x['path'])
        by_root.setdefault(root, []).append(x)
    fns = {}
    for b in j['bodies']:
        if b.get('promoted') is not None or b['kind'] not in ('Fn', 'AssocFn'):
            continue
        ext, loc = set(), set()
        for x in by_root.get(b['path'], []):
            for blk in x['blocks']:
                t = blk['term']
                if t['k'] == 'call' and t['callee'].get('k') == 'def':
                    (loc if t['callee'].get('local') else ext).add(t['callee']['path'])
        fns[b['path']] = {'sig': norm_sig(b.get('sig')), 'argc': b['arg_count'], 'params': [l.get('name') for l in b['locals'][1:b['arg_count'] + 1]],
                          'ptys': [l.get('ty') for l in b['locals'][1:b['arg_count'] + 1]],
                          'ext': sorted(ext), 'loc': sorted(loc), 'impl_self': b.get('impl_self'), 'impl_trait': b.get('impl_trait')}
    adts = {}
    for a in j['adts']:
        adts[a['path']] = [{'name': v['name'], 'fields': [[fd['name'], fd['ty']] for fd in v['fields']]} for v in a['variants']]
    return {'fns': fns, 'adts': adts}


summarize = _summarize_fast


def _jaccard(a, b):
    a, b = set(a), set(b)
    if not a and not b:
        return 1.0
    return len(a & b) / len(a | b)


def match_functions(base, cur):
    """{new path: baseline path}; two rounds, so that callees renamed together with their caller count as the same callee"""
    out = {}
    for _ in range(3):
        n0 = len(out)
        out = _match_round(base, cur, out)
        if len(out) == n0:
            break
    return out


def _match_round(base, cur, known):
    missing = [p for p in base['fns'] if p not in cur['fns'] and p not in known.values()]
    new = [p for p in cur['fns'] if p not in base['fns'] and p not in known]
    last = lambda x: x.split('::')[-1]
    cands = []
    for m in missing:
        bm = base['fns'][m]
        for c in new:
            bc = cur['fns'][c]
            if (bm['impl_trait'] or None) != (bc['impl_trait'] or None):
                continue
            same_sig = bm['sig'] == bc['sig'] and bm['argc'] == bc['argc']
            if not same_sig:
                # a changed private signature (free function -> method, tuple -> struct result, reordered parameters): accepted only
                # when the function body evidently is the same one - (nearly) identical sets of external callees, and enough of them
                if bm['argc'] != bc['argc'] or len(bm['ext']) < 4 or _jaccard(bm['ext'], bc['ext']) < 0.85:
                    continue
            cloc = [known.get(x, x) for x in bc['loc']]
            # callees that disappeared altogether (inlined helpers) do not count against the match
            bloc = [x for x in bm['loc'] if x in cur['fns'] or x in known.values()]
            sim = 0.7 * _jaccard(bm['ext'], bc['ext']) + 0.3 * _jaccard(map(last, bloc), map(last, [x for x in cloc if x in base['fns']]))
            if last(m) == last(c) or m.rsplit('::', 1)[0] == c.rsplit('::', 1)[0]:
                sim += 0.15      # a function that only moved keeps its name; one that was only renamed keeps its module
            if not same_sig:
                sim -= 0.1
            cands.append((sim, m, c))
    cands.sort(reverse=True)
    out = dict(known)
    used_m, used_c = set(), set()
    for (sim, m, c) in cands:
        if m in used_m or c in used_c:
            continue
        only = sum(1 for (_, m2, c2) in cands if m2 == m) == 1 and sum(1 for (_, m2, c2) in cands if c2 == c) == 1
        if sim < 0.6 and not (only and sim >= 0.4):
            continue
        rivals = [s_ for (s_, m2, c2) in cands if ((m2 == m) != (c2 == c)) and m2 not in used_m and c2 not in used_c and s_ > sim - 0.1]
        if rivals:
            continue
        out[c] = m
        used_m.add(m)
        used_c.add(c)
    return out


def match_fields(base, cur):
    """{(adt, variant index, field index, new name, ty): baseline name}"""
    out = {}
    for adt, bvs in base['adts'].items():
        cvs = cur['adts'].get(adt)
        if not cvs or len(cvs) != len(bvs):
            continue
        for vi, (bv, cv) in enumerate(zip(bvs, cvs)):
            if bv['name'] != cv['name'] or len(bv['fields']) != len(cv['fields']):
                continue
            bnames = {n for n, _ in bv['fields']}
            cnames = {n for n, _ in cv['fields']}
            for fi, ((bn, bt), (cn, ct)) in enumerate(zip(bv['fields'], cv['fields'])):
                if bn != cn and bt == ct and bn not in cnames and cn not in bnames:
                    out[(adt, vi, fi, cn, ct)] = bn
    return out


def match_adts(base, cur):
    """{new ADT path: baseline ADT path}: a type that moved to another module or was renamed keeps its variants and fields"""
    missing = [a for a in base['adts'] if a not in cur['adts']]
    new = [a for a in cur['adts'] if a not in base['adts']]
    out = {}
    shape = lambda vs: [(v['name'], [(n, re.sub(r'[\w:]+::', '', t)) for n, t in v['fields']]) for v in vs]
    for m in missing:
        c = [n for n in new if n not in out and shape(cur['adts'][n]) == shape(base['adts'][m])]
        same_name = [n for n in c if n.split('::')[-1] == m.split('::')[-1]]
        pick = same_name if len(same_name) == 1 else c
        if len(pick) == 1:
            out[pick[0]] = m
    return out


def normalise_text(text, cfg):
    """returns (json object, list of alias notes)"""
    j = json.loads(text)
    path = os.path.join(BASE_DIR, f"{cfg}.json")
    if not os.path.exists(path):
        return j, []
    with open(path) as fh:
        base = json.load(fh)
    cur = summarize(j)
    notes = []
    aa = match_adts(base, cur)
    if aa:
        for new, old in sorted(aa.items(), key=lambda kv: -len(kv[0])):
            text = re.sub(r'(?<![\w:])' + re.escape(new) + r'(?![\w])', old.replace('\\', '\\\\'), text)
            notes.append(f"type {new} is the baseline's {old} (same variants and fields)")
        j = json.loads(text)
        cur = summarize(j)
    fa = match_functions(base, cur)
    if fa:
        for new, old in sorted(fa.items(), key=lambda kv: -len(kv[0])):
            text = re.sub(r'(?<![\w:])' + re.escape(new) + r'(?![\w])', old.replace('\\', '\\\\'), text)
            notes.append(f"function {new} is the baseline's {old} (same signature and similar callees, or the same callees)")
        j = json.loads(text)
    fld = match_fields(base, cur)
    if fld:
        ren = {}
        for (adt, vi, fi, cn, ct), bn in fld.items():
            ren[(fi, cn, ct)] = bn
            notes.append(f"field {adt}.{cn} is the baseline's .{bn} (same position and type)")
            for a in j['adts']:
                if a['path'] == adt:
                    a['variants'][vi]['fields'][fi]['name'] = bn

        def walk(o):
            if isinstance(o, dict):
                if o.get('k') == 'field' and (o.get('i'), o.get('name'), o.get('ty')) in ren:
                    o['name'] = ren[(o['i'], o['name'], o['ty'])]
                if o.get('k') == 'agg' and isinstance(o.get('fields'), list):
                    for (adt, vi, fi, cn, ct), bn in fld.items():
                        if o.get('adt') == adt and fi < len(o['fields']) and o['fields'][fi] == cn:
                            o['fields'][fi] = bn
                for v in o.values():
                    walk(v)
            elif isinstance(o, list):
                for v in o:
                    walk(v)
        walk(j['bodies'])
    # parameter names, positionally
    nparam = 0
    for b in j['bodies']:
        if b.get('promoted') is not None:
            continue
        bf = base['fns'].get(b['path'])
        if not bf or bf['argc'] != b['arg_count']:
            continue
        ptys = bf.get('ptys') or [None] * len(bf['params'])
        for i, nm in enumerate(bf['params']):
            l = b['locals'][i + 1]
            # only a rename: same position AND same type, and the current name is not the baseline name of another parameter
            if ptys[i] is None or l.get('ty') != ptys[i] or l.get('name') in bf['params']:
                continue
            if nm and l.get('name') and l['name'] != nm:
                old = l['name']
                l['name'] = nm
                nparam += 1
                for dp in b.get('debug_places', []) or []:
                    if isinstance(dp, dict) and dp.get('name') == old and dp.get('local') == i + 1:
                        dp['name'] = nm
    if nparam:
        notes.append(f"{nparam} renamed parameter(s) carry their baseline names")
    return j, notes
