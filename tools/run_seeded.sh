#!/bin/bash
# tools/run_seeded.sh <patch.diff>: apply a seeded change to /repo, run all 20 quick checks in parallel, print the checks that
# did not stay silent (VIOLATION = rc 1, CHECK-ERROR = rc 2), undo the change. Authoring helper, never part of a registered check.
set -u
P=$1
trap 'git -C $REPO reset -q; git -C $REPO checkout -- . 2>/dev/null; git -C $REPO clean -fdq -- src 2>/dev/null' EXIT PIPE INT TERM
REPO=${FL_REPO:-/repo}; export FL_REPO=$REPO
cd $REPO || exit 2
if ! git diff --quiet; then echo "repo dirty"; exit 2; fi
if ! git apply "$P"; then echo "patch does not apply"; exit 3; fi
cd /verif
bin/check C01 >/dev/null 2>&1
printf "%s\n" C01 C02 C03 C04 C05 C06 C07 C08 C09 C10 C11 C12 C13 C14 C15 C16 C17 C18 C19 C20 | xargs -P 10 -I{} bash -c 'out=$(bin/check {} 2>&1); rc=$?; if [ $rc -ne 0 ]; then echo "{}($rc): $(echo "$out" | grep "^    rule\|^CHECK-ERROR" | cut -c1-260 | head -4 | tr "\n" "|")"; fi' | sort
echo "-- done"
