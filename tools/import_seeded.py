#!/usr/bin/env python3
"""tools/import_seeded.py <name> <detected_by ids...>: copies a confirmed seeded change into /verif/seeded/<name>/"""
import json, os, shutil, sys, glob
n = sys.argv[1]; det = sys.argv[2:]
src = f'/tmp/seeded/{n}'; dst = f'/verif/seeded/{n}'
os.makedirs(dst, exist_ok=True)
for f in ['patch.diff', 'run.txt'] + [os.path.basename(x) for x in glob.glob(src + '/*.rs')]:
    if os.path.exists(f'{src}/{f}'):
        shutil.copy(f'{src}/{f}', f'{dst}/{f}')
m = json.load(open(f'{src}/meta.json'))
log = open(f'{src}/verify.log').read() if os.path.exists(f'{src}/verify.log') else ''
m['property'] = m.get('property')
m['breaks'] = m['property']
m['confirmed_by_me'] = {
    'what_i_ran': 'tools/verify_seeded.sh in the sub-agent\'s scratch worktree (base = /repo HEAD at the time (pinned snapshot + fix commits)): demo test with the change (must fail), '
                  '`cargo test --offline --no-fail-fast` with the change and without the demo (must pass), demo without the change (must pass)',
    'demo_with_change_exit': next((l.split('=')[1] for l in log.splitlines() if l.startswith('demo_with_change_exit')), None),
    'suite_with_change': next((l for l in log.splitlines() if l.startswith('suite_with_change_exit')), None),
    'demo_without_change_exit': next((l.split('=')[1] for l in log.splitlines() if l.startswith('demo_without_change_exit')), None),
    'verdict': log.strip().splitlines()[-1] if log.strip() else 'not run',
}
if len(sys.argv) > 2 and sys.argv[2].startswith('note='):
    m['confirmed_by_me']['note'] = sys.argv[2][5:]
    det = sys.argv[3:]
m['detected_by'] = det
json.dump(m, open(f'{dst}/meta.json', 'w'), indent=1)
print(dst, m['confirmed_by_me']['verdict'], det)
