#!/bin/bash
# tools/selftest_parallel.sh: runs bin/selftest over the whole corpus in parallel jobs, each on its own scratch clone of /repo (FL_REPO) with its own
# cargo target directory (FL_CACHE_TAG) and output root (FL_OUT); /repo and /verif/evidence are not touched.  Authoring helper, never a registered check.
W=/tmp/flsel; rm -rf $W; mkdir -p $W
JOBS=("c0" "c1" "c2 pa re wi sp mu fl" "C0" "C1 C2" "RFa RFb RFc RFd RFe RFf RFg" "RFh RFi RFj RFk RFl RFm RFn RFo" "RFp RFq RFr RFs RFt RFu RFv RFw RFx RFy RFz" "RG")
i=0
for J in "${JOBS[@]}"; do
  i=$((i+1))
  ( git clone -q /repo $W/repo$i; export FL_REPO=$W/repo$i FL_OUT=$W/out$i FL_CACHE_TAG=-st$i; mkdir -p $FL_OUT
    for p in $J; do /verif/bin/selftest $p; done > $W/log$i.txt 2>&1
    rm -rf $W/repo$i /verif/.cache/target-flexi_logger-*-st$i ) &
done
wait
cat $W/log*.txt | grep -v "^WARNING conda" | grep "^MISSED\|^LOUD\|^INAPPLICABLE\|^LIMIT\|^selftest:" 
echo "caught=$(cat $W/log*.txt | grep -c '^CAUGHT') missed=$(cat $W/log*.txt | grep -c '^MISSED') silent=$(cat $W/log*.txt | grep -c '^SILENT') loud=$(cat $W/log*.txt | grep -c '^LOUD') limit=$(cat $W/log*.txt | grep -c '^LIMIT') inapplicable=$(cat $W/log*.txt | grep -c '^INAPPLICABLE')"
