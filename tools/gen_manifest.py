#!/usr/bin/env python3
"""Generates MANIFEST.json from the rule modules present in rules/ (one check per property)."""
import json, os, sys, importlib
VERIF = os.path.dirname(os.path.dirname(os.path.abspath(__file__)))
sys.path.insert(0, os.path.join(VERIF, 'lib')); sys.path.insert(0, os.path.join(VERIF, 'rules'))
props = [json.loads(l) for l in open(os.path.join(VERIF, 'properties.jsonl'))]
checks, na = [], []
for p in props:
    pid = p['id']
    modfile = os.path.join(VERIF, 'rules', pid.lower() + '.py')
    if not os.path.exists(modfile):
        na.append({'property_id': pid, 'reason': 'static rules for this property are designed (DESIGN.md §3) but not yet implemented in this commit'})
        continue
    m = importlib.import_module(pid.lower())
    checks.append({
        'property_id': pid,
        'quick_cmd': f'bin/check {pid} --tier quick',
        'thorough_cmd': f'bin/check {pid} --tier thorough',
        'evidence_file': f'/verif/evidence/{pid}.json',
        'replay_cmd_template': f'bin/check {pid} --explain {{path}}',
        'engine': 'mir-rules',
        'level_claimed': {
            'category': 'other',
            'text': m.EXPLANATION + ' These are structural necessary conditions decided on every path of the code (all inputs/schedules); the behavioural statement as a whole is not proved.',
            'design_ref': f'DESIGN.md §3 {pid}',
        },
        'level_note': 'Trusted: rustc nightly front end and MIR construction, the fact extractor, documented semantics of std/log/chrono/flate2/crossbeam. '
                      'Assumes: ' + '; '.join(m.ASSUMPTIONS) + '. Not decided: ' + '; '.join(m.NOT_DECIDED) + '.',
        'technique': getattr(m, 'TECHNIQUE', 'static analysis of type-checked MIR (rustc_private fact extractor + CFG/dominator/lock-region/provenance rules, decision tables by finite-domain abstract interpretation)'),
    })
man = {
    'version': 1,
    'setup_cmd': 'bin/setup',
    'hooks': {
        'guard': 'flexi_logger_verif',
        'enable': 'none needed: static analysis reads /repo\'s sources through `cargo +nightly check` with a rustc wrapper; no instrumentation is compiled in',
        'baseline_off_cmd': 'bin/repo_tests',
        'source_commits': [],
        'add_only': True,
    },
    'engines': [
        {'name': 'fl-facts', 'path': 'driver/', 'serves_properties': [c['property_id'] for c in checks],
         'kind_free_text': 'rustc_private driver (RUSTC_WORKSPACE_WRAPPER) dumping MIR, resolved callees, ADTs, impls of /repo per feature configuration'},
        {'name': 'mir-rules', 'path': 'lib/ rules/', 'serves_properties': [c['property_id'] for c in checks],
         'kind_free_text': 'python rule engine over the facts: CFG/dominators, call graph, lock regions, provenance, decision tables, error discipline, may-panic inventory'},
    ],
    'checks': checks,
    'notes': 'Technique family: static analysis only. Exit 0 = all rule instances hold or only listed known findings deviate; exit 1 + VIOLATION line = unlisted deviation; exit 2 + CHECK-ERROR = the check could not decide (missing anchor / extraction failure).',
    'not_applicable': na,
}
json.dump(man, open(os.path.join(VERIF, 'MANIFEST.json'), 'w'), indent=1)
print(f"{len(checks)} checks, {len(na)} not_applicable")
