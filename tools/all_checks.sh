#!/bin/bash
# tools/all_checks.sh [tier]: run all 20 checks on the current /repo tree in parallel, print the summary line of each and every non-silent line
cd /verif; T=${1:-quick}
run() { out=$(bin/check $1 --tier $2 2>&1); rc=$?; echo "$out" | grep "^\[C" | cut -c1-200; if [ $rc -ne 0 ]; then echo "$out" | grep -v "^KNOWN\|^    witness\|^\[C" | cut -c1-300 | head -6 | sed "s/^/      [$1 rc=$rc] /"; fi; }
export -f run
printf "%s\n" C01 C02 C03 C04 C05 C06 C07 C08 C09 C10 C11 C12 C13 C14 C15 C16 C17 C18 C19 C20 | xargs -P 8 -I{} bash -c "run {} $T"
