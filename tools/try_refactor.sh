#!/bin/bash
# tools/try_refactor.sh <abs diff>...: applies a behaviour-preserving patch, runs ALL checks, prints every check that is not silent (exit != 0)
trap 'git -C /repo reset -q; git -C /repo checkout -- . 2>/dev/null; git -C /repo clean -fdq -- src 2>/dev/null' EXIT INT TERM
for P in "$@"; do
  cd /repo; if ! git diff --quiet; then echo "repo dirty"; exit 2; fi
  if ! git apply "$P" 2>/dev/null; then echo "INAPPLICABLE $P"; continue; fi
  cd /verif; loud=""
  for id in C01 C02 C03 C04 C05 C06 C07 C08 C09 C10 C11 C12 C13 C14 C15 C16 C17 C18 C19 C20; do
    out=$(bin/check $id 2>&1); rc=$?
    if [ $rc -ne 0 ]; then loud="$loud $id($rc)"; echo "$out" | grep -v "^KNOWN\|^    witness" | grep "rule\|CHECK-ERROR" | cut -c1-260 | head -4 | sed "s/^/      [$id] /"; fi
  done
  if [ -z "$loud" ]; then echo "SILENT   $P"; else echo "LOUD     $P ->$loud"; fi
  git -C /repo reset -q; git -C /repo checkout -- .; git -C /repo clean -fdq -- src
done
