#!/usr/bin/env python3
"""tools/gen_baseline.py: (re)write baseline/<config>.json from the CURRENT /repo tree = the reference the rules' anchors are named after.
Run only on a tree on which all checks are silent; never run by a registered check."""
import sys, os, json
sys.path.insert(0, '/verif/lib')
import extract, baseline
from facts import Facts
os.makedirs(baseline.BASE_DIR, exist_ok=True)
for cfg in extract.THOROUGH:
    path = extract.extract(cfg)
    with open(path) as fh:
        j = json.load(fh)
    s = baseline.summarize(j)
    with open(os.path.join(baseline.BASE_DIR, f"{cfg}.json"), 'w') as fh:
        json.dump(s, fh, indent=0, sort_keys=True)
    print(cfg, len(s['fns']), 'functions', len(s['adts']), 'adts')
