#!/usr/bin/env python3
"""tools/mutation_sweep.py <scratch repo> <out.jsonl> [max] [file-regex]: automatic first-order mutants of the anchored source files (operator flips,
boolean flips, off-by-one, deleted call statements), applied one at a time to a SCRATCH clone of the repository (FL_REPO), all 20 quick checks run
on each.  Survivors (compiling, every check silent) are candidates for missing rule clauses; they are triaged by reading (many are equivalent or
outside every property).  Authoring helper: never part of a registered check, never touches /repo."""
import json, os, random, re, subprocess, sys
repo, out = sys.argv[1], sys.argv[2]
mx = int(sys.argv[3]) if len(sys.argv) > 3 else 200
frx = re.compile(sys.argv[4]) if len(sys.argv) > 4 else None
FILES = ['src/writers/file_log_writer/state.rs', 'src/writers/file_log_writer/state/list_and_cleanup.rs', 'src/writers/file_log_writer/state/numbers.rs',
         'src/writers/file_log_writer/state/timestamps.rs', 'src/writers/file_log_writer/state_handle.rs', 'src/writers/file_log_writer/infix_filter.rs',
         'src/writers/file_log_writer/builder.rs', 'src/writers/file_log_writer.rs', 'src/parameters/file_spec.rs', 'src/flexi_logger.rs', 'src/logger_handle.rs',
         'src/log_specification.rs', 'src/primary_writer/multi_writer.rs', 'src/primary_writer/std_writer.rs', 'src/primary_writer.rs', 'src/util.rs',
         'src/write_mode.rs', 'src/deferred_now.rs', 'src/logger.rs', 'src/threads.rs', 'src/writers/syslog/writer.rs']
OPS = [(r'<=', '<'), (r'(?<![-=<>])<(?![=<])(?=\s)', '<='), (r'>=', '>'), (r'(?<![-=>])>(?![=>])(?=\s)', '>='), (r'==', '!='), (r'!=', '=='), (r'&&', '||'), (r'\|\|', '&&'),
       (r'\btrue\b', 'false'), (r'\bfalse\b', 'true'), (r'\+ 1\b', '+ 0'), (r'- 1\b', '- 0'), (r'\.min\(', '.max('), (r'\.max\(', '.min('),
       (r'if !', 'if '), (r'\.is_some\(\)', '.is_none()'), (r'\.is_none\(\)', '.is_some()'), (r'\.is_empty\(\)', '.is_empty() == false'),
       (r'\.is_ok\(\)', '.is_err()'), (r'\.is_err\(\)', '.is_ok()')]
muts = []
for fl in FILES:
    if frx and not frx.search(fl):
        continue
    p = os.path.join(repo, fl)
    if not os.path.exists(p):
        continue
    lines = open(p).read().split('\n')
    in_test = False
    for i, ln in enumerate(lines):
        st = ln.strip()
        if re.match(r'#\[cfg\(test\)\]', st) and i + 1 < len(lines) and re.match(r'\s*mod ', lines[i + 1]):
            in_test = True
        if in_test or st.startswith('//') or st.startswith('#[') or st.startswith('use ') or not st:
            continue
        code = ln.split('//')[0]
        if '"' in code and code.count('"') >= 2:
            code_nostr = re.sub(r'"[^"]*"', lambda m: ' ' * len(m.group(0)), code)
        else:
            code_nostr = code
        for rx, rep in OPS:
            for m in re.finditer(rx, code_nostr):
                new = ln[:m.start()] + rep + ln[m.end():]
                muts.append((fl, i, 'flip:' + rx, ln, new))
        # deleted statement: a line that is a whole call statement
        if re.match(r'^[\w\.\*&\(\)\[\]:<>,\s!\?]+\(.*\)\??;$', st) and not st.startswith(('let ', 'return', 'break', 'continue')) and '=' not in st.split('(')[0]:
            muts.append((fl, i, 'delete-stmt', ln, re.match(r'\s*', ln).group(0) + '// deleted'))
random.seed(int(os.environ.get('VERIF_SEED', '1')))
random.shuffle(muts)
muts = muts[:mx]
IDS = [f"C{i:02d}" for i in range(1, 21)]
env = dict(os.environ, FL_REPO=repo, FL_OUT=os.environ.get('FL_OUT', '/tmp/mut_out'))
done = set()
if os.path.exists(out):
    for l in open(out):
        j = json.loads(l); done.add((j['file'], j['line'], j['op'], j['after']))
with open(out, 'a') as fo:
    for (fl, i, op, old, new) in muts:
        if (fl, i + 1, op, new.strip()) in done:
            continue
        p = os.path.join(repo, fl)
        src = open(p).read()
        lines = src.split('\n'); lines[i] = new
        open(p, 'w').write('\n'.join(lines))
        try:
            r = subprocess.run(['/verif/bin/check', 'C01'], env=env, capture_output=True, text=True, cwd='/verif')
            if 'extraction failed' in r.stdout:
                status, by = 'nocompile', []
            else:
                ps = {id_: subprocess.Popen(['/verif/bin/check', id_], env=env, stdout=subprocess.PIPE, stderr=subprocess.STDOUT, text=True, cwd='/verif') for id_ in IDS}
                by = []
                for id_, pr in ps.items():
                    o, _ = pr.communicate()
                    if pr.returncode == 1:
                        m = re.search(r'^    rule (R[\d.]+)', o, re.M)
                        by.append(f"{id_}:{m.group(1) if m else '?'}")
                    elif pr.returncode == 2:
                        by.append(f"{id_}:exit2")
                status = 'caught' if any('exit2' not in b for b in by) else ('exit2' if by else 'SURVIVED')
        finally:
            open(p, 'w').write(src)
        fo.write(json.dumps({'file': fl, 'line': i + 1, 'op': op, 'before': old.strip(), 'after': new.strip(), 'status': status, 'by': by}) + '\n'); fo.flush()
