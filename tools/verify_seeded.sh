#!/bin/bash
# tools/verify_seeded.sh <name>: confirms a sub-agent's seeded change in its scratch worktree /tmp/wt/<name>:
#   demo fails with the change, existing suite passes with the change, demo passes without the change.
N=$1; WT=/tmp/wt/$N; S=/tmp/seeded/$N
export CARGO_NET_OFFLINE=true CARGO_TARGET_DIR=$WT/target
cd $WT || exit 2
L=$S/verify.log; : > $L
DEMO=$(ls tests/seeded_demo*.rs 2>/dev/null | head -1); DEMO=$(basename "$DEMO" .rs)
FEAT=$(grep -o -- '--features [a-z_,]*\|--all-features' $S/run.txt | head -1)
echo "demo=$DEMO feat=$FEAT" >> $L
git -C $WT diff --quiet -- src && { echo "NO CHANGE APPLIED" >> $L; exit 1; }
cargo test --offline $FEAT --test $DEMO >> $L 2>&1; d1=$?
echo "demo_with_change_exit=$d1" >> $L
mv tests/$DEMO.rs /tmp/$N.$DEMO.rs.hold
cargo test --offline --no-fail-fast > $S/verify_suite.log 2>&1; s1=$?
mv /tmp/$N.$DEMO.rs.hold tests/$DEMO.rs
echo "suite_with_change_exit=$s1 ok_lines=$(grep -c 'test result: ok' $S/verify_suite.log) failed_lines=$(grep -c 'test result: FAILED' $S/verify_suite.log)" >> $L
git -C $WT diff -- src > /tmp/$N.patch
git -C $WT checkout -- src
cargo test --offline $FEAT --test $DEMO >> $L 2>&1; d2=$?
echo "demo_without_change_exit=$d2" >> $L
git -C $WT apply /tmp/$N.patch
if [ $d1 -ne 0 ] && [ $s1 -eq 0 ] && [ $d2 -eq 0 ]; then echo "CONFIRMED" >> $L; else echo "NOT CONFIRMED" >> $L; fi
tail -1 $L
