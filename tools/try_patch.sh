#!/bin/bash
# tools/try_patch.sh <patch.diff> <id>...   apply a seeded change to /repo, run the given checks, undo it.
set -u
P=$1; shift
trap 'git -C $REPO reset -q; git -C $REPO checkout -- . 2>/dev/null; git -C $REPO clean -fdq -- src 2>/dev/null' EXIT PIPE INT TERM
REPO=${FL_REPO:-/repo}; export FL_REPO=$REPO
cd $REPO || exit 2
if ! git diff --quiet; then echo "repo dirty"; exit 2; fi
if ! git apply "$P"; then echo "patch does not apply"; git reset -q; git checkout -- . ; exit 3; fi
cd /verif
for id in "$@"; do
  bin/check "$id" 2>&1 | grep -v "^    witness" | cut -c1-400 | head -${LINES_MAX:-12}
  echo "   -> exit ${PIPESTATUS[0]}"
done
git -C $REPO reset -q; git -C $REPO checkout -- . ; git -C $REPO status --short | head -3
