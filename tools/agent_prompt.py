#!/usr/bin/env python3
"""Prints the prompt handed to a mutant-writing sub-agent: property text + worktree only."""
import json, sys
pid, wt = sys.argv[1], sys.argv[2]
extra = sys.argv[3] if len(sys.argv) > 3 else ""
prop = None
for l in open('/verif/properties.jsonl'):
    p = json.loads(l)
    if p['id'] == pid:
        prop = p
name = wt.rstrip('/').split('/')[-1]
print(f"""You are helping to evaluate a verification effort for the Rust crate flexi_logger (emabee/flexi_logger 0.30.1).
You have your own scratch git worktree of the crate at {wt} . Work ONLY inside {wt} and /tmp/seeded/{name}/ . Do not look at or touch /repo, /verif or any other worktree. There is no network; use `cargo ... --offline` (set CARGO_NET_OFFLINE=true). Use `CARGO_TARGET_DIR={wt}/target`.

Here is a semantic property of the crate that is supposed to hold (JSON record):

{json.dumps(prop, indent=1)}

YOUR TASK: write ONE realistic change (a plausible bug, like a slip a maintainer could make during a refactoring or feature change; a few lines, in the library source under src/) to the crate that BREAKS this property, while
  (a) the crate still compiles (default features AND `--all-features`), without new warnings if possible,
  (b) the crate's existing test suite still passes with the change: run `cd {wt} && CARGO_NET_OFFLINE=true cargo test --offline --no-fail-fast 2>&1 | tail -n 60` (it takes a few minutes; all tests must pass; run it BEFORE your change too if you want a reference),
  (c) the breakage needs something specific to manifest: a particular interleaving, a crash or fault at a particular point, a multi-step sequence of operations, an unusual input or configuration, or two cooperating sites that each look fine alone. NOT a change that ordinary use would expose at once (if every second log line vanished, the existing tests would notice).
{extra}
Then write a DEMONSTRATION: a new integration test file (e.g. {wt}/tests/seeded_demo.rs) or a small example program that FAILS with your change applied and PASSES on the unchanged code. Verify both directions yourself (use `git stash` / `git stash pop` or `git diff > patch; git checkout -- src` to switch). Tests in this crate install a global logger, so put one #[test] per test file, and write log files only under a fresh temp directory or under {wt}/log_files/.

Deliverables, all in /tmp/seeded/{name}/ (create it):
  - patch.diff : output of `git -C {wt} diff -- src` (ONLY the change to src/, not the demo), applicable with `git apply` on the unchanged tree
  - the demonstration file(s) (e.g. seeded_demo.rs) plus a short run.txt saying exactly how to run it (command lines) and what it prints/fails with when the change is applied vs. not
  - meta.json : {{"property": "{pid}", "summary": "<what the change does>", "needs_to_manifest": "<what specific input/schedule/sequence is required>", "files_changed": [...], "existing_tests_pass_with_change": true/false, "demo_fails_with_change": true/false, "demo_passes_without_change": true/false}}

Keep the change small and keep it a SEMANTIC change of the code anchored in the property (do not just delete a test, do not touch tests/, Cargo.toml, or cfg(test) code). Prefer subtle changes: an off-by-one, a swapped operand or order of two steps, a dropped condition, a wrong variant in one match arm, a lock released too early, an effect moved across a fallible step, a changed constant, one of several sibling code paths forgotten. When you are done, leave the worktree with your change applied to src/ and the demo file present, and reply with a 5-line summary.""")
