#!/bin/bash
# tools/mut.sh <file under /repo> <python-regex> <replacement> <id>...   one-off hand mutation: apply, build-check, run checks, undo
F=$1; PAT=$2; REP=$3; shift 3
trap 'git -C /repo reset -q; git -C /repo checkout -- . 2>/dev/null; git -C /repo clean -fdq -- src 2>/dev/null' EXIT PIPE INT TERM
cd /repo; if ! git diff --quiet; then echo "repo dirty"; exit 2; fi
python3 - "$F" "$PAT" "$REP" <<'PY'
import re,sys
f,pat,rep=sys.argv[1:4]
s=open(f).read()
n=len(re.findall(pat,s,flags=re.S))
if n<1: print("PATTERN NOT FOUND"); sys.exit(1)
s=re.sub(pat,rep,s,count=1,flags=re.S)
open(f,'w').write(s)
PY
[ $? -ne 0 ] && exit 1
git diff | grep '^[-+]' | grep -v '^+++\|^---' | head -8
if [ -n "${SAVE:-}" ]; then git diff > /verif/mutants/$SAVE.diff; echo "$@" > /verif/mutants/$SAVE.expect; fi
cd /verif
for id in "$@"; do bin/check "$id" 2>&1 | grep -v "^    witness" | cut -c1-330 | head -${LINES_MAX:-6}; echo "   -> exit ${PIPESTATUS[0]}"; done
git -C /repo checkout -- .
