#!/usr/bin/env python3
"""Prompt for a refactoring sub-agent: behaviour-preserving edits near the anchors of some properties."""
import json, sys
ids = sys.argv[1].split(','); wt = sys.argv[2]; style = sys.argv[3] if len(sys.argv) > 3 else 'local'
name = wt.rstrip('/').split('/')[-1]
props = [json.loads(l) for l in open('/verif/properties.jsonl')]
sel = [p for p in props if p['id'] in ids]
print(f"""You are helping to evaluate a verification effort for the Rust crate flexi_logger (emabee/flexi_logger 0.30.1, with a few bug fixes on top).
You have your own scratch git worktree of the crate at {wt} . Work ONLY inside {wt} and /tmp/refactors/{name}/ . Do not look at or touch /repo, /verif or any other worktree. No network; use `cargo ... --offline` with CARGO_NET_OFFLINE=true and CARGO_TARGET_DIR={wt}/target.

Here are some semantic properties of the crate that currently hold (JSON records); their `anchors` name the code that makes them hold:

{json.dumps(sel, indent=1)}

YOUR TASK: produce FOUR independent, realistic, BEHAVIOUR-PRESERVING refactorings of the library source (src/) in or near the anchored code of these properties - the kind of clean-up a maintainer does without intending any semantic change, and after which every one of the properties above STILL HOLDS. Examples of what is wanted: rename private functions/locals/fields; extract a helper function out of a long function or inline a small helper; `if let` <-> `match`; `for` loop <-> iterator chain or index loop; reorder statements that are independent; rewrite a boolean expression into an equivalent form (De Morgan, early return vs nested if); replace `x.map_or(..)` by `match`; move a private item to another module; change message texts / comments; split a function into two. {"In THIS batch prefer STRUCTURAL refactorings, the kind that happens when a code base evolves: change the signature of a private function (add, remove or reorder a parameter; pass `&self`/a config struct instead of single fields; return a tuple or a small private struct instead of mutating an out-parameter); turn a free function into a method or vice versa; introduce a private newtype / struct / enum to replace a tuple or a bool flag; merge two small private functions or split one; move a private impl block or function to a new private sub-module; replace a hand-written loop/match by a std combinator or vice versa; hoist a repeated expression into a local or a private const. Keep public API, file formats, messages and behaviour identical." if style == 'structural' else ""} Make them non-trivial (each touches 5-40 lines) and DIFFERENT in kind from each other. They must NOT change observable behaviour in any case (same files written, same order of file-system operations, same locking, same error handling, same results for all inputs).

For EACH refactoring i = 1..4:
  1. start from the clean tree (`git -C {wt} checkout -- . `), apply your edit,
  2. make sure it compiles for default features AND `--all-features` (`cargo build --offline`, `cargo build --offline --all-features`),
  3. run the test suite: `cd {wt} && CARGO_NET_OFFLINE=true cargo test --offline --no-fail-fast 2>&1 | grep -E "test result|FAILED|failed" | sort | uniq -c | tail` (all must pass; a few tests are timing based - re-run a single failing test once before concluding),
  4. save `git -C {wt} diff -- src > /tmp/refactors/{name}/refactor_i.diff` and write /tmp/refactors/{name}/refactor_i.txt: which functions you touched, what kind of refactoring it is, and a 3-5 line argument why behaviour is unchanged.
Finish with the clean tree restored. Reply with a one-line summary per refactoring.""")
