#!/usr/bin/env python3
"""tools/round_prompt.py <pid> <letter>: prompt for a later seeded round - property text + summaries of the earlier seeded changes
for that property (so that the new change differs in kind). Nothing from the rules is disclosed."""
import json, sys, glob, subprocess, os
pid, letter = sys.argv[1], sys.argv[2]
name = pid + letter
wt = f'/tmp/wt/{name}'
prev = []
for d in sorted(glob.glob(f'/verif/seeded/{pid}?')):
    m = json.load(open(d + '/meta.json'))
    prev.append(f"  - {m['summary'][:700]}")
extra = ("(d) Earlier rounds already produced the following changes for this property; yours must be DIFFERENT IN KIND: a different function or "
         "code path (another entry point, a feature-gated variant such as `async`/`compress`/`syslog_writer`/`specfile`/`json`/`buffer_writer`, "
         "builder/start-up vs. run time, an error path, a rarely used configuration), a different mechanism, and NOT a plain deletion of a "
         "statement. Two cooperating edits (each harmless alone) or a changed data flow (a value computed from the wrong source, a stale copy, "
         "an off-by-one in a boundary) are especially welcome. Earlier changes:\n" + "\n".join(prev) + "\n")
out = subprocess.run([sys.executable, '/verif/tools/agent_prompt.py', pid, wt, extra], capture_output=True, text=True).stdout
print(out)
