#!/usr/bin/env python3
"""tools/footprint.py: which crate functions does no rule interpret (decision tables) or look up as an anchor?
Reads the evidence files of the last run of all 20 checks and the facts of the 'all' configuration.
Authoring helper: the list directs where new rule clauses are needed; never part of a registered check."""
import json, sys, os, glob
sys.path.insert(0, '/verif/lib')
import extract
from facts import Facts
f = Facts(extract.extract('all', extract.REPO))
interp, looked = {}, {}
for p in sorted(glob.glob('/verif/evidence/C*.json')):
    c = json.load(open(p))['coverage']; pid = os.path.basename(p)[:3]
    for n in c.get('functions_interpreted_by_decision_tables', []): interp.setdefault(n, []).append(pid)
    for n in c.get('anchor_functions_looked_up', []): looked.setdefault(n, []).append(pid)
roots = {}
for b in f.fn_bodies():
    r = b.path.split('::{closure')[0]
    d = roots.setdefault(r, {'file': b.file, 'line': b.line, 'blocks': 0, 'calls': 0})
    d['blocks'] += len(b.blocks); d['calls'] += sum(1 for _ in b.calls())
mode = sys.argv[1] if len(sys.argv) > 1 else 'missing'
byfile = {}
for r, d in sorted(roots.items(), key=lambda x: (x[1]['file'], x[1]['line'])):
    cov = sorted(set(interp.get(r, []) + looked.get(r, [])))
    if (mode == 'missing') == (not cov):
        byfile.setdefault(d['file'], []).append(f"   L{d['line']:<4} {r}  blocks={d['blocks']} calls={d['calls']}" + (f"  {','.join(cov)}" if cov else ''))
for fl, ls in byfile.items():
    print(fl); print('\n'.join(ls))
print(f"functions={len(roots)} interpreted={sum(1 for r in roots if r in interp)} looked_up_or_interpreted={sum(1 for r in roots if r in interp or r in looked)}")
