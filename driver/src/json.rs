//! Minimal JSON value + writer (the driver has zero cargo dependencies).
pub enum J {
    Null,
    Bool(bool),
    Int(i64),
    Str(String),
    Arr(Vec<J>),
    Obj(Vec<(String, J)>),
}

impl J {
    pub fn s(s: String) -> J {
        J::Str(s)
    }
    pub fn obj(v: Vec<(&'static str, J)>) -> J {
        J::Obj(v.into_iter().map(|(k, v)| (k.to_string(), v)).collect())
    }
    pub fn write(&self, out: &mut String) {
        match self {
            J::Null => out.push_str("null"),
            J::Bool(b) => out.push_str(if *b { "true" } else { "false" }),
            J::Int(i) => out.push_str(&i.to_string()),
            J::Str(s) => write_str(s, out),
            J::Arr(v) => {
                out.push('[');
                for (i, x) in v.iter().enumerate() {
                    if i > 0 {
                        out.push(',');
                    }
                    x.write(out);
                }
                out.push(']');
            }
            J::Obj(v) => {
                out.push('{');
                for (i, (k, x)) in v.iter().enumerate() {
                    if i > 0 {
                        out.push(',');
                    }
                    write_str(k, out);
                    out.push(':');
                    x.write(out);
                }
                out.push('}');
            }
        }
    }
}

fn write_str(s: &str, out: &mut String) {
    out.push('"');
    for c in s.chars() {
        match c {
            '"' => out.push_str("\\\""),
            '\\' => out.push_str("\\\\"),
            '\n' => out.push_str("\\n"),
            '\r' => out.push_str("\\r"),
            '\t' => out.push_str("\\t"),
            c if (c as u32) < 0x20 => out.push_str(&format!("\\u{:04x}", c as u32)),
            c => out.push(c),
        }
    }
    out.push('"');
}
