//! fl-facts: rustc_private fact extractor.
//!
//! Injected with RUSTC_WORKSPACE_WRAPPER under `cargo +nightly check`.  For the crate named in
//! FL_FACTS_CRATE (default: every wrapped crate) it dumps, after analysis, one JSON document to
//! FL_FACTS_OUT: every MIR body (statements, terminators with resolved callees, locals, spans),
//! ADTs, impls, statics and crate attributes.  Nothing is executed; rustc stops after analysis
//! results are available (metadata is still emitted so `cargo check` is satisfied).
#![feature(rustc_private)]
#![allow(clippy::all)]

extern crate rustc_abi;
extern crate rustc_ast;
extern crate rustc_driver;
extern crate rustc_hir;
extern crate rustc_interface;
extern crate rustc_middle;
extern crate rustc_session;
extern crate rustc_span;

mod json;

use json::J;
use rustc_driver::{Callbacks, Compilation};
use rustc_hir::def::DefKind;
use rustc_hir::def_id::{DefId, LocalDefId, LOCAL_CRATE};
use rustc_interface::interface::Compiler;
use rustc_middle::mir::{
    self, AggregateKind, BasicBlockData, Body, BorrowKind, CastKind, Const, ConstValue, Operand,
    Place, ProjectionElem, Rvalue, StatementKind, TerminatorKind, UnwindAction,
};
use rustc_middle::ty::print::with_no_trimmed_paths;
use rustc_middle::ty::{self, Instance, Ty, TyCtxt, TypingEnv};
use rustc_span::Span;

struct Cb;

impl Callbacks for Cb {
    fn after_analysis<'tcx>(&mut self, _c: &Compiler, tcx: TyCtxt<'tcx>) -> Compilation {
        let want = std::env::var("FL_FACTS_CRATE").ok();
        let name = tcx.crate_name(LOCAL_CRATE).to_string();
        if let Some(w) = want {
            if w != name {
                return Compilation::Continue;
            }
        }
        let Ok(out) = std::env::var("FL_FACTS_OUT") else {
            return Compilation::Continue;
        };
        // skip build scripts / proc macros / test harness builds
        let doc = with_no_trimmed_paths!(extract(tcx, &name));
        let mut s = String::with_capacity(1 << 22);
        doc.write(&mut s);
        std::fs::write(&out, s).expect("fl-facts: cannot write facts");
        Compilation::Continue
    }
}

fn main() {
    let mut args: Vec<String> = std::env::args().collect();
    // RUSTC_WORKSPACE_WRAPPER: argv = [driver, rustc, args...]
    if args.len() > 1 && (args[1].ends_with("rustc") || args[1].contains("rustc")) && !args[1].starts_with('-') {
        args.remove(1);
    }
    rustc_driver::run_compiler(&args, &mut Cb);
}

// ------------------------------------------------------------------------------------------

struct Cx<'tcx> {
    tcx: TyCtxt<'tcx>,
}

fn extract<'tcx>(tcx: TyCtxt<'tcx>, crate_name: &str) -> J {
    let cx = Cx { tcx };
    let mut bodies = Vec::new();
    for &ldid in tcx.mir_keys(()).iter() {
        let kind = tcx.def_kind(ldid);
        let did = ldid.to_def_id();
        match kind {
            DefKind::Fn | DefKind::AssocFn | DefKind::Closure => {
                if !tcx.is_mir_available(did) {
                    continue;
                }
                let body = tcx.optimized_mir(did);
                bodies.push(cx.body(ldid, kind, body, None));
                for (i, p) in tcx.promoted_mir(did).iter_enumerated() {
                    bodies.push(cx.body(ldid, kind, p, Some(i.as_usize())));
                }
            }
            DefKind::Const { .. } | DefKind::AssocConst { .. } | DefKind::Static { .. } => {
                let body = tcx.mir_for_ctfe(did);
                bodies.push(cx.body(ldid, kind, body, None));
            }
            _ => {}
        }
    }

    // ADTs, impls, statics
    let mut adts = Vec::new();
    let mut impls = Vec::new();
    let mut statics = Vec::new();
    let mut consts = Vec::new();
    let mut traits = Vec::new();
    for ldid in tcx.hir_crate_items(()).definitions() {
        let did = ldid.to_def_id();
        match tcx.def_kind(did) {
            DefKind::Struct | DefKind::Enum | DefKind::Union => adts.push(cx.adt(did)),
            DefKind::Impl { .. } => impls.push(cx.impl_(ldid)),
            DefKind::Static { .. } => {
                let ty = tcx.type_of(did).instantiate_identity().skip_norm_wip();
                statics.push(J::obj(vec![
                    ("path", J::s(tcx.def_path_str(did))),
                    ("ty", J::s(ty.to_string())),
                    ("thread_local", J::Bool(tcx.is_thread_local_static(did))),
                    ("mutable", J::Bool(tcx.is_mutable_static(did))),
                    ("span", cx.span(tcx.def_span(did))),
                ]));
            }
            DefKind::Const { .. } | DefKind::AssocConst { .. } => {
                let ty = tcx.type_of(did).instantiate_identity().skip_norm_wip();
                let val = cx.eval_const_item(did);
                consts.push(J::obj(vec![
                    ("path", J::s(tcx.def_path_str(did))),
                    ("ty", J::s(ty.to_string())),
                    ("val", val),
                    ("span", cx.span(tcx.def_span(did))),
                ]));
            }
            DefKind::Trait => {
                let items: Vec<J> = tcx
                    .associated_items(did)
                    .in_definition_order()
                    .map(|it| {
                        J::obj(vec![
                            ("name", J::s(it.name().to_string())),
                            ("path", J::s(tcx.def_path_str(it.def_id))),
                            ("has_default", J::Bool(it.defaultness(tcx).has_value())),
                        ])
                    })
                    .collect();
                traits.push(J::obj(vec![("path", J::s(tcx.def_path_str(did))), ("items", J::Arr(items))]));
            }
            _ => {}
        }
    }

    // crate-level attributes: lint levels for unsafe_code
    let mut crate_attrs = Vec::new();
    for attr in tcx.hir_krate_attrs() {
        let d = format!("{:?}", attr);
        if d.contains("DocComment") {
            continue;
        }
        // keep it short: the attribute path and its identifiers
        let mut idents = Vec::new();
        for part in d.split("Ident(\"").skip(1) {
            if let Some(e) = part.find('"') {
                idents.push(part[..e].to_string());
            }
        }
        let segs: String = d.split("segments: [").nth(1).and_then(|x| x.split(']').next()).unwrap_or("").replace('"', "");
        crate_attrs.push(J::obj(vec![("path", J::s(segs)), ("idents", J::Arr(idents.into_iter().map(J::s).collect()))]));
    }
    J::obj(vec![
        ("crate", J::s(crate_name.to_string())),
        ("bodies", J::Arr(bodies)),
        ("adts", J::Arr(adts)),
        ("impls", J::Arr(impls)),
        ("traits", J::Arr(traits)),
        ("statics", J::Arr(statics)),
        ("consts", J::Arr(consts)),
        ("crate_attrs", J::Arr(crate_attrs)),
    ])
}

impl<'tcx> Cx<'tcx> {
    fn span(&self, sp: Span) -> J {
        let sm = self.tcx.sess.source_map();
        let cs = sp.source_callsite();
        let lo = sm.lookup_char_pos(cs.lo());
        let hi = sm.lookup_char_pos(cs.hi());
        let file = match &lo.file.name {
            rustc_span::FileName::Real(r) => r
                .local_path()
                .map(|p| p.to_string_lossy().to_string())
                .unwrap_or_else(|| format!("{:?}", lo.file.name)),
            other => format!("{:?}", other),
        };
        J::obj(vec![
            ("file", J::s(file)),
            ("line", J::Int(lo.line as i64)),
            ("col", J::Int(lo.col.0 as i64 + 1)),
            ("line_hi", J::Int(hi.line as i64)),
            ("exp", J::Bool(sp.from_expansion())),
        ])
    }

    fn adt(&self, did: DefId) -> J {
        let tcx = self.tcx;
        let adt = tcx.adt_def(did);
        let mut variants = Vec::new();
        for (vidx, v) in adt.variants().iter_enumerated() {
            let discr = if adt.is_enum() {
                J::s(adt.discriminant_for_variant(tcx, vidx).val.to_string())
            } else {
                J::Null
            };
            let fields: Vec<J> = v
                .fields
                .iter()
                .map(|f| {
                    J::obj(vec![
                        ("name", J::s(f.name.to_string())),
                        ("ty", J::s(tcx.type_of(f.did).instantiate_identity().skip_norm_wip().to_string())),
                    ])
                })
                .collect();
            variants.push(J::obj(vec![
                ("name", J::s(v.name.to_string())),
                ("idx", J::Int(vidx.as_usize() as i64)),
                ("discr", discr),
                ("fields", J::Arr(fields)),
            ]));
        }
        J::obj(vec![
            ("path", J::s(tcx.def_path_str(did))),
            ("kind", J::s(if adt.is_enum() { "enum" } else if adt.is_union() { "union" } else { "struct" }.to_string())),
            ("variants", J::Arr(variants)),
            ("span", self.span(tcx.def_span(did))),
        ])
    }

    fn impl_(&self, ldid: LocalDefId) -> J {
        let tcx = self.tcx;
        let did = ldid.to_def_id();
        let self_ty = tcx.type_of(did).instantiate_identity().skip_norm_wip();
        let trait_ = tcx.impl_opt_trait_ref(did).map(|tr| {
            let tr = tr.instantiate_identity().skip_norm_wip();
            (tcx.def_path_str(tr.def_id), tr.to_string())
        });
        let items: Vec<J> = tcx
            .associated_items(did)
            .in_definition_order()
            .map(|it| {
                J::obj(vec![
                    ("name", J::s(it.name().to_string())),
                    ("path", J::s(tcx.def_path_str(it.def_id))),
                    ("kind", J::s(format!("{:?}", it.kind))),
                ])
            })
            .collect();
        let self_adt = match self_ty.kind() {
            ty::Adt(a, _) => J::s(tcx.def_path_str(a.did())),
            _ => J::Null,
        };
        J::obj(vec![
            ("self_ty", J::s(self_ty.to_string())),
            ("self_adt", self_adt),
            ("trait", trait_.as_ref().map(|t| J::s(t.0.clone())).unwrap_or(J::Null)),
            ("trait_ref", trait_.map(|t| J::s(t.1)).unwrap_or(J::Null)),
            ("items", J::Arr(items)),
            ("span", self.span(tcx.def_span(did))),
        ])
    }

    fn eval_const_item(&self, did: DefId) -> J {
        let tcx = self.tcx;
        if tcx.generics_of(did).requires_monomorphization(tcx) {
            return J::Null;
        }
        match tcx.const_eval_poly(did) {
            Ok(val) => {
                let ty = tcx.type_of(did).instantiate_identity().skip_norm_wip();
                self.const_value(val, ty)
            }
            Err(_) => J::Null,
        }
    }

    fn const_value(&self, val: ConstValue, ty: Ty<'tcx>) -> J {
        let tcx = self.tcx;
        match val {
            ConstValue::Scalar(mir::interpret::Scalar::Int(i)) => {
                let size = i.size();
                let bits = i.to_bits(size);
                let v = match ty.kind() {
                    ty::Int(_) => {
                        let sh = 128 - size.bits();
                        (((bits as i128) << sh) >> sh).to_string()
                    }
                    ty::Bool => (bits != 0).to_string(),
                    ty::Char => format!("{:?}", char::from_u32(bits as u32).unwrap_or('?')),
                    _ => bits.to_string(),
                };
                J::obj(vec![("k", J::s("scalar".into())), ("v", J::s(v))])
            }
            ConstValue::ZeroSized => J::obj(vec![("k", J::s("zst".into()))]),
            ConstValue::Scalar(mir::interpret::Scalar::Ptr(ptr, _)) => {
                // e.g. b"\n": &[u8; 1] -> pointer into an allocation
                if let ty::Ref(_, inner, _) = ty.kind() {
                    if let ty::Array(elem, _) = inner.kind() {
                        if *elem == tcx.types.u8 {
                            let (prov, off) = ptr.prov_and_relative_offset();
                            if let Some(rustc_middle::mir::interpret::GlobalAlloc::Memory(a)) =
                                tcx.try_get_global_alloc(prov.alloc_id())
                            {
                                let a = a.inner();
                                let start = off.bytes() as usize;
                                let end = a.size().bytes() as usize;
                                let bytes = a.inspect_with_uninit_and_ptr_outside_interpreter(start..end);
                                return J::obj(vec![
                                    ("k", J::s("bytes".into())),
                                    ("v", J::Arr(bytes.iter().map(|b| J::Int(*b as i64)).collect())),
                                ]);
                            }
                        }
                    }
                }
                J::obj(vec![("k", J::s("ptr".into()))])
            }
            ConstValue::Slice { .. } | ConstValue::Indirect { .. } => {
                let is_str = matches!(ty.kind(), ty::Ref(_, inner, _) if inner.is_str());
                let is_bytes = matches!(ty.kind(), ty::Ref(_, inner, _) if matches!(inner.kind(), ty::Slice(e) if *e == tcx.types.u8));
                if is_str || is_bytes {
                    if let Some(bytes) = val.try_get_slice_bytes_for_diagnostics(tcx) {
                        if is_str {
                            return J::obj(vec![
                                ("k", J::s("str".into())),
                                ("v", J::s(String::from_utf8_lossy(bytes).to_string())),
                            ]);
                        }
                        return J::obj(vec![
                            ("k", J::s("bytes".into())),
                            ("v", J::Arr(bytes.iter().map(|b| J::Int(*b as i64)).collect())),
                        ]);
                    }
                }
                J::obj(vec![("k", J::s("other".into()))])
            }
        }
    }

    fn body(&self, ldid: LocalDefId, kind: DefKind, body: &Body<'tcx>, promoted: Option<usize>) -> J {
        let tcx = self.tcx;
        let did = ldid.to_def_id();
        let path = tcx.def_path_str(did);
        let mut fields: Vec<(&'static str, J)> = Vec::new();
        let full = match promoted {
            Some(i) => format!("{path}::promoted[{i}]"),
            None => path.clone(),
        };
        fields.push(("path", J::s(full)));
        fields.push(("owner", J::s(path)));
        fields.push(("promoted", promoted.map(|i| J::Int(i as i64)).unwrap_or(J::Null)));
        fields.push(("kind", J::s(format!("{:?}", kind))));
        fields.push(("span", self.span(tcx.def_span(did))));
        fields.push(("arg_count", J::Int(body.arg_count as i64)));

        // visibility / reachability
        let (vis, reachable) = match kind {
            DefKind::Fn | DefKind::AssocFn => {
                let v = tcx.visibility(did);
                let r = tcx.effective_visibilities(()).is_reachable(ldid);
                (format!("{:?}", v).contains("Public"), r)
            }
            _ => (false, false),
        };
        fields.push(("pub", J::Bool(vis)));
        fields.push(("reachable", J::Bool(reachable)));
        fields.push(("doc_hidden", J::Bool(tcx.is_doc_hidden(did))));

        // parent impl info
        let mut impl_trait = J::Null;
        let mut impl_self = J::Null;
        let mut parent = J::Null;
        if matches!(kind, DefKind::AssocFn | DefKind::AssocConst { .. }) {
            let p = tcx.parent(did);
            if matches!(tcx.def_kind(p), DefKind::Impl { .. }) {
                let self_ty = tcx.type_of(p).instantiate_identity().skip_norm_wip();
                impl_self = J::s(self_ty.to_string());
                if let Some(tr) = tcx.impl_opt_trait_ref(p) {
                    impl_trait = J::s(tcx.def_path_str(tr.instantiate_identity().skip_norm_wip().def_id));
                }
            } else if matches!(tcx.def_kind(p), DefKind::Trait) {
                impl_trait = J::s(tcx.def_path_str(p));
                impl_self = J::s("Self".to_string());
            }
        }
        if matches!(kind, DefKind::Closure) {
            parent = J::s(tcx.def_path_str(tcx.typeck_root_def_id(did)));
            let p = tcx.parent(did);
            fields.push(("closure_parent", J::s(tcx.def_path_str(p))));
            // names of captured variables, in upvar order
            let names: Vec<J> = tcx
                .closure_saved_names_of_captured_variables(did)
                .iter()
                .map(|s| J::s(s.to_string()))
                .collect();
            fields.push(("captures", J::Arr(names)));
        }
        fields.push(("impl_trait", impl_trait));
        fields.push(("impl_self", impl_self));
        fields.push(("root", parent));

        // fn signature
        if matches!(kind, DefKind::Fn | DefKind::AssocFn) {
            let sig = tcx.fn_sig(did).instantiate_identity().skip_norm_wip();
            fields.push(("sig", J::s(sig.to_string())));
        }

        // locals
        let mut names: Vec<Option<String>> = vec![None; body.local_decls.len()];
        for vdi in &body.var_debug_info {
            if let mir::VarDebugInfoContents::Place(p) = &vdi.value {
                if p.projection.is_empty() {
                    let i = p.local.as_usize();
                    if names[i].is_none() {
                        names[i] = Some(vdi.name.to_string());
                    }
                }
            }
        }
        let mut locals = Vec::new();
        for (l, decl) in body.local_decls.iter_enumerated() {
            locals.push(J::obj(vec![
                ("ty", J::s(decl.ty.to_string())),
                ("name", names[l.as_usize()].clone().map(J::s).unwrap_or(J::Null)),
                ("line", J::Int(self.line(decl.source_info.span))),
            ]));
        }
        fields.push(("locals", J::Arr(locals)));
        // debug info for captured upvars / projected places (name -> place)
        let mut dbg = Vec::new();
        for vdi in &body.var_debug_info {
            if let mir::VarDebugInfoContents::Place(p) = &vdi.value {
                if !p.projection.is_empty() {
                    dbg.push(J::obj(vec![("name", J::s(vdi.name.to_string())), ("place", self.place(body, p))]));
                }
            }
        }
        fields.push(("debug_places", J::Arr(dbg)));

        let typing_env = TypingEnv::post_analysis(tcx, did);
        let mut blocks = Vec::new();
        for (_bb, data) in body.basic_blocks.iter_enumerated() {
            blocks.push(self.block(body, data, typing_env));
        }
        fields.push(("blocks", J::Arr(blocks)));
        J::obj(fields)
    }

    fn line(&self, sp: Span) -> i64 {
        let sm = self.tcx.sess.source_map();
        sm.lookup_char_pos(sp.source_callsite().lo()).line as i64
    }

    fn block(&self, body: &Body<'tcx>, data: &BasicBlockData<'tcx>, env: TypingEnv<'tcx>) -> J {
        let mut stmts = Vec::new();
        for st in &data.statements {
            let sp = st.source_info.span;
            match &st.kind {
                StatementKind::Assign(b) => {
                    let (place, rv) = &**b;
                    stmts.push(J::obj(vec![
                        ("k", J::s("assign".into())),
                        ("place", self.place(body, place)),
                        ("rv", self.rvalue(body, rv, env)),
                        ("line", J::Int(self.line(sp))),
                        ("exp", J::Bool(sp.from_expansion())),
                    ]));
                }
                StatementKind::SetDiscriminant { place, variant_index } => {
                    stmts.push(J::obj(vec![
                        ("k", J::s("setdiscr".into())),
                        ("place", self.place(body, place)),
                        ("variant", J::Int(variant_index.as_usize() as i64)),
                        ("line", J::Int(self.line(sp))),
                    ]));
                }
                StatementKind::StorageLive(_)
                | StatementKind::StorageDead(_)
                | StatementKind::Nop
                | StatementKind::FakeRead(_)
                | StatementKind::PlaceMention(_)
                | StatementKind::AscribeUserType(..)
                | StatementKind::Coverage(_)
                | StatementKind::ConstEvalCounter
                | StatementKind::BackwardIncompatibleDropHint { .. } => {}
                other => {
                    stmts.push(J::obj(vec![
                        ("k", J::s("other".into())),
                        ("dbg", J::s(format!("{:?}", other))),
                        ("line", J::Int(self.line(sp))),
                    ]));
                }
            }
        }
        let term = data.terminator();
        let sp = term.source_info.span;
        let mut t: Vec<(&'static str, J)> = vec![
            ("line", J::Int(self.line(sp))),
            ("exp", J::Bool(sp.from_expansion())),
            ("span", self.span(sp)),
        ];
        let unwind = |u: &UnwindAction| match u {
            UnwindAction::Cleanup(bb) => J::Int(bb.as_usize() as i64),
            _ => J::Null,
        };
        match &term.kind {
            TerminatorKind::Goto { target } => {
                t.push(("k", J::s("goto".into())));
                t.push(("target", J::Int(target.as_usize() as i64)));
            }
            TerminatorKind::SwitchInt { discr, targets } => {
                t.push(("k", J::s("switch".into())));
                t.push(("discr", self.operand(body, discr, env)));
                let mut arms = Vec::new();
                for (v, bb) in targets.iter() {
                    arms.push(J::Arr(vec![J::s(v.to_string()), J::Int(bb.as_usize() as i64)]));
                }
                t.push(("arms", J::Arr(arms)));
                t.push(("otherwise", J::Int(targets.otherwise().as_usize() as i64)));
                t.push(("discr_ty", J::s(discr.ty(body, self.tcx).to_string())));
            }
            TerminatorKind::Return => t.push(("k", J::s("return".into()))),
            TerminatorKind::Unreachable => t.push(("k", J::s("unreachable".into()))),
            TerminatorKind::UnwindResume => t.push(("k", J::s("resume".into()))),
            TerminatorKind::UnwindTerminate(_) => t.push(("k", J::s("terminate".into()))),
            TerminatorKind::Drop { place, target, unwind: u, .. } => {
                t.push(("k", J::s("drop".into())));
                t.push(("place", self.place(body, place)));
                t.push(("ty", J::s(place.ty(body, self.tcx).ty.to_string())));
                t.push(("target", J::Int(target.as_usize() as i64)));
                t.push(("unwind", unwind(u)));
            }
            TerminatorKind::Call { func, args, destination, target, unwind: u, .. } => {
                t.push(("k", J::s("call".into())));
                t.push(("callee", self.callee(body, func, env)));
                t.push(("args", J::Arr(args.iter().map(|a| self.operand(body, &a.node, env)).collect())));
                t.push(("dest", self.place(body, destination)));
                t.push(("dest_ty", J::s(destination.ty(body, self.tcx).ty.to_string())));
                t.push(("target", target.map(|b| J::Int(b.as_usize() as i64)).unwrap_or(J::Null)));
                t.push(("unwind", unwind(u)));
            }
            TerminatorKind::TailCall { func, args, .. } => {
                t.push(("k", J::s("tailcall".into())));
                t.push(("callee", self.callee(body, func, env)));
                t.push(("args", J::Arr(args.iter().map(|a| self.operand(body, &a.node, env)).collect())));
            }
            TerminatorKind::Assert { cond, expected, msg, target, unwind: u } => {
                t.push(("k", J::s("assert".into())));
                t.push(("cond", self.operand(body, cond, env)));
                t.push(("expected", J::Bool(*expected)));
                let kind = match &**msg {
                    mir::AssertKind::BoundsCheck { .. } => "bounds".to_string(),
                    mir::AssertKind::Overflow(op, ..) => format!("overflow:{:?}", op),
                    mir::AssertKind::OverflowNeg(_) => "overflow:Neg".to_string(),
                    mir::AssertKind::DivisionByZero(_) => "div0".to_string(),
                    mir::AssertKind::RemainderByZero(_) => "rem0".to_string(),
                    other => format!("other:{:?}", std::mem::discriminant(other)),
                };
                t.push(("msg", J::s(kind)));
                t.push(("target", J::Int(target.as_usize() as i64)));
                t.push(("unwind", unwind(u)));
            }
            TerminatorKind::FalseEdge { real_target, .. } => {
                t.push(("k", J::s("goto".into())));
                t.push(("target", J::Int(real_target.as_usize() as i64)));
            }
            TerminatorKind::FalseUnwind { real_target, .. } => {
                t.push(("k", J::s("goto".into())));
                t.push(("target", J::Int(real_target.as_usize() as i64)));
            }
            other => {
                t.push(("k", J::s("other".into())));
                t.push(("dbg", J::s(format!("{:?}", other))));
            }
        }
        J::obj(vec![
            ("stmts", J::Arr(stmts)),
            ("term", J::obj(t)),
            ("cleanup", J::Bool(data.is_cleanup)),
        ])
    }

    fn place(&self, body: &Body<'tcx>, p: &Place<'tcx>) -> J {
        let tcx = self.tcx;
        let mut proj = Vec::new();
        let mut cur = mir::PlaceTy::from_ty(body.local_decls[p.local].ty);
        for elem in p.projection.iter() {
            match elem {
                ProjectionElem::Deref => proj.push(J::obj(vec![("k", J::s("deref".into()))])),
                ProjectionElem::Field(f, fty) => {
                    // field name, when the base is an ADT
                    let mut name = J::Null;
                    if let ty::Adt(adt, _) = cur.ty.kind() {
                        let v = match cur.variant_index {
                            Some(v) => Some(v),
                            None if adt.is_struct() || adt.is_union() => Some(rustc_abi::FIRST_VARIANT),
                            None => None,
                        };
                        if let Some(v) = v {
                            if let Some(fd) = adt.variant(v).fields.get(f) {
                                name = J::s(fd.name.to_string());
                            }
                        }
                    }
                    proj.push(J::obj(vec![
                        ("k", J::s("field".into())),
                        ("i", J::Int(f.as_usize() as i64)),
                        ("name", name),
                        ("ty", J::s(fty.to_string())),
                    ]));
                }
                ProjectionElem::Downcast(name, v) => {
                    proj.push(J::obj(vec![
                        ("k", J::s("downcast".into())),
                        ("variant", name.map(|n| J::s(n.to_string())).unwrap_or(J::Null)),
                        ("idx", J::Int(v.as_usize() as i64)),
                    ]));
                }
                ProjectionElem::Index(l) => proj.push(J::obj(vec![
                    ("k", J::s("index".into())),
                    ("local", J::Int(l.as_usize() as i64)),
                ])),
                ProjectionElem::ConstantIndex { offset, from_end, .. } => proj.push(J::obj(vec![
                    ("k", J::s("constindex".into())),
                    ("offset", J::Int(offset as i64)),
                    ("from_end", J::Bool(from_end)),
                ])),
                ProjectionElem::Subslice { .. } => proj.push(J::obj(vec![("k", J::s("subslice".into()))])),
                other => proj.push(J::obj(vec![
                    ("k", J::s("otherproj".into())),
                    ("dbg", J::s(format!("{:?}", other))),
                ])),
            }
            cur = cur.projection_ty(tcx, elem);
        }
        J::obj(vec![("l", J::Int(p.local.as_usize() as i64)), ("p", J::Arr(proj))])
    }

    fn operand(&self, body: &Body<'tcx>, op: &Operand<'tcx>, env: TypingEnv<'tcx>) -> J {
        match op {
            Operand::Copy(p) => J::obj(vec![("k", J::s("copy".into())), ("place", self.place(body, p))]),
            Operand::Move(p) => J::obj(vec![("k", J::s("move".into())), ("place", self.place(body, p))]),
            Operand::Constant(c) => self.constant(&c.const_, env),
            #[allow(unreachable_patterns)]
            other => J::obj(vec![("k", J::s("otherop".into())), ("dbg", J::s(format!("{:?}", other)))]),
        }
    }

    fn constant(&self, c: &Const<'tcx>, env: TypingEnv<'tcx>) -> J {
        let tcx = self.tcx;
        let ty = c.ty();
        let mut f: Vec<(&'static str, J)> = vec![("k", J::s("const".into())), ("ty", J::s(ty.to_string()))];
        match ty.kind() {
            ty::FnDef(did, args) => {
                f.push(("fn", self.fn_ref(*did, args, env)));
            }
            ty::Closure(did, _) => {
                f.push(("closure", J::s(tcx.def_path_str(*did))));
            }
            _ => {}
        }
        // named constant?
        if let Const::Unevaluated(uv, _) = c {
            f.push(("def", J::s(tcx.def_path_str(uv.def))));
            if let Some(p) = uv.promoted {
                f.push(("promoted", J::Int(p.as_usize() as i64)));
            }
        }
        // value
        let val = match c {
            Const::Val(v, t) => Some((*v, *t)),
            Const::Unevaluated(uv, t) => {
                if uv.promoted.is_none() {
                    c.eval(tcx, env, rustc_span::DUMMY_SP).ok().map(|v| (v, *t))
                } else {
                    None
                }
            }
            Const::Ty(..) => c.eval(tcx, env, rustc_span::DUMMY_SP).ok().map(|v| (v, ty)),
        };
        if let Some((v, t)) = val {
            f.push(("val", self.const_value(v, t)));
            // enum constants: variant name
            if let ty::Adt(adt, _) = t.kind() {
                if adt.is_enum() {
                    if let ConstValue::Scalar(mir::interpret::Scalar::Int(i)) = v {
                        let bits = i.to_bits(i.size());
                        for (vidx, d) in adt.discriminants(tcx) {
                            if d.val == bits {
                                f.push(("variant", J::s(adt.variant(vidx).name.to_string())));
                            }
                        }
                    }
                }
            }
        }
        f.push(("dbg", J::s(format!("{}", c))));
        J::obj(f)
    }

    fn fn_ref(&self, did: DefId, args: ty::GenericArgsRef<'tcx>, env: TypingEnv<'tcx>) -> J {
        let tcx = self.tcx;
        let mut f: Vec<(&'static str, J)> = vec![
            ("path", J::s(tcx.def_path_str(did))),
            ("path_args", J::s(tcx.def_path_str_with_args(did, args))),
            ("local", J::Bool(did.is_local())),
            ("krate", J::s(tcx.crate_name(did.krate).to_string())),
        ];
        // trait method?
        if let Some(tr) = tcx.trait_of_assoc(did) {
            f.push(("trait", J::s(tcx.def_path_str(tr))));
            if args.len() > 0 {
                if let Some(t) = args.get(0).and_then(|a| a.as_type()) {
                    f.push(("self_ty", J::s(t.to_string())));
                }
            }
        } else if let Some(imp) = tcx.impl_of_assoc(did) {
            let st = tcx.type_of(imp).instantiate_identity().skip_norm_wip();
            f.push(("impl_self", J::s(st.to_string())));
            if let ty::Adt(a, _) = st.kind() {
                f.push(("impl_adt", J::s(tcx.def_path_str(a.did()))));
            }
        }
        let targs: Vec<J> = args.iter().filter_map(|a| a.as_type()).map(|t| J::s(t.to_string())).collect();
        f.push(("targs", J::Arr(targs)));
        // resolve
        let args_n = tcx.normalize_erasing_regions(env, ty::Unnormalized::new_wip(args));
        if let Ok(Some(inst)) = Instance::try_resolve(tcx, env, did, args_n) {
            let rd = inst.def_id();
            f.push(("resolved", J::s(tcx.def_path_str(rd))));
            f.push(("resolved_local", J::Bool(rd.is_local())));
            f.push(("resolved_kind", J::s(match inst.def {
                ty::InstanceKind::Item(_) => "item".to_string(),
                ty::InstanceKind::Virtual(..) => "virtual".to_string(),
                ty::InstanceKind::FnPtrShim(..) => "fnptrshim".to_string(),
                ty::InstanceKind::ClosureOnceShim { .. } => "closureonce".to_string(),
                ty::InstanceKind::DropGlue(..) => "dropglue".to_string(),
                ty::InstanceKind::CloneShim(..) => "cloneshim".to_string(),
                ty::InstanceKind::Intrinsic(_) => "intrinsic".to_string(),
                ty::InstanceKind::ReifyShim(..) => "reify".to_string(),
                _ => "othershim".to_string(),
            })));
            if let Some(imp) = tcx.impl_of_assoc(rd) {
                let st = tcx.type_of(imp).instantiate_identity().skip_norm_wip();
                f.push(("resolved_self", J::s(st.to_string())));
            }
        }
        J::obj(f)
    }

    fn callee(&self, body: &Body<'tcx>, func: &Operand<'tcx>, env: TypingEnv<'tcx>) -> J {
        let tcx = self.tcx;
        let fty = func.ty(body, tcx);
        match fty.kind() {
            ty::FnDef(did, args) => {
                let mut j = self.fn_ref(*did, args, env);
                if let J::Obj(ref mut v) = j {
                    v.push(("k".to_string(), J::s("def".into())));
                    let sig = fty.fn_sig(tcx);
                    v.push(("ret".to_string(), J::s(sig.output().skip_binder().to_string())));
                }
                j
            }
            ty::FnPtr(..) => J::obj(vec![
                ("k", J::s("ptr".into())),
                ("ty", J::s(fty.to_string())),
                ("op", self.operand(body, func, env)),
            ]),
            _ => J::obj(vec![
                ("k", J::s("unknown".into())),
                ("ty", J::s(fty.to_string())),
                ("op", self.operand(body, func, env)),
            ]),
        }
    }

    fn rvalue(&self, body: &Body<'tcx>, rv: &Rvalue<'tcx>, env: TypingEnv<'tcx>) -> J {
        let tcx = self.tcx;
        match rv {
            Rvalue::Use(op, ..) => J::obj(vec![("k", J::s("use".into())), ("op", self.operand(body, op, env))]),
            Rvalue::Ref(_, bk, p) => J::obj(vec![
                ("k", J::s("ref".into())),
                ("mut", J::Bool(matches!(bk, BorrowKind::Mut { .. }))),
                ("place", self.place(body, p)),
            ]),
            Rvalue::RawPtr(_, p) => J::obj(vec![("k", J::s("rawptr".into())), ("place", self.place(body, p))]),
            Rvalue::BinaryOp(op, ops) => J::obj(vec![
                ("k", J::s("binop".into())),
                ("op", J::s(format!("{:?}", op))),
                ("a", self.operand(body, &ops.0, env)),
                ("b", self.operand(body, &ops.1, env)),
            ]),
            Rvalue::UnaryOp(op, a) => J::obj(vec![
                ("k", J::s("unop".into())),
                ("op", J::s(format!("{:?}", op))),
                ("a", self.operand(body, a, env)),
            ]),
            Rvalue::Cast(ck, op, ty) => {
                let kind = match ck {
                    CastKind::PointerCoercion(pc, _) => format!("coerce:{:?}", pc),
                    CastKind::IntToInt => "int2int".to_string(),
                    CastKind::Transmute => "transmute".to_string(),
                    other => format!("{:?}", other),
                };
                J::obj(vec![
                    ("k", J::s("cast".into())),
                    ("ck", J::s(kind)),
                    ("op", self.operand(body, op, env)),
                    ("ty", J::s(ty.to_string())),
                ])
            }
            Rvalue::Discriminant(p) => J::obj(vec![
                ("k", J::s("discr".into())),
                ("place", self.place(body, p)),
                ("ty", J::s(p.ty(body, tcx).ty.to_string())),
            ]),
            Rvalue::Aggregate(ak, ops) => {
                let mut f: Vec<(&'static str, J)> = vec![("k", J::s("agg".into()))];
                match &**ak {
                    AggregateKind::Adt(did, vidx, _, _, _) => {
                        let adt = tcx.adt_def(*did);
                        let v = adt.variant(*vidx);
                        f.push(("ak", J::s("adt".into())));
                        f.push(("adt", J::s(tcx.def_path_str(*did))));
                        f.push(("variant", J::s(v.name.to_string())));
                        f.push(("vidx", J::Int(vidx.as_usize() as i64)));
                        f.push(("fields", J::Arr(v.fields.iter().map(|fd| J::s(fd.name.to_string())).collect())));
                    }
                    AggregateKind::Tuple => f.push(("ak", J::s("tuple".into()))),
                    AggregateKind::Array(_) => f.push(("ak", J::s("array".into()))),
                    AggregateKind::Closure(did, _) => {
                        f.push(("ak", J::s("closure".into())));
                        f.push(("closure", J::s(tcx.def_path_str(*did))));
                    }
                    other => {
                        f.push(("ak", J::s("other".into())));
                        f.push(("dbg", J::s(format!("{:?}", other))));
                    }
                }
                f.push(("ops", J::Arr(ops.iter().map(|o| self.operand(body, o, env)).collect())));
                J::obj(f)
            }
            Rvalue::CopyForDeref(p) => J::obj(vec![
                ("k", J::s("use".into())),
                ("op", J::obj(vec![("k", J::s("copy".into())), ("place", self.place(body, p))])),
            ]),
            Rvalue::Repeat(op, _) => J::obj(vec![("k", J::s("repeat".into())), ("op", self.operand(body, op, env))]),
            Rvalue::ThreadLocalRef(did) => J::obj(vec![
                ("k", J::s("tlsref".into())),
                ("def", J::s(tcx.def_path_str(*did))),
            ]),
            other => J::obj(vec![("k", J::s("otherrv".into())), ("dbg", J::s(format!("{:?}", other)))]),
        }
    }
}
